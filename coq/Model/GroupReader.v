(* Model/GroupReader.v — consumer-group mode of kafka.Reader (reader.go, commit.go,
   consumergroup.go) as an atomic-step transition system (DESIGN.md 2.4, C03).
   Definitions only; proofs are in Proofs/GroupReader*.v.

   One label = one atomic action of one goroutine / one broker reaction / one
   environment choice.  Self-contained on purpose:
   * partition delivery is abstracted as "the partition reader emits exactly the
     next offset" (gap-free delivery from the start offset is C02's theorem);
   * generation management (join/sync/heartbeat, ConsumerGroup.run) is environment
     labels: the assignment handed out by SyncGroup is an ARBITRARY list of
     partitions, rebalances/evictions happen at arbitrary moments;
   * the coordinator is a SPEC inside the state: generation id, member ids,
     committed offsets; it accepts an OffsetCommit iff (member, generation) is
     current.
   Offsets are Z (Go int64; wrap at 2^63 is outside the model). *)
From Coq Require Import List NArith ZArith Bool.
Import ListNotations.
Open Scope Z_scope.

(* ---------------------------------------------------------------- basic types *)
Definition tp := (N * N)%type.               (* (topic id, partition) *)
Definition tp_eqb (a b : tp) : bool := (N.eqb (fst a) (fst b) && N.eqb (snd a) (snd b))%bool.

Definition FirstOffset : Z := -2.
Definition LastOffset : Z := -1.
Definition commitRetries : nat := 3.         (* defaultCommitRetries *)

Definition amap := list (tp * Z).            (* offsetStash / committed offsets, flattened *)

Fixpoint lookup (m : amap) (k : tp) {struct m} : option Z :=
  match m with
  | [] => None
  | (k', v) :: t => if tp_eqb k k' then Some v else lookup t k
  end.

Fixpoint aset (m : amap) (k : tp) (v : Z) {struct m} : amap :=
  match m with
  | [] => [(k, v)]
  | (k', v') :: t => if tp_eqb k k' then (k', v) :: t else (k', v') :: aset t k v
  end.

(* commit.go makeCommit: offset + 1 *)
Definition makeCommit (m : tp * Z) : tp * Z := (fst m, snd m + 1).
Definition makeCommits (ms : list (tp * Z)) : list (tp * Z) := map makeCommit ms.

(* reader.go offsetStash.merge: per partition keep the maximum *)
Definition merge1 (s : amap) (c : tp * Z) : amap :=
  match lookup s (fst c) with
  | Some o => if snd c >? o then aset s (fst c) (snd c) else s
  | None => aset s (fst c) (snd c)
  end.
Definition merge (s : amap) (cs : list (tp * Z)) : amap := fold_left merge1 cs s.

(* coordinator: an accepted OffsetCommit overwrites (no monotonicity check) *)
Definition store (m : amap) (offs : amap) : amap :=
  fold_right (fun kv acc => aset acc (fst kv) (snd kv)) m offs.

(* consumergroup.go fetchOffsets + makeAssignments for one partition:
   raw = offset answered by OffsetFetch (-1 = none); offset < 0 => StartOffset *)
Definition fetch_raw (committed : amap) (t : tp) : Z :=
  match lookup committed t with Some c => c | None => -1 end.
Definition start_of_raw (startOffset raw : Z) : Z := if raw <? 0 then startOffset else raw.

(* reader.go reader.initialize with log start 0 and high watermark hw *)
Definition resolve_start (given hw : Z) : Z :=
  if given =? FirstOffset then 0
  else if given =? LastOffset then hw
  else if given <? 0 then 0 else given.

(* ---------------------------------------------------------------- configuration *)
Record config := { cfg_sync : bool;          (* CommitInterval == 0 *)
                   cfg_start : Z }.          (* StartOffset: FirstOffset or LastOffset *)

(* ---------------------------------------------------------------- member state *)
Record creq := { cq_id : nat; cq_commits : list (tp * Z) }.

Inductive cloop :=
| CLIdle
| CLBusy (waiters : list nat) (left : nat) (final : bool) (lasterr : Z)
| CLExited.

Inductive phase :=
| PIdle
| PJoined (g mid : N) (asg : list tp)
| PFetched (g mid : N) (offs : list (tp * Z))
| PRunning (g mid : N).

Record preader := { pr_tp : tp; pr_start : Z; pr_next : option Z }.

Inductive fetcher := FIdle | FWait (snap : N).

Record rstate := {
  rd_version : N;                      (* Reader.version *)
  rd_msgs : list (N * tp * Z);         (* Reader.msgs, head = next to receive *)
  rd_commits : list creq;              (* Reader.commits (survives generations) *)
  rd_waiting : list nat;               (* sync CommitMessages calls blocked on errch *)
  rd_fetch : fetcher;                  (* the (single) FetchMessage caller *)
  rd_mid : option N;                   (* memberID kept by ConsumerGroup.run *)
  rd_phase : phase;
  rd_done : bool;                      (* gen.done closed *)
  rd_loop : cloop;                     (* commitLoop goroutine *)
  rd_stash : amap;                     (* its offsetStash *)
  rd_readers : list preader;           (* partition readers of the current version *)
  rd_unsub : bool                      (* the unsubscribe function has returned *)
}.

Definition rd_init : rstate :=
  {| rd_version := 1%N; rd_msgs := []; rd_commits := []; rd_waiting := []; rd_fetch := FIdle;
     rd_mid := None; rd_phase := PIdle; rd_done := false; rd_loop := CLExited; rd_stash := [];
     rd_readers := []; rd_unsub := true |}.

(* ---------------------------------------------------------------- coordinator spec *)
Record coord := {
  co_gen : N;
  co_members : list N;
  co_next : N;                         (* next fresh member id *)
  co_completing : bool;                (* CompletingRebalance: commits get RebalanceInProgress *)
  co_committed : amap
}.

Definition co_init : coord :=
  {| co_gen := 0%N; co_members := []; co_next := 1%N; co_completing := false; co_committed := [] |}.

Definition memN (x : N) (l : list N) : bool := existsb (N.eqb x) l.

Definition E_UnknownMemberId : Z := 25.
Definition E_IllegalGeneration : Z := 22.
Definition E_RebalanceInProgress : Z := 27.

Definition co_check (c : coord) (mid g : N) : Z :=
  if negb (memN mid (co_members c)) then E_UnknownMemberId
  else if negb (N.eqb g (co_gen c)) then E_IllegalGeneration
  else if co_completing c then E_RebalanceInProgress
  else 0.

(* ---------------------------------------------------------------- history (ghost) *)
Inductive cres := RNil | RErr (code : Z).

Inductive event :=
| EvAppend (t : tp)
| EvAssign (r : nat) (mid g : N) (asg : list tp)
| EvOffsetFetch (r : nat) (g : N) (t : tp) (raw start : Z)
| EvReaderInit (r : nat) (v : N) (t : tp) (given resolved : Z)
| EvDeliver (r : nat) (v : N) (t : tp) (o : Z)
| EvDrop (r : nat) (v : N) (t : tp) (o : Z)
| EvCommitCall (r : nat) (id : nat) (msgs : list (tp * Z))
| EvCommitRet (r : nat) (id : nat) (res : cres)
| EvOffsetCommit (r : nat) (mid g : N) (offs : amap) (code : Z) (applied : bool).

Record state := {
  st_rd : nat -> rstate;
  st_co : coord;
  st_hw : amap;                        (* high watermark per partition (log start is 0) *)
  st_ncall : nat;                      (* next CommitMessages call id *)
  st_hist : list event                 (* newest first *)
}.

Definition init : state :=
  {| st_rd := fun _ => rd_init; st_co := co_init; st_hw := []; st_ncall := O; st_hist := [] |}.

Definition hw_of (m : amap) (t : tp) : Z := match lookup m t with Some h => h | None => 0 end.

Definition upd (f : nat -> rstate) (r : nat) (x : rstate) : nat -> rstate :=
  fun r' => if Nat.eqb r' r then x else f r'.

Definition set_rd (s : state) (r : nat) (x : rstate) : state :=
  {| st_rd := upd (st_rd s) r x; st_co := st_co s; st_hw := st_hw s; st_ncall := st_ncall s;
     st_hist := st_hist s |}.
Definition push (s : state) (es : list event) : state :=
  {| st_rd := st_rd s; st_co := st_co s; st_hw := st_hw s; st_ncall := st_ncall s;
     st_hist := es ++ st_hist s |}.
Definition set_co (s : state) (c : coord) : state :=
  {| st_rd := st_rd s; st_co := c; st_hw := st_hw s; st_ncall := st_ncall s; st_hist := st_hist s |}.

(* record updates of rstate *)
Definition with_msgs (x : rstate) q := {| rd_version := rd_version x; rd_msgs := q; rd_commits := rd_commits x;
  rd_waiting := rd_waiting x; rd_fetch := rd_fetch x; rd_mid := rd_mid x; rd_phase := rd_phase x;
  rd_done := rd_done x; rd_loop := rd_loop x; rd_stash := rd_stash x; rd_readers := rd_readers x; rd_unsub := rd_unsub x |}.
Definition with_fetch (x : rstate) f := {| rd_version := rd_version x; rd_msgs := rd_msgs x; rd_commits := rd_commits x;
  rd_waiting := rd_waiting x; rd_fetch := f; rd_mid := rd_mid x; rd_phase := rd_phase x;
  rd_done := rd_done x; rd_loop := rd_loop x; rd_stash := rd_stash x; rd_readers := rd_readers x; rd_unsub := rd_unsub x |}.
Definition with_commits (x : rstate) c w := {| rd_version := rd_version x; rd_msgs := rd_msgs x; rd_commits := c;
  rd_waiting := w; rd_fetch := rd_fetch x; rd_mid := rd_mid x; rd_phase := rd_phase x;
  rd_done := rd_done x; rd_loop := rd_loop x; rd_stash := rd_stash x; rd_readers := rd_readers x; rd_unsub := rd_unsub x |}.
Definition with_group (x : rstate) m p := {| rd_version := rd_version x; rd_msgs := rd_msgs x; rd_commits := rd_commits x;
  rd_waiting := rd_waiting x; rd_fetch := rd_fetch x; rd_mid := m; rd_phase := p;
  rd_done := rd_done x; rd_loop := rd_loop x; rd_stash := rd_stash x; rd_readers := rd_readers x; rd_unsub := rd_unsub x |}.
Definition with_readers (x : rstate) rs := {| rd_version := rd_version x; rd_msgs := rd_msgs x; rd_commits := rd_commits x;
  rd_waiting := rd_waiting x; rd_fetch := rd_fetch x; rd_mid := rd_mid x; rd_phase := rd_phase x;
  rd_done := rd_done x; rd_loop := rd_loop x; rd_stash := rd_stash x; rd_readers := rs; rd_unsub := rd_unsub x |}.
(* commit-loop part: channel, waiters, loop state, stash *)
Definition with_loop (x : rstate) c w l st := {| rd_version := rd_version x; rd_msgs := rd_msgs x; rd_commits := c;
  rd_waiting := w; rd_fetch := rd_fetch x; rd_mid := rd_mid x; rd_phase := rd_phase x;
  rd_done := rd_done x; rd_loop := l; rd_stash := st; rd_readers := rd_readers x; rd_unsub := rd_unsub x |}.

(* ---------------------------------------------------------------- labels *)
Inductive cfault := NoFault | FCode (c : Z) | FDropBefore | FDropAfter.

Inductive label :=
(* environment: log, coordinator *)
| LAppend (t : tp)
| LCoBump
| LCoEvict (mid : N)
| LCoCompleting (b : bool)
(* ConsumerGroup.nextGeneration as seen by member r *)
| LJoinSync (r : nat) (bump : bool) (asg : list tp)   (* JoinGroup+SyncGroup answered *)
| LJoinFail (r : nat) (keep : bool)                   (* error on join/sync; keep = RebalanceInProgress *)
| LOffsetFetch (r : nat)
| LOffsetFetchFail (r : nat) (keep : bool)
| LSubscribe (r : nat)                                (* Reader.subscribe + gen.Start x2 *)
| LGenEnd (r : nat)                                   (* gen.done closed (heartbeat error, Close, ...) *)
| LUnsubscribe (r : nat)                              (* r.cancel(); r.join.Wait() *)
| LGenClose (r : nat)                                 (* gen.close() returned: all routines joined *)
(* partition readers of the current version *)
| LReaderInit (r : nat) (t : tp)
| LReaderEmit (r : nat) (t : tp)
(* application: FetchMessage *)
| LFetchSnap (r : nat)
| LFetchRecv (r : nat)
| LFetchCancel (r : nat)
(* application: CommitMessages (ReadMessage = FetchMessage; CommitMessages(m)) *)
| LCommitCall (r : nat) (msgs : list (tp * Z))
| LCommitCancel (r : nat) (id : nat)
(* commitLoopImmediate / commitLoopInterval *)
| LLoopRecv (r : nat)
| LLoopTick (r : nat)
| LLoopFinal (r : nat)
| LLoopAttempt (r : nat) (f : cfault)
| LLoopGiveUp (r : nat).

(* ---------------------------------------------------------------- helpers *)
Definition memnat (x : nat) (l : list nat) : bool := existsb (Nat.eqb x) l.
Definition remnat (x : nat) (l : list nat) : list nat := filter (fun y => negb (Nat.eqb x y)) l.

(* the application's premise: it commits only messages it was handed *)
Definition is_deliver (r : nat) (m : tp * Z) (e : event) : bool :=
  match e with
  | EvDeliver r' _ t o => (Nat.eqb r r' && tp_eqb (fst m) t && Z.eqb (snd m) o)%bool
  | _ => false
  end.
Definition handed (h : list event) (r : nat) (m : tp * Z) : bool := existsb (is_deliver r m) h.

(* replies of the commit loop to the callers still waiting *)
Fixpoint replies (r : nat) (ws : list nat) (waiting : list nat) (res : cres) {struct ws}
  : list event * list nat :=
  match ws with
  | [] => ([], waiting)
  | id :: t =>
    let '(es, w) := replies r t waiting res in
    if memnat id w then (EvCommitRet r id res :: es, remnat id w) else (es, w)
  end.

Fixpoint find_reader (rs : list preader) (t : tp) {struct rs} : option preader :=
  match rs with
  | [] => None
  | p :: rest => if tp_eqb t (pr_tp p) then Some p else find_reader rest t
  end.
Fixpoint set_reader (rs : list preader) (t : tp) (n : option Z) {struct rs} : list preader :=
  match rs with
  | [] => []
  | p :: rest => if tp_eqb t (pr_tp p)
                 then {| pr_tp := pr_tp p; pr_start := pr_start p; pr_next := n |} :: rest
                 else p :: set_reader rest t n
  end.

Definition mk_reader (a : tp * Z) : preader := {| pr_tp := fst a; pr_start := snd a; pr_next := None |}.

(* the loop finishes a commit (success or give-up) *)
Definition finish (cfg : config) (s : state) (r : nat) (x : rstate) (ws : list nat) (final : bool)
           (ok : bool) (code : Z) (pre : list event) : state :=
  let res := if ok then RNil else RErr code in
  let '(es, w) := replies r ws (rd_waiting x) res in
  let stash' := if final then []
                else if cfg_sync cfg then [] else if ok then [] else rd_stash x in
  let loop' := if final then CLExited else CLIdle in
  push (set_rd s r (with_loop x (rd_commits x) w loop' stash')) (es ++ pre).

(* ---------------------------------------------------------------- the step function *)
Definition step (cfg : config) (s : state) (l : label) : option state :=
  match l with
  | LAppend t =>
    Some (push {| st_rd := st_rd s; st_co := st_co s; st_hw := aset (st_hw s) t (hw_of (st_hw s) t + 1);
                  st_ncall := st_ncall s; st_hist := st_hist s |} [EvAppend t])
  | LCoBump =>
    let c := st_co s in
    Some (set_co s {| co_gen := co_gen c + 1; co_members := co_members c; co_next := co_next c;
                      co_completing := co_completing c; co_committed := co_committed c |})
  | LCoEvict mid =>
    let c := st_co s in
    Some (set_co s {| co_gen := co_gen c; co_members := filter (fun m => negb (N.eqb mid m)) (co_members c);
                      co_next := co_next c; co_completing := co_completing c; co_committed := co_committed c |})
  | LCoCompleting b =>
    let c := st_co s in
    Some (set_co s {| co_gen := co_gen c; co_members := co_members c; co_next := co_next c;
                      co_completing := b; co_committed := co_committed c |})
  | LJoinSync r bump asg =>
    let x := st_rd s r in
    match rd_phase x with
    | PIdle =>
      let c := st_co s in
      let known := match rd_mid x with Some m => memN m (co_members c) | None => false end in
      let mid := match rd_mid x with Some m => if known then m else co_next c | None => co_next c end in
      let g := if bump then (co_gen c + 1)%N else co_gen c in
      let c' := {| co_gen := g;
                   co_members := if known then co_members c else mid :: co_members c;
                   co_next := if known then co_next c else (co_next c + 1)%N;
                   co_completing := co_completing c; co_committed := co_committed c |} in
      Some (push (set_co (set_rd s r (with_group x (Some mid) (PJoined g mid asg))) c')
                 [EvAssign r mid g asg])
    | _ => None
    end
  | LJoinFail r keep =>
    let x := st_rd s r in
    match rd_phase x with
    | PIdle => Some (set_rd s r (with_group x (if keep then rd_mid x else None) PIdle))
    | _ => None
    end
  | LOffsetFetch r =>
    let x := st_rd s r in
    match rd_phase x with
    | PJoined g mid asg =>
      let cm := co_committed (st_co s) in
      let offs := map (fun t => (t, start_of_raw (cfg_start cfg) (fetch_raw cm t))) asg in
      let evs := map (fun t => EvOffsetFetch r g t (fetch_raw cm t)
                                 (start_of_raw (cfg_start cfg) (fetch_raw cm t))) asg in
      Some (push (set_rd s r (with_group x (rd_mid x) (PFetched g mid offs))) (rev evs))
    | _ => None
    end
  | LOffsetFetchFail r keep =>
    let x := st_rd s r in
    match rd_phase x with
    | PJoined g mid asg => Some (set_rd s r (with_group x (if keep then rd_mid x else None) PIdle))
    | _ => None
    end
  | LSubscribe r =>
    let x := st_rd s r in
    match rd_phase x with
    | PFetched g mid offs =>
      Some (set_rd s r
        {| rd_version := (rd_version x + 1)%N; rd_msgs := rd_msgs x; rd_commits := rd_commits x;
           rd_waiting := rd_waiting x; rd_fetch := rd_fetch x; rd_mid := rd_mid x;
           rd_phase := PRunning g mid; rd_done := false; rd_loop := CLIdle; rd_stash := [];
           rd_readers := map mk_reader offs; rd_unsub := false |})
    | _ => None
    end
  | LGenEnd r =>
    let x := st_rd s r in
    match rd_phase x with
    | PRunning g mid =>
      if rd_done x then None else
      Some (set_rd s r
        {| rd_version := rd_version x; rd_msgs := rd_msgs x; rd_commits := rd_commits x;
           rd_waiting := rd_waiting x; rd_fetch := rd_fetch x; rd_mid := rd_mid x;
           rd_phase := rd_phase x; rd_done := true; rd_loop := rd_loop x; rd_stash := rd_stash x;
           rd_readers := rd_readers x; rd_unsub := rd_unsub x |})
    | _ => None
    end
  | LUnsubscribe r =>
    let x := st_rd s r in
    match rd_phase x with
    | PRunning g mid =>
      if (rd_done x && negb (rd_unsub x))%bool then
      Some (set_rd s r
        {| rd_version := rd_version x; rd_msgs := rd_msgs x; rd_commits := rd_commits x;
           rd_waiting := rd_waiting x; rd_fetch := rd_fetch x; rd_mid := rd_mid x;
           rd_phase := rd_phase x; rd_done := true; rd_loop := rd_loop x; rd_stash := rd_stash x;
           rd_readers := []; rd_unsub := true |})
      else None
    | _ => None
    end
  | LGenClose r =>
    let x := st_rd s r in
    match rd_phase x, rd_loop x with
    | PRunning g mid, CLExited =>
      if (rd_done x && rd_unsub x)%bool then Some (set_rd s r (with_group x (rd_mid x) PIdle)) else None
    | _, _ => None
    end
  | LReaderInit r t =>
    let x := st_rd s r in
    match find_reader (rd_readers x) t with
    | Some p =>
      match pr_next p with
      | None =>
        let hw := hw_of (st_hw s) t in
        let n := resolve_start (pr_start p) hw in
        if n <=? hw then
          Some (push (set_rd s r (with_readers x (set_reader (rd_readers x) t (Some n))))
                     [EvReaderInit r (rd_version x) t (pr_start p) n])
        else None                      (* OffsetOutOfRange: retried later *)
      | Some _ => None
      end
    | None => None
    end
  | LReaderEmit r t =>
    let x := st_rd s r in
    match find_reader (rd_readers x) t with
    | Some p =>
      match pr_next p with
      | Some n =>
        if n <? hw_of (st_hw s) t then
          Some (set_rd s r (with_readers (with_msgs x (rd_msgs x ++ [(rd_version x, t, n)]))
                                         (set_reader (rd_readers x) t (Some (n + 1)))))
        else None
      | None => None
      end
    | None => None
    end
  | LFetchSnap r =>
    let x := st_rd s r in
    match rd_fetch x with
    | FIdle => Some (set_rd s r (with_fetch x (FWait (rd_version x))))
    | FWait _ => None
    end
  | LFetchRecv r =>
    let x := st_rd s r in
    match rd_fetch x, rd_msgs x with
    | FWait snap, (v, t, o) :: q =>
      let x' := with_fetch (with_msgs x q) FIdle in
      if (snap <=? v)%N then Some (push (set_rd s r x') [EvDeliver r v t o])
      else Some (push (set_rd s r x') [EvDrop r v t o])
    | _, _ => None
    end
  | LFetchCancel r =>
    let x := st_rd s r in
    match rd_fetch x with
    | FWait _ => Some (set_rd s r (with_fetch x FIdle))
    | FIdle => None
    end
  | LCommitCall r msgs =>
    let x := st_rd s r in
    if forallb (handed (st_hist s) r) msgs then
      let id := st_ncall s in
      let rq := {| cq_id := id; cq_commits := makeCommits msgs |} in
      let s1 := {| st_rd := st_rd s; st_co := st_co s; st_hw := st_hw s; st_ncall := S id;
                   st_hist := st_hist s |} in
      if cfg_sync cfg then
        Some (push (set_rd s1 r (with_commits x (rd_commits x ++ [rq]) (id :: rd_waiting x)))
                   [EvCommitCall r id msgs])
      else
        Some (push (set_rd s1 r (with_commits x (rd_commits x ++ [rq]) (rd_waiting x)))
                   [EvCommitRet r id RNil; EvCommitCall r id msgs])
    else None
  | LCommitCancel r id =>
    let x := st_rd s r in
    if memnat id (rd_waiting x) then
      Some (push (set_rd s r (with_commits x (rd_commits x) (remnat id (rd_waiting x))))
                 [EvCommitRet r id (RErr (-2))])
    else None
  | LLoopRecv r =>
    let x := st_rd s r in
    match rd_phase x, rd_loop x, rd_commits x with
    | PRunning g mid, CLIdle, rq :: rest =>
      let st := merge (rd_stash x) (cq_commits rq) in
      if cfg_sync cfg then
        Some (set_rd s r (with_loop x rest (rd_waiting x) (CLBusy [cq_id rq] commitRetries false 0) st))
      else
        Some (set_rd s r (with_loop x rest (rd_waiting x) CLIdle st))
    | _, _, _ => None
    end
  | LLoopTick r =>
    let x := st_rd s r in
    match rd_phase x, rd_loop x with
    | PRunning g mid, CLIdle =>
      if cfg_sync cfg then None
      else Some (set_rd s r (with_loop x (rd_commits x) (rd_waiting x) (CLBusy [] commitRetries false 0) (rd_stash x)))
    | _, _ => None
    end
  | LLoopFinal r =>
    let x := st_rd s r in
    match rd_phase x, rd_loop x with
    | PRunning g mid, CLIdle =>
      if rd_done x then
        let st := fold_left (fun acc rq => merge acc (cq_commits rq)) (rd_commits x) (rd_stash x) in
        let ws := if cfg_sync cfg then map cq_id (rd_commits x) else [] in
        Some (set_rd s r (with_loop x [] (rd_waiting x) (CLBusy ws commitRetries true 0) st))
      else None
    | _, _ => None
    end
  | LLoopAttempt r f =>
    let x := st_rd s r in
    match rd_phase x, rd_loop x with
    | PRunning g mid, CLBusy ws (S left') final lasterr =>
      match rd_stash x with
      | [] =>                              (* Generation.CommitOffsets: len(offsets)==0 => nil, no request *)
        Some (finish cfg s r x ws final true 0 [])
      | _ :: _ =>
        let c := st_co s in
        let k := co_check c mid g in
        let '(code, applied) :=
          match f with
          | NoFault => (k, Z.eqb k 0)
          | FCode e => (e, false)
          | FDropBefore => (-1, false)
          | FDropAfter => (-1, Z.eqb k 0)
          end in
        if (match f with FCode e => Z.eqb e 0 | _ => false end) then None else
        let c' := if applied
                  then {| co_gen := co_gen c; co_members := co_members c; co_next := co_next c;
                          co_completing := co_completing c;
                          co_committed := store (co_committed c) (rd_stash x) |}
                  else c in
        let ev := EvOffsetCommit r mid g (rd_stash x) code applied in
        let s1 := set_co s c' in
        if Z.eqb code 0 then Some (finish cfg s1 r x ws final true 0 [ev])
        else match left' with
             | O => Some (finish cfg s1 r x ws final false code [ev])
             | S _ => Some (push (set_rd s1 r (with_loop x (rd_commits x) (rd_waiting x)
                                                (CLBusy ws left' final code) (rd_stash x))) [ev])
             end
      end
    | _, _ => None
    end
  | LLoopGiveUp r =>                       (* sleep(r.stctx, backoff) aborted: returns the last error *)
    let x := st_rd s r in
    match rd_phase x, rd_loop x with
    | PRunning g mid, CLBusy ws lft final lasterr =>
      if (lft <? commitRetries)%nat then Some (finish cfg s r x ws final false lasterr []) else None
    | _, _ => None
    end
  end.

(* ---------------------------------------------------------------- history observers
   (boolean, extracted: the same definitions the theorems are about) *)

(* the coordinator's committed offset as a function of the history: newest applied commit *)
Fixpoint hist_committed (h : list event) (t : tp) {struct h} : option Z :=
  match h with
  | [] => None
  | EvOffsetCommit _ _ _ offs _ true :: rest =>
    match lookup offs t with Some c => Some c | None => hist_committed rest t end
  | _ :: rest => hist_committed rest t
  end.

Fixpoint hist_hw (h : list event) (t : tp) {struct h} : Z :=
  match h with
  | [] => 0
  | EvAppend t' :: rest => if tp_eqb t t' then hist_hw rest t + 1 else hist_hw rest t
  | _ :: rest => hist_hw rest t
  end.

Definition delivered_b (h : list event) (t : tp) (o : Z) : bool :=
  existsb (fun e => match e with EvDeliver _ _ t' o' => (tp_eqb t t' && Z.eqb o o')%bool | _ => false end) h.

Definition passed_b (h : list event) (r : nat) (t : tp) (o : Z) : bool :=
  existsb (fun e => match e with
                    | EvCommitCall r' _ msgs =>
                      (Nat.eqb r r' && existsb (fun m => (tp_eqb t (fst m) && Z.eqb o (snd m))%bool) msgs)%bool
                    | _ => false end) h.

(* all offsets in [lo, lo+n) delivered *)
Fixpoint range_delivered_b (h : list event) (t : tp) (lo : Z) (n : nat) {struct n} : bool :=
  match n with
  | O => true
  | S n' => (delivered_b h t lo && range_delivered_b h t (lo + 1) n')%bool
  end.

Fixpoint call_msgs (h : list event) (r : nat) (id : nat) {struct h} : option (list (tp * Z)) :=
  match h with
  | [] => None
  | EvCommitCall r' id' msgs :: rest =>
    if (Nat.eqb r r' && Nat.eqb id id')%bool then Some msgs else call_msgs rest r id
  | _ :: rest => call_msgs rest r id
  end.

(* is there, in h (newest first), an applied+acknowledged commit e such that right after e
   the committed offset of t is >= c, and the call (r,id) is older than e? *)
Fixpoint acked_after_call (h : list event) (r id : nat) (t : tp) (c : Z) {struct h} : bool :=
  match h with
  | [] => false
  | e :: rest =>
    ((match e with
      | EvOffsetCommit _ _ _ _ 0 true =>
        (match hist_committed h t with Some c' => c <=? c' | None => false end
         && match call_msgs rest r id with Some _ => true | None => false end)%bool
      | _ => false
      end) || acked_after_call rest r id t c)%bool
  end.

(* per-event checks; [h] is the history strictly before the event *)
Definition check_event (cfg : config) (first0 : bool) (e : event) (h : list event) : bool :=
  match e with
  | EvOffsetCommit r _ _ offs _ _ =>
    forallb (fun kv => (passed_b h r (fst kv) (snd kv - 1)                      (* commit bound *)
                        && (negb first0 ||                                       (* delivered before covered *)
                            range_delivered_b h (fst kv) 0 (Z.to_nat (snd kv))))%bool) offs
  | EvCommitRet r id RNil =>
    if cfg_sync cfg then
      match call_msgs h r id with
      | Some msgs => forallb (fun m => acked_after_call h r id (fst m) (snd m + 1)) msgs
      | None => false
      end
    else true
  | EvOffsetFetch _ _ t raw start =>
    (Z.eqb raw (match hist_committed h t with Some c => c | None => -1 end)
     && Z.eqb start (start_of_raw (cfg_start cfg) raw))%bool
  | EvReaderInit r _ t given resolved =>
    (Z.eqb resolved (resolve_start given (hist_hw h t))
     && existsb (fun e' => match e' with
                           | EvOffsetFetch r' _ t' _ st => (Nat.eqb r r' && tp_eqb t t' && Z.eqb st given)%bool
                           | _ => false end) h)%bool
  | EvDeliver r v t o =>
    existsb (fun e' => match e' with
                       | EvReaderInit r' v' t' _ res => (Nat.eqb r r' && N.eqb v v' && tp_eqb t t' && Z.eqb res o)%bool
                       | EvDeliver r' v' t' o' => (Nat.eqb r r' && N.eqb v v' && tp_eqb t t' && Z.eqb o' (o - 1))%bool
                       | _ => false end) h
  | _ => true
  end.

Fixpoint check_hist (cfg : config) (first0 : bool) (h : list event) {struct h} : bool :=
  match h with
  | [] => true
  | e :: rest => (check_event cfg first0 e rest && check_hist cfg first0 rest)%bool
  end.

(* C03 on a recorded history (newest first); the delivered-before-covered clause is
   checked from offset 0 when StartOffset = FirstOffset *)
Definition C03_holds (cfg : config) (h : list event) : bool :=
  check_hist cfg (Z.eqb (cfg_start cfg) FirstOffset) h.

(* the resolved start offset of the oldest partition reader of t in the history *)
Fixpoint first_start (h : list event) (t : tp) {struct h} : option Z :=
  match h with
  | [] => None
  | e :: rest =>
    match first_start rest t with
    | Some x => Some x
    | None => match e with
              | EvReaderInit _ _ t' _ res => if tp_eqb t t' then Some res else None
              | _ => None
              end
    end
  end.

(* some acknowledged commit covers a record at or after the first start offset that was
   never delivered before (possible with StartOffset = LastOffset) *)
Fixpoint lost_b (h : list event) {struct h} : bool :=
  match h with
  | [] => false
  | e :: rest =>
    ((match e with
      | EvOffsetCommit _ _ _ offs 0 true =>
        existsb (fun kv => match first_start rest (fst kv) with
                           | Some f => negb (range_delivered_b rest (fst kv) f (Z.to_nat (snd kv - f)))
                           | None => false
                           end) offs
      | _ => false
      end) || lost_b rest)%bool
  end.

(* ---- quiescence.  The assignment of a generation is an environment label (LJoinSync): that
   the assignments distributed in generation g cover the partitions of the existing subscribed
   topics is a HYPOTHESIS on the labels, evaluated on what the real group leader computed. *)
Definition assigned_in_gen (h : list event) (g : N) (t : tp) : bool :=
  existsb (fun e => match e with
                    | EvAssign _ _ g' asg => (N.eqb g g' && existsb (tp_eqb t) asg)%bool
                    | _ => false end) h.
Definition assignment_covers_existing_b (existing : list tp) (g : N) (h : list event) : bool :=
  forallb (assigned_in_gen h g) existing.
Definition all_delivered_b (existing : list tp) (h : list event) : bool :=
  forallb (fun t => range_delivered_b h t 0 (Z.to_nat (hist_hw h t))) existing.
