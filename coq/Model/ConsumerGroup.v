(* Model/ConsumerGroup.v — atomic-step model of /repo/consumergroup.go
   (Generation.Start/close accounting, heartbeatLoop, partitionWatcher,
   ConsumerGroup.run / nextGeneration / leaveGroup, Next, Close).

   Definitions only.  One label = one atomic action of one goroutine (a critical
   section of Generation.lock, one channel operation, one coordinator round trip,
   one timer firing) or an environment choice (coordinator answers, user calls).
   All nondeterminism is in the choice of the next label.

   Generations are numbered by creation order (0,1,2,…: the k-th Generation value
   built by nextGeneration), functions by the order of their Start critical
   sections; member ids are naturals chosen by the coordinator.  *)
From Coq Require Import List ZArith Bool Arith.
Import ListNotations.

(* ---- coordinator answers ---- *)
Inductive errclass :=
| ERebalance          (* kafka.Error(27) RebalanceInProgress: errors.Is(err, RebalanceInProgress) *)
| EKafka              (* any other kafka.Error code *)
| EDropped.           (* not a kafka.Error: dropped connection, time-out, undecodable answer *)
Inductive answer := AOk | AErr (e : errclass).
(* JoinGroup: success carries the member id and whether this member is the leader;
   the leader runs assignTopicPartitions (readPartitions + balancer) which may fail
   AFTER the member id has been taken from the response. *)
Inductive leadership := NotLeader | LeaderOk | LeaderFail (e : errclass).
Inductive join_answer := JOk (m : nat) (ld : leadership) | JErr (e : errclass).
(* assignTopicPartitions (run by the leader inside the JoinGroup step): one readPartitions for all
   topics; if that answers UnknownTopicOrPartition and there are at least two topics, one
   readPartitions per topic, in order, skipping the topics that answer UnknownTopicOrPartition and
   returning any other error at once.  [leader_assign] gives the leadership outcome of the step
   and the number of metadata reads made. *)
Inductive meta_answer := MOk | MUnknown | MErr (e : errclass).
Fixpoint leader_per_topic (l : list meta_answer) : nat * option errclass :=
  match l with
  | [] => (O, None)
  | MErr e :: _ => (1, Some e)
  | _ :: t => let '(n, r) := leader_per_topic t in (S n, r)
  end.
Definition leader_assign (ntopics : nat) (first : meta_answer) (per : list meta_answer) : leadership * nat :=
  match first with
  | MOk => (LeaderOk, 1)
  | MErr e => (LeaderFail e, 1)
  | MUnknown =>
    if Nat.leb 2 ntopics
    then let '(n, r) := leader_per_topic (firstn ntopics per) in
         (match r with None => LeaderOk | Some e => LeaderFail e end, S n)
    else (LeaderOk, 1)       (* a single unknown topic: no assignment for it, not a failure *)
  end.

(* the member assignment carried by a successful SyncGroup answer: per topic (index into the
   configured topics) the partitions handed to this member.  It may be EMPTY (a stand-by member:
   more consumers than partitions, or the topic does not exist yet), may leave configured topics
   out, or span several topics.  nextGeneration does not branch on it: the heartbeat and the
   watchers (one per CONFIGURED topic) are started whatever it is, so [step] ignores it. *)
Definition assignment := list (nat * list nat).

(* partitionWatcher tick: readPartitions result classes *)
Inductive wres := WSame | WChanged | WKafkaErr | WDropped.

(* ---- generations and the functions started on them ---- *)
Inductive fkind := KUser | KHeartbeat | KWatcher.
Inductive fstatus := FRunning | FReturned (* fn returned, exit handler not yet run *) | FExited.
Record fn := mkfn {
  f_gen : nat; f_kind : fkind;
  f_acc : bool;        (* Start took the accounted branch (routines++) *)
  f_st : fstatus;
  f_init : bool }.     (* watcher only: the first readPartitions has been done *)
Record gen := mkgen {
  g_mid : nat;         (* MemberID of the generation *)
  g_closed : bool; g_done : bool; g_routines : Z; g_joined : bool;
  g_pub : bool }.      (* handed to a Next caller *)

(* ---- control points of the run goroutine ---- *)
Inductive why := WClosed (* gen.close() on a <-cg.done branch *) | WEnded (* on the <-gen.done branch *).
Inductive after :=
| LvExit                      (* ErrGroupClosed: leave, return *)
| LvExitOffer (e : errclass)  (* <-cg.done while offering error e on cg.errs: leave, return *)
| LvReport (e : errclass).    (* default: leave, clear id, report, back off *)
Inductive pcs :=
| PConnect | PJoin | PSync | PFetch           (* nextGeneration up to the offset fetch *)
| PStartHB | PStartWatch (n : nat)            (* gen.heartbeatLoop / gen.partitionWatcher × n *)
| PPublish                                    (* select { <-cg.done | cg.next <- &gen } *)
| PWait                                       (* select { <-cg.done | <-gen.done } *)
| PCloseLock (w : why) | PCloseWait (w : why) (* gen.close(): critical section, then <-joined *)
| PLeaveConn (a : after) | PLeaveReq (a : after) (* leaveGroup: coordinator(), LeaveGroup request *)
| POffer (e : errclass) (backoff : bool)      (* select { <-cg.done | cg.errs <- err } *)
| PBackoff                                    (* select { <-cg.done | <-backoff } *)
| PExited.

Inductive exitkind := XClosed (* after the leave of the ErrGroupClosed branch *) | XOffer (e : errclass) | XBackoff.

(* ---- ghost history (newest first) ---- *)
Inductive event :=
| HCoordReq | HJoinReq (m : option nat) | HSyncReq (m : nat) | HFetchReq
| HFail (e : errclass)                 (* nextGeneration returned this error to run *)
| HGenNew (k m : nat)
| HStart (k f : nat) (acc : bool)
| HFnRet (k f : nat)
| HDone (k : nat)                      (* close(gen.done): every context of generation k is cancelled *)
| HJoined (k : nat)
| HHeartbeat (k f m : nat)
| HNextCall (n : nat) | HNextRet (n k : nat) | HNextErr (n : nat) (e : errclass) | HNextClosed (n : nat) | HNextCtx (n : nat)
| HCloseCall (c : nat) | HCloseRet (c : nat)
| HLeaveReq (m : nat) | HLeaveUnreach (m : nat)
| HBackoff
| HRunExit (x : exitkind) (m : option nat).

Record state := mkst {
  gens : list gen; fns : list fn;
  pc : pcs; mid : option nat; cg_done : bool;
  nexts : list nat;      (* Next callers blocked in the select *)
  closers : list nat;    (* Close callers blocked in wg.Wait *)
  nwatch : nat;          (* config: number of partition watchers (0 unless WatchPartitionChanges) *)
  panicked : bool;       (* close of a closed channel *)
  hist : list event }.

Inductive label :=
(* run goroutine *)
| LCoord (a : answer)                 (* cg.coordinator(): connect, FindCoordinator, connect *)
| LJoin (a : join_answer) | LSync (a : answer) (asg : assignment) | LFetch (a : answer)
| LStartHB | LStartWatch
| LPublishAbort | LWaitClosed | LWaitGenDone
| LGenCloseLock | LGenCloseJoined
| LLeaveCoord (a : answer) | LLeaveReq (a : answer)
| LOfferAbort | LBackoffAbort | LBackoffFire
(* callers *)
| LNextCall (n : nat) | LNextGen (n : nat) | LNextErr (n : nat) | LNextClosed (n : nat) | LNextCtx (n : nat)
| LCloseCall (c : nat) | LCloseRet (c : nat)
| LStart (k : nat)
(* started functions *)
| LFnReturn (f : nat)                 (* a user function returns (whenever it likes) *)
| LFnSeeDone (f : nat)                (* heartbeat / watcher takes the <-ctx.Done() branch *)
| LHbTick (f : nat) (a : answer)
| LWatchInit (f : nat) (a : answer) | LWatchTick (f : nat) (r : wres)
| LFnHandler (f : nat).               (* the exit handler's critical section *)

(* ---- the coordinator connection layer under the [coordinator] interface (makeConnect,
   timeoutCoordinator): before each call the connection's deadline is armed, so an unanswered
   request fails after Timeout — except JoinGroup (the coordinator may hold it for the rebalance
   timeout) and SyncGroup (the leader is given the session timeout) ---- *)
Inductive ccall := CFindCoordinator | CJoinGroup | CSyncGroup | CLeaveGroup | CHeartbeat
                 | COffsetFetch | COffsetCommit | CReadPartitions.
Inductive dclass := DTimeout | DTimeoutRebalance | DTimeoutSession.
Definition deadline_of_call (c : ccall) : dclass :=
  match c with
  | CJoinGroup => DTimeoutRebalance
  | CSyncGroup => DTimeoutSession
  | _ => DTimeout
  end.
Definition deadline_ms (timeout rebalance session : nat) (c : ccall) : nat :=
  match deadline_of_call c with
  | DTimeout => timeout
  | DTimeoutRebalance => timeout + rebalance
  | DTimeoutSession => timeout + session
  end.
(* makeConnect: the bootstrap brokers are dialled in order; the first reachable one is used *)
Fixpoint connect (up : list bool) : option nat :=
  match up with
  | [] => None
  | true :: _ => Some O
  | false :: t => option_map S (connect t)
  end.
Definition dial_attempts (up : list bool) : nat :=
  match connect up with Some i => S i | None => length up end.

(* ---- small helpers ---- *)
Fixpoint upd {A} (i : nat) (x : A) (l : list A) : list A :=
  match l, i with
  | [], _ => []
  | _ :: t, O => x :: t
  | h :: t, S j => h :: upd j x t
  end.
Definition mem (n : nat) (l : list nat) : bool := existsb (Nat.eqb n) l.
Definition del (n : nat) (l : list nat) : list nat := filter (fun x => negb (Nat.eqb n x)) l.

Definition set_gens v s := mkst v (fns s) (pc s) (mid s) (cg_done s) (nexts s) (closers s) (nwatch s) (panicked s) (hist s).
Definition set_fns v s := mkst (gens s) v (pc s) (mid s) (cg_done s) (nexts s) (closers s) (nwatch s) (panicked s) (hist s).
Definition set_pc v s := mkst (gens s) (fns s) v (mid s) (cg_done s) (nexts s) (closers s) (nwatch s) (panicked s) (hist s).
Definition set_mid v s := mkst (gens s) (fns s) (pc s) v (cg_done s) (nexts s) (closers s) (nwatch s) (panicked s) (hist s).
Definition set_cgdone v s := mkst (gens s) (fns s) (pc s) (mid s) v (nexts s) (closers s) (nwatch s) (panicked s) (hist s).
Definition set_nexts v s := mkst (gens s) (fns s) (pc s) (mid s) (cg_done s) v (closers s) (nwatch s) (panicked s) (hist s).
Definition set_closers v s := mkst (gens s) (fns s) (pc s) (mid s) (cg_done s) (nexts s) v (nwatch s) (panicked s) (hist s).
Definition set_panic s := mkst (gens s) (fns s) (pc s) (mid s) (cg_done s) (nexts s) (closers s) (nwatch s) true (hist s).
Definition ev (e : event) s := mkst (gens s) (fns s) (pc s) (mid s) (cg_done s) (nexts s) (closers s) (nwatch s) (panicked s) (e :: hist s).

Definition cur (s : state) : nat := pred (length (gens s)).

Definition init (w : nat) : state :=
  mkst [] [] PConnect None false [] [] w false [].

(* ---- Generation.Start: one critical section ---- *)
Definition g_inc (g : gen) := mkgen (g_mid g) (g_closed g) (g_done g) (g_routines g + 1) (g_joined g) (g_pub g).
Definition do_start (k : nat) (kd : fkind) (s : state) : option state :=
  match nth_error (gens s) k with
  | None => None
  | Some g =>
    let f := length (fns s) in
    if g_closed g then        (* late: go fn(genCtx{g}); no accounting *)
      Some (ev (HStart k f false) (set_fns (fns s ++ [mkfn k kd false FRunning false]) s))
    else
      Some (ev (HStart k f true)
              (set_fns (fns s ++ [mkfn k kd true FRunning false]) (set_gens (upd k (g_inc g) (gens s)) s)))
  end.

(* ---- a started function returns ---- *)
Definition f_set_st (st : fstatus) (f : fn) := mkfn (f_gen f) (f_kind f) (f_acc f) st (f_init f).
Definition f_set_init (f : fn) := mkfn (f_gen f) (f_kind f) (f_acc f) (f_st f) true.
Definition fn_return (i : nat) (f : fn) (s : state) : state :=
  ev (HFnRet (f_gen f) i)
     (set_fns (upd i (f_set_st (if f_acc f then FReturned else FExited) f) (fns s)) s).

(* ---- close(g.done) guarded by g.closed, as in both Start's handler and close() ---- *)
Definition end_gen (k : nat) (g : gen) (s : state) : gen * state :=
  if g_closed g then (g, s)
  else (mkgen (g_mid g) true true (g_routines g) (g_joined g) (g_pub g),
        ev (HDone k) (if g_done g then set_panic s else s)).

(* ---- the exit handler of an accounted function ---- *)
Definition handler (i : nat) (f : fn) (s : state) : option state :=
  match nth_error (gens s) (f_gen f) with
  | None => None
  | Some g =>
    let '(g1, s1) := end_gen (f_gen f) g s in
    let r := (g_routines g1 - 1)%Z in
    let '(g2, s2) :=
      if (r =? 0)%Z
      then (mkgen (g_mid g1) (g_closed g1) (g_done g1) r true (g_pub g1),
            ev (HJoined (f_gen f)) (if g_joined g1 then set_panic s1 else s1))
      else (mkgen (g_mid g1) (g_closed g1) (g_done g1) r (g_joined g1) (g_pub g1), s1) in
    Some (set_fns (upd i (f_set_st FExited f) (fns s2)) (set_gens (upd (f_gen f) g2 (gens s2)) s2))
  end.

(* ---- run: what happens after nextGeneration returned ---- *)
Definition exit_run (x : exitkind) (s : state) : state := set_pc PExited (ev (HRunExit x (mid s)) s).
Definition finish_leave (a : after) (s : state) : state :=
  match a with
  | LvExit => exit_run XClosed s
  | LvExitOffer e => exit_run (XOffer e) s
  | LvReport e => set_pc (POffer e true) (set_mid None s)
  end.
Definition enter_leave (a : after) (s : state) : state :=   (* cg.leaveGroup(memberID) *)
  match mid s with
  | None => finish_leave a s                                (* "" : nothing to leave *)
  | Some _ => set_pc (PLeaveConn a) s
  end.
Definition fail_ng (e : errclass) (s : state) : state :=    (* nextGeneration returned (mid s, e) *)
  let s := ev (HFail e) s in
  match e with
  | ERebalance => set_pc (POffer e false) s                 (* keep the id, no leave, no back-off *)
  | _ => enter_leave (LvReport e) s
  end.
Definition after_close (w : why) (s : state) : state :=
  match w with
  | WClosed => enter_leave LvExit s                         (* ErrGroupClosed *)
  | WEnded => set_pc PConnect s                             (* nil: continue *)
  end.
Definition after_start (n : nat) : pcs := match n with O => PPublish | S _ => PStartWatch n end.

Definition new_gen (m : nat) : gen := mkgen m false false 0 false false.
Definition g_set_pub (g : gen) := mkgen (g_mid g) (g_closed g) (g_done g) (g_routines g) (g_joined g) true.

Definition is_hb (f : fn) := match f_kind f with KHeartbeat => true | _ => false end.
Definition is_watch (f : fn) := match f_kind f with KWatcher => true | _ => false end.
Definition is_user (f : fn) := match f_kind f with KUser => true | _ => false end.
Definition running (f : fn) := match f_st f with FRunning => true | _ => false end.
Definition gen_done (s : state) (k : nat) : bool :=
  match nth_error (gens s) k with Some g => g_done g | None => false end.

Definition step (s : state) (l : label) : option state :=
  if panicked s then None else
  match l with
  | LCoord a =>
    match pc s with
    | PConnect => let s := ev HCoordReq s in
                  Some (match a with AOk => set_pc PJoin s | AErr e => fail_ng e s end)
    | _ => None end
  | LJoin ja =>
    match pc s with
    | PJoin =>
      let s := ev (HJoinReq (mid s)) s in
      Some (match ja with
            | JErr e => fail_ng e s                         (* joinGroup returns the id it was given *)
            | JOk m (LeaderFail e) => fail_ng e (set_mid (Some m) s)
            | JOk m _ => set_pc PSync (set_mid (Some m) s)
            end)
    | _ => None end
  | LSync a _ =>
    match pc s, mid s with
    | PSync, Some m => let s := ev (HSyncReq m) s in
                       Some (match a with AOk => set_pc PFetch s | AErr e => fail_ng e s end)
    | _, _ => None end
  | LFetch a =>
    match pc s, mid s with
    | PFetch, Some m =>
      let s := ev HFetchReq s in
      Some (match a with
            | AOk => set_pc PStartHB (ev (HGenNew (length (gens s)) m) (set_gens (gens s ++ [new_gen m]) s))
            | AErr e => fail_ng e s end)
    | _, _ => None end
  | LStartHB =>
    match pc s with
    | PStartHB => option_map (set_pc (after_start (nwatch s))) (do_start (cur s) KHeartbeat s)
    | _ => None end
  | LStartWatch =>
    match pc s with
    | PStartWatch (S n) => option_map (set_pc (after_start n)) (do_start (cur s) KWatcher s)
    | _ => None end
  | LPublishAbort =>
    match pc s with
    | PPublish => if cg_done s then Some (set_pc (PCloseLock WClosed) s) else None
    | _ => None end
  | LNextGen n =>
    match pc s, nth_error (gens s) (cur s) with
    | PPublish, Some g =>
      if mem n (nexts s)
      then Some (set_pc PWait (ev (HNextRet n (cur s))
                  (set_nexts (del n (nexts s)) (set_gens (upd (cur s) (g_set_pub g) (gens s)) s))))
      else None
    | _, _ => None end
  | LWaitClosed =>
    match pc s with
    | PWait => if cg_done s then Some (set_pc (PCloseLock WClosed) s) else None
    | _ => None end
  | LWaitGenDone =>
    match pc s with
    | PWait => if gen_done s (cur s) then Some (set_pc (PCloseLock WEnded) s) else None
    | _ => None end
  | LGenCloseLock =>
    match pc s, nth_error (gens s) (cur s) with
    | PCloseLock w, Some g =>
      let '(g1, s1) := end_gen (cur s) g s in
      let s2 := set_gens (upd (cur s) g1 (gens s1)) s1 in
      Some (if (0 <? g_routines g1)%Z then set_pc (PCloseWait w) s2 else after_close w s2)
    | _, _ => None end
  | LGenCloseJoined =>
    match pc s, nth_error (gens s) (cur s) with
    | PCloseWait w, Some g => if g_joined g then Some (after_close w s) else None
    | _, _ => None end
  | LLeaveCoord a =>
    match pc s, mid s with
    | PLeaveConn af, Some m =>
      Some (match a with
            | AOk => set_pc (PLeaveReq af) s
            | AErr _ => finish_leave af (ev (HLeaveUnreach m) s) end)
    | _, _ => None end
  | LLeaveReq _ =>
    match pc s, mid s with
    | PLeaveReq af, Some m => Some (finish_leave af (ev (HLeaveReq m) s))
    | _, _ => None end
  | LOfferAbort =>
    match pc s with
    | POffer e _ => if cg_done s then Some (enter_leave (LvExitOffer e) s) else None  (* leaveGroup(memberID); return *)
    | _ => None end
  | LNextErr n =>
    match pc s with
    | POffer e b =>
      if mem n (nexts s)
      then Some (set_pc (if b then PBackoff else PConnect) (ev (HNextErr n e) (set_nexts (del n (nexts s)) s)))
      else None
    | _ => None end
  | LBackoffAbort =>
    match pc s with
    | PBackoff => if cg_done s then Some (exit_run XBackoff s) else None
    | _ => None end
  | LBackoffFire =>
    match pc s with
    | PBackoff => Some (set_pc PConnect (ev HBackoff s))
    | _ => None end
  | LNextCall n =>
    if mem n (nexts s) then None else Some (ev (HNextCall n) (set_nexts (n :: nexts s) s))
  | LNextClosed n =>
    if mem n (nexts s) && cg_done s then Some (ev (HNextClosed n) (set_nexts (del n (nexts s)) s)) else None
  | LNextCtx n =>
    if mem n (nexts s) then Some (ev (HNextCtx n) (set_nexts (del n (nexts s)) s)) else None
  | LCloseCall c =>
    if mem c (closers s) then None
    else Some (ev (HCloseCall c) (set_closers (c :: closers s) (set_cgdone true s)))
  | LCloseRet c =>
    match pc s with
    | PExited => if mem c (closers s) then Some (ev (HCloseRet c) (set_closers (del c (closers s)) s)) else None
    | _ => None end
  | LStart k =>
    match nth_error (gens s) k with
    | Some g => if g_pub g then do_start k KUser s else None
    | None => None end
  | LFnReturn i =>
    match nth_error (fns s) i with
    | Some f => if is_user f && running f then Some (fn_return i f s) else None
    | None => None end
  | LFnSeeDone i =>
    match nth_error (fns s) i with
    | Some f =>
      if running f && gen_done s (f_gen f) && (is_hb f || (is_watch f && f_init f))
      then Some (fn_return i f s) else None
    | None => None end
  | LHbTick i a =>
    match nth_error (fns s) i with
    | Some f =>
      if running f && is_hb f then
        match nth_error (gens s) (f_gen f) with
        | Some g =>
          let s := ev (HHeartbeat (f_gen f) i (g_mid g)) s in
          Some (match a with AOk => s | AErr _ => fn_return i f s end)
        | None => None end
      else None
    | None => None end
  | LWatchInit i a =>
    match nth_error (fns s) i with
    | Some f =>
      if running f && is_watch f && negb (f_init f) then
        Some (match a with
              | AOk => set_fns (upd i (f_set_init f) (fns s)) s
              | AErr _ => fn_return i f s end)
      else None
    | None => None end
  | LWatchTick i r =>
    match nth_error (fns s) i with
    | Some f =>
      if running f && is_watch f && f_init f then
        Some (match r with
              | WSame | WKafkaErr => s
              | WChanged | WDropped => fn_return i f s end)
      else None
    | None => None end
  | LFnHandler i =>
    match nth_error (fns s) i with
    | Some f => match f_st f with
                | FReturned => if f_acc f then handler i f s else None
                | _ => None end
    | None => None end
  end.

Fixpoint run (s : state) (ls : list label) : option state :=
  match ls with
  | [] => Some s
  | l :: t => match step s l with Some s' => run s' t | None => None end
  end.

(* ================= past-time monitors over the history (newest first) =================
   Each [mon_x (e :: h)] = [chk_x e h && mon_x h]: the newest event is judged against
   its past.  The same definitions are extracted and run on the implementation's
   recorded timeline. *)
Definition ev_is_start_acc (k f : nat) (e : event) : bool :=
  match e with HStart k' f' true => Nat.eqb k k' && Nat.eqb f f' | _ => false end.
Definition ev_is_start (k f : nat) (e : event) : bool :=
  match e with HStart k' f' _ => Nat.eqb k k' && Nat.eqb f f' | _ => false end.
Definition ev_is_fnret (k f : nat) (e : event) : bool :=
  match e with HFnRet k' f' => Nat.eqb k k' && Nat.eqb f f' | _ => false end.
Definition ev_is_nextret_above (k : nat) (e : event) : bool :=
  match e with HNextRet _ j => Nat.ltb k j | _ => false end.
Definition ev_is_gennew_above (k : nat) (e : event) : bool :=
  match e with HGenNew j _ => Nat.ltb k j | _ => false end.
Definition ev_is_gennew (k m : nat) (e : event) : bool :=
  match e with HGenNew k' m' => Nat.eqb k k' && Nat.eqb m m' | _ => false end.
Definition ev_is_runexit (e : event) : bool := match e with HRunExit _ _ => true | _ => false end.

(* one live generation: a Next return of generation j comes after the return of every
   accounted function of every generation k < j; and no Start is accounted on k once
   a later generation has been returned by Next. *)
Definition chk_one_live (e : event) (h : list event) : bool :=
  match e with
  | HNextRet _ j =>
    forallb (fun e' => match e' with
                       | HStart k f true => if Nat.ltb k j then existsb (ev_is_fnret k f) h else true
                       | _ => true end) h
  | HStart k _ true => negb (existsb (ev_is_nextret_above k) h)
  | _ => true
  end.
Fixpoint mon_one_live (h : list event) : bool :=
  match h with [] => true | e :: t => chk_one_live e t && mon_one_live t end.

(* heartbeats: sent by the (accounted, not yet returned) heartbeat function of a created
   generation with that generation's member id, never after a later generation was
   created or after run exited. *)
Definition chk_heartbeat (e : event) (h : list event) : bool :=
  match e with
  | HHeartbeat k f m =>
    existsb (ev_is_start_acc k f) h && negb (existsb (ev_is_fnret k f) h)
    && existsb (ev_is_gennew k m) h && negb (existsb (ev_is_gennew_above k) h)
    && negb (existsb (ev_is_nextret_above k) h)
    && negb (existsb ev_is_runexit h)
  | _ => true
  end.
Fixpoint mon_heartbeat (h : list event) : bool :=
  match h with [] => true | e :: t => chk_heartbeat e t && mon_heartbeat t end.

(* re-join after back-off: scanning back from a coordinator/join request, a Backoff is met
   before any failure that is not RebalanceInProgress. *)
Fixpoint pending_fail (h : list event) : bool :=
  match h with
  | [] => false
  | HBackoff :: _ => false
  | HFail ERebalance :: t => pending_fail t
  | HFail _ :: _ => true
  | _ :: t => pending_fail t
  end.
Definition chk_backoff (e : event) (h : list event) : bool :=
  match e with
  | HJoinReq _ | HCoordReq => negb (pending_fail h)
  | _ => true
  end.
Fixpoint mon_backoff (h : list event) : bool :=
  match h with [] => true | e :: t => chk_backoff e t && mon_backoff t end.

(* leave on close *)
Definition ev_is_leave (m : nat) (e : event) : bool :=
  match e with HLeaveReq m' | HLeaveUnreach m' => Nat.eqb m m' | _ => false end.
Definition ev_is_leavereq (m : nat) (e : event) : bool :=
  match e with HLeaveReq m' => Nat.eqb m m' | _ => false end.
Definition ev_is_exit_holding (e : event) : option (exitkind * nat) :=
  match e with HRunExit x (Some m) => Some (x, m) | _ => None end.
(* full: whenever run exits holding m, a LeaveGroup for m was attempted (sent, or the
   coordinator could not be reached for it) *)
(* scanning back from the exit: a leave attempt for m is met before any JoinGroup request
   (so it is a leave of the CURRENT membership, not of an earlier one with the same id) *)
Fixpoint left_since_join (m : nat) (h : list event) : bool :=
  match h with
  | [] => false
  | e :: t =>
    if ev_is_leave m e then true
    else match e with HJoinReq _ => false | _ => left_since_join m t end
  end.
Definition chk_leave_full (e : event) (h : list event) : bool :=
  match e with
  | HRunExit _ (Some m) => left_since_join m h
  | HCloseRet _ => existsb ev_is_runexit h
  | _ => true
  end.
Fixpoint mon_leave_full (h : list event) : bool :=
  match h with [] => true | e :: t => chk_leave_full e t && mon_leave_full t end.
(* cancel on end: a generation's done is closed (HDone) no later than the first return
   ... on the implementation's timeline the harness records HDone when it observes
   the closed channel, so the monitor asks: every HNextRet/HGenNew of a later
   generation and every accounted function's handler comes with HDone k in the past;
   in the model HDone is emitted in the very step (see Proofs). *)
Definition ev_is_done (k : nat) (e : event) : bool := match e with HDone k' => Nat.eqb k k' | _ => false end.
Definition chk_done (e : event) (h : list event) : bool :=
  match e with
  | HJoined k => existsb (ev_is_done k) h
  | HGenNew j _ => forallb (fun k => existsb (ev_is_done k) h) (seq 0 j)
  | HStart k _ false => existsb (ev_is_done k) h
  | HDone k => negb (existsb (ev_is_done k) h)
  | _ => true
  end.
Fixpoint mon_done (h : list event) : bool :=
  match h with [] => true | e :: t => chk_done e t && mon_done t end.

Definition C15_holds (h : list event) : bool :=
  mon_one_live h && mon_heartbeat h && mon_backoff h && mon_leave_full h && mon_done h.

(* ---- the former F5 scenario, kept as a regression: join ok as member 1, SyncGroup answers
   RebalanceInProgress, nobody calls Next, Close; run must now leave before it exits ---- *)
(* regression of the second fixed defect: generation 0 of member 1 ends on a heartbeat answer
   RebalanceInProgress, the re-join is lost (dropped connection): run must leave with id 1
   before it backs off (here Close arrives while the error is offered) *)
Definition joinerr_scenario : list label :=
  [LCoord AOk; LJoin (JOk 1 NotLeader); LSync AOk [(0, [0; 1])]; LFetch AOk; LStartHB; LNextCall 0; LNextGen 0;
   LHbTick 0 (AErr ERebalance); LFnHandler 0; LWaitGenDone; LGenCloseLock;
   LCoord AOk; LJoin (JErr EDropped); LLeaveCoord AOk; LLeaveReq AOk;
   LCloseCall 0; LOfferAbort; LCloseRet 0].
(* a stand-by member: SyncGroup hands it NO partition; it heartbeats all the same, a heartbeat
   answered RebalanceInProgress ends the generation, the member re-joins; Close during the second
   generation's set-up leaves the group *)
Definition standby_scenario : list label :=
  [LCoord AOk; LJoin (JOk 1 NotLeader); LSync AOk []; LFetch AOk; LStartHB; LNextCall 0; LNextGen 0;
   LHbTick 0 AOk; LHbTick 0 (AErr ERebalance); LFnHandler 0; LWaitGenDone; LGenCloseLock;
   LCoord AOk; LJoin (JOk 1 NotLeader); LCloseCall 0; LSync AOk []; LFetch AOk; LStartHB;
   LPublishAbort; LGenCloseLock; LFnSeeDone 1; LFnHandler 1; LGenCloseJoined;
   LLeaveCoord AOk; LLeaveReq AOk; LCloseRet 0].
Definition f5_scenario : list label :=
  [LCoord AOk; LJoin (JOk 1 NotLeader); LSync (AErr ERebalance) []; LCloseCall 0; LOfferAbort;
   LLeaveCoord AOk; LLeaveReq AOk; LCloseRet 0].
