(* Model/Sasl.v — the two connection set-up paths of kafka-go with SASL configured, as
   labelled transition systems over WIRE EVENTS (definitions only, no proofs).

   Dialer path     /repo/dialer.go  Dialer.connect, authenticateSASL;
                   /repo/conn.go    saslHandshake, saslAuthenticate, negotiateVersion, ApiVersions
   Transport path  /repo/transport.go connGroup.connect, authenticateSASL,
                   saslHandshakeRoundTrip, saslAuthenticateRoundTrip;
                   /repo/protocol/conn.go Conn.RoundTrip, protocol/saslauthenticate RawExchange

   One model instance is ONE connection.  The client is deterministic; the environment (the
   broker, and after hand-out the user of the connection) chooses the labels.  The SASL
   mechanism is an abstract state machine given as Section variables.  The state carries
   the trace of everything that happened on the connection, newest event first; [step]
   only ever conses onto it (a monotone trace).

   What is NOT modelled: TLS, dial errors, context expiry / deadlines, re-authentication,
   the bytes of requests other than the SASL payload, several connections of one Transport
   (each runs this same system). *)
From Coq Require Import List ZArith Bool.
Import ListNotations.
Open Scope Z_scope.

Definition bytes := list Z.

Inductive path := Dialer | Transport.
Inductive framing := Framed | Raw.

Definition K_Metadata : Z := 3.
Definition K_SaslHandshake : Z := 17.
Definition K_ApiVersions : Z := 18.
Definition K_SaslAuthenticate : Z := 36.

(* something the client writes: a Kafka request (size, header with api key and version,
   body), or the raw 4-byte-length-prefixed SASL bytes used after a v0 handshake *)
Inductive msg := MReq (key ver : Z) | MRaw.

(* the messages allowed before the verdict *)
Definition auth_msg (m : msg) : bool :=
  match m with
  | MRaw => true
  | MReq k _ => (k =? K_ApiVersions) || (k =? K_SaslHandshake) || (k =? K_SaslAuthenticate)
  end.

(* the messages carrying SASL payload *)
Definition authbytes_msg (m : msg) : bool :=
  match m with
  | MRaw => true
  | MReq k _ => k =? K_SaslAuthenticate
  end.

(* the address the connection was dialled with, by what dialer.go splitHostPortNumber makes of
   it (net.SplitHostPort, "9092" when there is no port, then strconv.Atoi of the port):
   only a port that is not a number — a service name — is an error; no range check. *)
Inductive addr_class :=
| AddrNumericPort      (* host:9092 *)
| AddrNoPort           (* host             -> port "9092" *)
| AddrServiceName      (* host:kafka-sasl  -> Atoi fails *)
| AddrIPv6             (* [::1]:9092 *)
| AddrPortZero         (* host:0 *)
| AddrPortHuge         (* host:65536 *)
| AddrEmpty.           (* ""               -> host "", port "9092" *)

Definition port_is_number (c : addr_class) : bool :=
  match c with AddrServiceName => false | _ => true end.

(* the static parameters of one connection: what the broker's ApiVersions response says about
   the two SASL APIs (None = api key not listed; only MaxVersion is looked at by either path)
   and the class of the address that was dialled *)
Record advert := { hs_max : option Z; auth_max : option Z; dial_addr : addr_class }.

(* conn.go:72 apiVersionMap.negotiate(key, v0, v1): x := v[key] is the zero ApiVersion when
   the key is missing; scan the client's versions from the highest *)
Definition dialer_negotiate01 (o : option Z) : Z :=
  let mx := match o with None => 0 | Some v => v end in
  if mx >=? 1 then 1 else if mx >=? 0 then 0 else -1.

(* protocol/protocol.go:35 ApiKey.SelectVersion with the client's range cmin..cmax; a key
   missing from the response leaves versions[key] at the map's zero value 0 *)
Definition select_version (cmin cmax bmax : Z) : Z :=
  if cmin >? bmax then cmin else if cmax <? bmax then cmax else bmax.
Definition transport_select01 (o : option Z) : Z :=
  match o with None => 0 | Some v => select_version 0 1 v end.

(* the SaslHandshake version each path will use (Dialer: -1 = "no matching versions") *)
Definition hs_version (p : path) (a : advert) : Z :=
  match p with
  | Dialer => dialer_negotiate01 (hs_max a)
  | Transport => transport_select01 (hs_max a)
  end.

(* the SaslAuthenticate request version when framed: conn.go:1619 always v0; the Transport
   uses the negotiated one (protocol/saslauthenticate is registered for v0..v1) *)
Definition auth_version (p : path) (a : advert) : Z :=
  match p with
  | Dialer => 0
  | Transport => transport_select01 (auth_max a)
  end.

(* conn.go:1613 [if version == v1] framed else raw;
   protocol/saslauthenticate Required: versions[SaslHandshake] == 0 -> raw *)
Definition framing_of (p : path) (v : Z) : framing :=
  match p with
  | Dialer => if v =? 1 then Framed else Raw
  | Transport => if v =? 0 then Raw else Framed
  end.

(* broker reactions to the request in flight *)
Inductive reaction :=
| ROk (payload : bytes)   (* well-formed response, error code 0 (raw: length-prefixed bytes) *)
| RErr (code : Z)         (* well-formed framed response with error code <> 0:
                             33 UnsupportedSASLMechanism, 58 SASLAuthenticationFailed, ... *)
| RMalformed              (* a response the client's decoder rejects: cut off mid-frame,
                             body shorter than its schema, wrong correlation id *)
| RNegLen                 (* raw exchange only: a negative length prefix (a malformed message) *)
| RClose.                 (* connection closed instead of a response *)

Inductive event :=
| ESend (m : msg)         (* written to the connection by the client *)
| ERecv (r : reaction)
| EVerdict                (* the final success response arrived and the mechanism completed *)
| EHandOut                (* Dial returned the Conn / conn.run started serving requests *)
| EClose                  (* the client closed the connection *)
| ERefused.               (* the dial was refused because of its address; error returned *)

Inductive label :=
| LStart                  (* the connection is established; the client starts talking *)
| LDialRefused            (* Dialer path: "could not determine host/port for SASL authentication" *)
| LBroker (r : reaction)
| LReturn                 (* authenticateSASL returned nil; connect returns the connection *)
| LUse (key ver : Z)      (* the owner of the handed-out connection sends a request *)
| LUserClose.

Section Machine.
  (* sasl.Mechanism / sasl.StateMachine:
       Start(ctx) (sess, ir, err)            -> mech_start  (None = err)
       Next(ctx, challenge) (done, resp, err) -> mech_next ms challenge = (done, ms', resp, ok) *)
  Variable mstate : Type.
  Variable mech_start : option (mstate * bytes).
  Variable mech_next : mstate -> bytes -> (bool * mstate * bytes * bool).

  Variable p : path.
  Variable a : advert.

  Inductive phase :=
  | PDialed                                   (* connected, nothing written *)
  | PApiSent                                  (* ApiVersions v0 in flight *)
  | PHsSent (v : Z)                           (* SaslHandshake at version v in flight *)
  | PAuth (f : framing) (i : nat) (ms : mstate) (out : bytes)
                                              (* step i of the exchange in flight, carrying out *)
  | PAccepted                                 (* the loop completed *)
  | PHandedOut
  | PFailed                                   (* error returned, connection closed *)
  | PRefused                                  (* Dialer: address refused, error returned, nothing
                                                 written; dialer.go:287 returns WITHOUT closing
                                                 the socket it has just opened *)
  | PUserClosed.

  Record state := mkState { ph : phase; tr : list event }.

  Definition init : state := mkState PDialed [].

  (* where each path calls splitHostPortNumber on the dial address *)
  Definition dialer_refuses : bool :=
    match p with Dialer => negb (port_is_number (dial_addr a)) | Transport => false end.
  Definition transport_refuses : bool :=
    match p with Transport => negb (port_is_number (dial_addr a)) | Dialer => false end.

  Definition fail (s : state) (r : reaction) : state :=
    mkState PFailed (EClose :: ERecv r :: tr s).

  Definition authbytes_of (f : framing) : msg :=
    match f with Raw => MRaw | Framed => MReq K_SaslAuthenticate (auth_version p a) end.

  (* dialer.go:332 / transport.go:1311: the challenge goes to sess.Next *)
  Definition on_challenge (s : state) (f : framing) (i : nat) (ms : mstate) (r : reaction)
             (challenge : bytes) : state :=
    match mech_next ms challenge with
    | (_, _, _, false) => fail s r
    | (true, _, _, true) => mkState PAccepted (EVerdict :: ERecv r :: tr s)
    | (false, ms', resp, true) =>
        mkState (PAuth f (S i) ms' resp) (ESend (authbytes_of f) :: ERecv r :: tr s)
    end.

  Definition step (s : state) (l : label) : option state :=
    match ph s, l with
    | PDialed, LStart =>
        (* both paths first write ApiVersions v0 (conn.go:1441 via negotiateVersion;
           transport.go:1195 before SetVersions); the Dialer has looked at the address before
           (dialer.go:286), the Transport looks at it after ApiVersions (transport.go:1215) *)
        if dialer_refuses then None
        else Some (mkState PApiSent (ESend (MReq K_ApiVersions 0) :: tr s))
    | PDialed, LDialRefused =>
        if dialer_refuses then Some (mkState PRefused (ERefused :: tr s)) else None
    | PApiSent, LBroker r =>
        match r with
        | ROk _ =>
            let v := hs_version p a in
            if (v <? 0) || transport_refuses
            then Some (fail s r)      (* Dialer: no matching versions; Transport: address refused *)
            else Some (mkState (PHsSent v) (ESend (MReq K_SaslHandshake v) :: ERecv r :: tr s))
        | RErr c => if c =? 0 then None else Some (fail s r)
        | RMalformed | RClose => Some (fail s r)
        | RNegLen => None
        end
    | PHsSent v, LBroker r =>
        match r with
        | ROk _ =>
            match mech_start with
            | None => Some (fail s r)
            | Some (ms, out) =>
                let f := framing_of p v in
                Some (mkState (PAuth f 0 ms out) (ESend (authbytes_of f) :: ERecv r :: tr s))
            end
        | RErr c => if c =? 0 then None else Some (fail s r)
        | RMalformed | RClose => Some (fail s r)
        | RNegLen => None
        end
    | PAuth f i ms _, LBroker r =>
        match r with
        | ROk payload => Some (on_challenge s f i ms r payload)
        | RErr c =>
            match f with
            | Framed => if c =? 0 then None else Some (fail s r)
            | Raw => None                        (* no error code on the raw exchange *)
            end
        | RMalformed | RClose => Some (fail s r)
        | RNegLen =>
            (* conn.go saslAuthenticate (raw branch) and protocol/saslauthenticate readResp
               both return an error when the length prefix is negative *)
            match f with
            | Framed => None
            | Raw => Some (fail s r)
            end
        end
    | PAccepted, LReturn => Some (mkState PHandedOut (EHandOut :: tr s))
    | PHandedOut, LUse k v =>
        (* re-authentication on a handed-out connection is not modelled *)
        if (k =? K_SaslHandshake) || (k =? K_SaslAuthenticate) then None
        else Some (mkState PHandedOut (ESend (MReq k v) :: tr s))
    | PHandedOut, LUserClose => Some (mkState PUserClosed (EClose :: tr s))
    | _, _ => None
    end.

  Inductive reachable : state -> Prop :=
  | reach_init : reachable init
  | reach_step : forall s l s', reachable s -> step s l = Some s' -> reachable s'.

  (* the trace in chronological order *)
  Definition trace (s : state) : list event := rev (tr s).

  (* a reaction that is a failing step in state s *)
  Definition failing (s : state) (r : reaction) : Prop :=
    match r with
    | RErr c => c <> 0
    | RMalformed | RNegLen | RClose => True
    | ROk payload =>
        match ph s with
        | PApiSent => hs_version p a < 0 \/ transport_refuses = true
        | PHsSent _ => mech_start = None
        | PAuth _ _ ms _ => snd (mech_next ms payload) = false
        | _ => False
        end
    end.

  Definition handed_out (s : state) : bool :=
    match ph s with PHandedOut | PUserClosed => true | _ => false end.
  Definition accepted_or_out (s : state) : bool :=
    match ph s with PAccepted | PHandedOut | PUserClosed => true | _ => false end.

  (* ---------------------------------------------------------------- *)
  (* an honest server for the mechanism, and the run of a path against it *)
  Variable sstate : Type.
  Inductive sreply := SReject | SCont (ss : sstate) (payload : bytes) | SFinal (payload : bytes).
  Variable srv_init : sstate.
  Variable srv_next : sstate -> bytes -> sreply.

  (* a finished server rejects anything more *)
  Definition srv_reply (ss : option sstate) (out : bytes) : option (option sstate * bytes) :=
    match ss with
    | None => None
    | Some ss0 =>
        match srv_next ss0 out with
        | SReject => None
        | SCont ss' pl => Some (Some ss', pl)
        | SFinal pl => Some (None, pl)
        end
    end.

  (* how a Kafka broker reports the rejection: error code 58 in a SaslAuthenticate
     response, or, on the raw exchange, by closing the connection *)
  Definition reject_reaction (f : framing) : reaction :=
    match f with Framed => RErr 58 | Raw => RClose end.

  (* the mechanism oracle: client machine against server machine, no wire in between *)
  Fixpoint corun (fuel : nat) (ms : mstate) (ss : option sstate) (out : bytes) {struct fuel} : bool :=
    match fuel with
    | O => false
    | S n =>
        match srv_reply ss out with
        | None => false
        | Some (ss', pl) =>
            match mech_next ms pl with
            | (_, _, _, false) => false
            | (true, _, _, true) => true
            | (false, ms', resp, true) => corun n ms' ss' resp
            end
        end
    end.

  (* [fault = Some (k, r)]: the k-th broker reaction (0 ApiVersions, 1 SaslHandshake,
     2+i step i of the exchange) is replaced by r; None = honest all along.
     The result is the state reached and the number of broker reactions consumed. *)
  Definition pick (fault : option (nat * reaction)) (k : nat) (honest : reaction) : reaction :=
    match fault with
    | Some (k', r) => if Nat.eqb k k' then r else honest
    | None => honest
    end.

  Fixpoint drive (fuel : nat) (fault : option (nat * reaction)) (k : nat)
           (s : state) (ss : option sstate) {struct fuel} : state :=
    match fuel with
    | O => s
    | S n =>
        match ph s with
        | PDialed =>
            match step s LStart with
            | Some s' => drive n fault k s' ss
            | None => match step s LDialRefused with Some s' => s' | None => s end
            end
        | PApiSent | PHsSent _ =>
            match step s (LBroker (pick fault k (ROk []))) with
            | Some s' => drive n fault (S k) s' ss
            | None => s
            end
        | PAuth f _ _ out =>
            let '(ss', honest) :=
              match srv_reply ss out with
              | None => (None, reject_reaction f)
              | Some (ss', pl) => (ss', ROk pl)
              end in
            match step s (LBroker (pick fault k honest)) with
            | Some s' => drive n fault (S k) s' ss'
            | None => s
            end
        | PAccepted =>
            match step s LReturn with Some s' => drive n fault k s' ss | None => s end
        | _ => s
        end
    end.

  (* the owner's first use of a handed-out connection, then close *)
  Definition first_use (s : state) (key ver : Z) : state :=
    match step s (LUse key ver) with
    | None => s
    | Some s1 => match step s1 LUserClose with None => s1 | Some s2 => s2 end
    end.
End Machine.

Arguments mkState {mstate}.
Arguments ph {mstate}.
Arguments tr {mstate}.
Arguments PDialed {mstate}.
Arguments PApiSent {mstate}.
Arguments PHsSent {mstate}.
Arguments PAuth {mstate}.
Arguments PAccepted {mstate}.
Arguments PHandedOut {mstate}.
Arguments PFailed {mstate}.
Arguments PRefused {mstate}.
Arguments PUserClosed {mstate}.
Arguments init {mstate}.
Arguments trace {mstate}.
Arguments handed_out {mstate}.
Arguments accepted_or_out {mstate}.
Arguments SReject {sstate}.
Arguments SCont {sstate}.
Arguments SFinal {sstate}.

(* ------------------------------------------------------------------ *)
(* The shapes of the mechanisms of /repo/sasl and of their reference servers, over token
   payloads (the cryptography is an oracle: a payload is the token of the message a party
   would compute).  Used for the non-vacuity examples and by the correspondence driver. *)
Inductive mech_kind := MPlain | MScram.
Inductive cred := CredRight | CredWrongPassword | CredUnknownUser.

Definition T_client_first : Z := 1.
Definition T_client_final : Z := 2.
Definition T_server_first : Z := 11.
Definition T_server_final : Z := 12.
Definition T_junk : Z := 99.

(* sasl/plain: Start returns "\0user\0pass"; Next returns (true, nil, nil) whatever the
   challenge.  sasl/scram (xdg-go/scram ClientConversation): client-first; on a valid
   server-first the client-final; on a valid server-final (signature) done; any other
   challenge, or a step after done, is an error. *)
Definition shape_start (k : mech_kind) : option (nat * bytes) :=
  match k with
  | MPlain => Some (O, [T_client_first])
  | MScram => Some (O, [T_client_first])
  end.

Definition shape_next (k : mech_kind) (st : nat) (challenge : bytes) : bool * nat * bytes * bool :=
  match k with
  | MPlain => (true, st, [], true)
  | MScram =>
      match st, challenge with
      | O, [t] => if t =? T_server_first then (false, 1%nat, [T_client_final], true)
                  else (false, st, [], false)
      | S O, [t] => if t =? T_server_final then (true, 2%nat, [], true)
                    else (false, st, [], false)
      | _, _ => (false, st, [], false)
      end
  end.

(* reference servers: PLAIN (RFC 4616) accepts the one message iff the credentials are
   right; SCRAM (RFC 5802) answers client-first of a known user with server-first and a
   client-final carrying a valid proof with server-final *)
Definition shape_srv (k : mech_kind) (c : cred) (st : nat) (m : bytes) : @sreply nat :=
  match k with
  | MPlain =>
      match st, m, c with
      | O, [_], CredRight => SFinal []
      | _, _, _ => SReject
      end
  | MScram =>
      match st, m with
      | O, [t] =>
          if t =? T_client_first then
            match c with CredUnknownUser => SReject | _ => SCont 1%nat [T_server_first] end
          else SReject
      | S O, [t] =>
          if t =? T_client_final then
            match c with CredRight => SFinal [T_server_final] | _ => SReject end
          else SReject
      | _, _ => SReject
      end
  end.

(* one scripted run: path, advertisement, mechanism, credentials, optional fault; when the
   connection is handed out the owner sends Metadata v1 and closes *)
Definition run_case (p : path) (a : advert) (k : mech_kind) (c : cred)
           (fault : option (nat * reaction)) : state nat :=
  let s := drive nat (shape_start k) (shape_next k) p a nat (shape_srv k c) 16 fault 0 init (Some O) in
  if handed_out s then first_use nat (shape_start k) (shape_next k) p a s K_Metadata 1 else s.

(* ------------------------------------------------------------------ *)
(* The read of ONE raw (handshake v0) authentication response, with an allocation counter
   in the manner of Model/Schema.v's d_alloc: what the client allocates for the response
   body, in bytes.  The input is what the broker puts on the wire after the client's raw
   bytes: the 4-byte big-endian length prefix (already decoded: [announced], an int32) and
   the payload bytes that actually arrive ([avail]), after which the connection is closed
   or stays silent until the connection's read deadline expires. *)
Inductive ending := EndClose | EndSilence.

Inductive rr_outcome :=
| RROk (payload : bytes)
| RREof              (* io.EOF: no payload byte arrived *)
| RRUnexpectedEof    (* io.ErrUnexpectedEOF: fewer bytes than announced arrived *)
| RRProtocol         (* negative length: "invalid SASL authentication response length" *)
| RRTimeout.         (* the read deadline expired *)

Record rr_result := mkRR { rr_out : rr_outcome; rr_received : N; rr_alloc : N }.

(* io.ReadAll: b := make([]byte, 0, 512); every Read appends into b[len:cap]; whenever
   len(b) == cap(b) after a Read the slice is grown by append(b, 0)[:len(b)].  A Read never
   goes past cap, so len passes through cap exactly; the allocations therefore depend only
   on the number of bytes read.  [grow cap] is the capacity append chooses (runtime.growslice:
   at least 1.25 x, at most 2 x for cap >= 256, rounded up to a size class).
   Returns (final capacity, bytes allocated in total). *)
Fixpoint readall (grow : N -> N) (l : bytes) (len cap total : N) {struct l} : N * N :=
  match l with
  | [] => (cap, total)
  | _ :: t =>
      let len' := (len + 1)%N in
      if (len' =? cap)%N
      then let c' := grow cap in readall grow t len' c' (total + c')%N
      else readall grow t len' cap total
  end.

(* runtime.growslice for byte slices of cap >= 256, before the size-class rounding *)
Definition go_grow (c : N) : N := (c + (c + 768) / 4)%N.

(* protocol/saslauthenticate readResp (Transport path, after commit d96111f):
     respLen < 0 -> protocol.Errorf(...)
     data, err := io.ReadAll(io.LimitReader(read, int64(respLen)))
     len(data) < respLen -> io.EOF when len(data) == 0, else io.ErrUnexpectedEOF *)
Definition transport_raw_read (grow : N -> N) (announced : Z) (avail : bytes) (e : ending) : rr_result :=
  if announced <? 0 then mkRR RRProtocol 0 0
  else
    let complete := announced <=? Z.of_nat (length avail) in
    let got := if complete then firstn (Z.to_nat announced) avail else avail in
    let n := N.of_nat (length got) in
    let alloc := snd (readall grow got 0 512 512) in
    if complete then mkRR (RROk got) n alloc
    else match e with
         | EndClose => mkRR (if (n =? 0)%N then RREof else RRUnexpectedEof) n alloc
         | EndSilence => mkRR RRTimeout n alloc
         end.

(* conn.go saslAuthenticate, raw branch (Dialer path): readInt32; respLen < 0 -> error;
   readNewBytes(&c.rbuf, n, n): n <= 0 reads nothing, else b = make([]byte, n) — the
   ANNOUNCED length is allocated — and io.ReadFull (io.EOF when nothing arrived). *)
Definition conn_raw_read (announced : Z) (avail : bytes) (e : ending) : rr_result :=
  if announced <? 0 then mkRR RRProtocol 0 0
  else if announced =? 0 then mkRR (RROk []) 0 0
  else
    let complete := announced <=? Z.of_nat (length avail) in
    let got := if complete then firstn (Z.to_nat announced) avail else avail in
    let n := N.of_nat (length got) in
    let alloc := Z.to_N announced in
    if complete then mkRR (RROk got) n alloc
    else match e with
         | EndClose => mkRR (if (n =? 0)%N then RREof else RRUnexpectedEof) n alloc
         | EndSilence => mkRR RRTimeout n alloc
         end.

Definition raw_read (p : path) (announced : Z) (avail : bytes) (e : ending) : rr_result :=
  match p with
  | Dialer => conn_raw_read announced avail e
  | Transport => transport_raw_read go_grow announced avail e
  end.

(* how the outcome of the read enters the transition system *)
Definition reaction_of_rr (o : rr_outcome) : reaction :=
  match o with
  | RROk payload => ROk payload
  | RREof => RClose
  | RRUnexpectedEof | RRTimeout => RMalformed
  | RRProtocol => RNegLen
  end.

Definition adv_v0 : advert := {| hs_max := Some 0; auth_max := None; dial_addr := AddrNumericPort |}.

(* a scripted run over a v0 handshake whose [step]-th reaction is the raw response
   (announced, avail, e) *)
Definition run_raw_case (p : path) (k : mech_kind) (c : cred) (step : nat)
           (announced : Z) (avail : bytes) (e : ending) : state nat * rr_result :=
  let r := raw_read p announced avail e in
  (run_case p adv_v0 k c (Some (step, reaction_of_rr (rr_out r))), r).

(* ------------------------------------------------------------------ *)
(* A framed response as the broker encodes it: ApiVersions and SaslHandshake carry an error
   code; SaslAuthenticate also a nullable error_message ([None] = null, [Some []] = the
   empty string) and the SASL payload.  Every place that reads one — conn.go ApiVersions
   [errorCode != 0], saslHandshake [resp.ErrorCode != 0], saslAuthenticate
   [response.ErrorCode != 0]; transport.go [res.ErrorCode != 0] three times — decides on the
   error CODE alone; the message only decorates the error. *)
Record response := mkResp { error_code : Z; error_message : option bytes; resp_payload : bytes }.

Definition refused (r : response) : bool := negb (error_code r =? 0).

Definition reaction_of_response (r : response) : reaction :=
  if refused r then RErr (error_code r) else ROk (resp_payload r).

(* the scripted fault "the [step]-th response carries this code and message": a refusal
   replaces the honest reaction, a response with code 0 leaves it alone *)
Definition fault_of_response (step : nat) (r : response) : option (nat * reaction) :=
  if refused r then Some (step, RErr (error_code r)) else None.

(* ------------------------------------------------------------------ *)
(* n connections set up concurrently with ONE sasl.Mechanism value (a Dialer used from
   several goroutines, a Transport connecting to several brokers).  Mechanism.Start returns
   a fresh StateMachine for every call — in the model: [mech_start] is a value and each
   connection keeps its own copy of the machine state inside its phase — so the joint
   system is just the interleaving of n single systems: a step of connection i is a [step]
   of its component. *)
Section Multi.
  Variable mstate : Type.
  Variable mech_start : option (mstate * bytes).
  Variable mech_next : mstate -> bytes -> (bool * mstate * bytes * bool).
  Variable p : path.
  Variable a : advert.

  Fixpoint update {A} (l : list A) (i : nat) (x : A) {struct l} : list A :=
    match l, i with
    | [], _ => []
    | _ :: t, O => x :: t
    | h :: t, S j => h :: update t j x
    end.

  Definition mstep (ss : list (state mstate)) (i : nat) (l : label) : option (list (state mstate)) :=
    match nth_error ss i with
    | None => None
    | Some s =>
        match step mstate mech_start mech_next p a s l with
        | None => None
        | Some s' => Some (update ss i s')
        end
    end.

  Inductive mreachable (n : nat) : list (state mstate) -> Prop :=
  | mreach_init : mreachable n (repeat init n)
  | mreach_step : forall ss i l ss', mreachable n ss -> mstep ss i l = Some ss' -> mreachable n ss'.
End Multi.
