(* Model/CodecPool.v — the acquire / Reset / use / Close -> release discipline shared by
   /repo/compress/{snappy,lz4,gzip,zstd}: NewReader / NewWriter take an object from a
   sync.Pool (or build one), the returned wrapper holds it, Close clears the wrapper's
   pointer, (finishes the stream,) Resets the object and Puts it back.  Definitions only.

   Objects are numbered; the pool is a set of numbers ([sync.Pool.Get] may return any
   pooled object or nothing at all — the action carries the environment's choice).
   A codec side is described by three flags:
     pk_reset_fails : Reset on a pooled object can fail, after which the object is Put
                      back and an error wrapper without object is returned (gzip reader:
                      Reset reads the gzip header)
     pk_new_fails   : construction can fail -> error wrapper (gzip, zstd)
     pk_finish      : Close finishes the stream on the object before Reset (all writers;
                      gzip reader's z.Close()) *)
From Coq Require Import List Arith Bool.
Import ListNotations.

Definition oid := nat.

Record pkind := { pk_reset_fails : bool; pk_new_fails : bool; pk_finish : bool }.

Definition kind_snappy_reader := {| pk_reset_fails := false; pk_new_fails := false; pk_finish := false |}.
Definition kind_snappy_writer := {| pk_reset_fails := false; pk_new_fails := false; pk_finish := true |}.
Definition kind_lz4_reader := kind_snappy_reader.
Definition kind_lz4_writer := kind_snappy_writer.
Definition kind_gzip_reader := {| pk_reset_fails := true; pk_new_fails := true; pk_finish := true |}.
Definition kind_gzip_writer := {| pk_reset_fails := false; pk_new_fails := true; pk_finish := true |}.
Definition kind_zstd_reader := {| pk_reset_fails := false; pk_new_fails := true; pk_finish := false |}.
Definition kind_zstd_writer := {| pk_reset_fails := false; pk_new_fails := true; pk_finish := true |}.

Inductive pev :=
| EvGet (o : oid)        (* pool.Get() returned o *)
| EvMiss                 (* pool.Get() returned nil *)
| EvNew (o : oid)        (* a new object was built *)
| EvNewFail
| EvReset (o : oid)
| EvResetFail (o : oid)
| EvUse (o : oid)        (* Read / Write reaches the object *)
| EvFinish (o : oid)     (* Flush / Close of the underlying stream object *)
| EvPut (o : oid)
| EvNoObject.            (* Read / Write / Close on a wrapper that holds nothing *)

Record pstate := {
  p_inpool : oid -> bool;
  p_next : oid;                     (* objects >= p_next do not exist yet *)
  p_wrapper : nat -> option oid;    (* what each wrapper points to *)
  p_nwrappers : nat
}.

Definition p_init : pstate :=
  {| p_inpool := fun _ => false; p_next := 0; p_wrapper := fun _ => None; p_nwrappers := 0 |}.

Definition upd {A} (f : nat -> A) (i : nat) (v : A) : nat -> A :=
  fun j => if Nat.eqb j i then v else f j.

Inductive pact :=
| ANew (pick : oid) (fail : bool)   (* NewReader/NewWriter; Get returns [pick] if pooled, else nil *)
| AUse (w : nat)
| AClose (w : nat).

Definition p_step (k : pkind) (s : pstate) (a : pact) : pstate * list pev :=
  match a with
  | ANew pick fail =>
    let w := p_nwrappers s in
    if p_inpool s pick then
      let pool' := upd (p_inpool s) pick false in
      if fail && pk_reset_fails k then
        (* err = z.Reset(r); readerPool.Put(z); return &errorReader{err} *)
        ({| p_inpool := upd pool' pick true; p_next := p_next s;
            p_wrapper := upd (p_wrapper s) w None; p_nwrappers := S w |},
         [EvGet pick; EvResetFail pick; EvPut pick])
      else
        ({| p_inpool := pool'; p_next := p_next s;
            p_wrapper := upd (p_wrapper s) w (Some pick); p_nwrappers := S w |},
         [EvGet pick; EvReset pick])
    else
      if fail && pk_new_fails k then
        ({| p_inpool := p_inpool s; p_next := p_next s;
            p_wrapper := upd (p_wrapper s) w None; p_nwrappers := S w |},
         [EvMiss; EvNewFail])
      else
        let o := p_next s in
        ({| p_inpool := p_inpool s; p_next := S o;
            p_wrapper := upd (p_wrapper s) w (Some o); p_nwrappers := S w |},
         [EvMiss; EvNew o])
  | AUse w =>
    match p_wrapper s w with
    | Some o => (s, [EvUse o])
    | None => (s, [EvNoObject])
    end
  | AClose w =>
    match p_wrapper s w with
    | Some o =>
      ({| p_inpool := upd (p_inpool s) o true; p_next := p_next s;
          p_wrapper := upd (p_wrapper s) w None; p_nwrappers := p_nwrappers s |},
       (if pk_finish k then [EvFinish o] else []) ++ [EvReset o; EvPut o])
    | None => (s, [])
    end
  end.

Fixpoint p_run (k : pkind) (s : pstate) (acts : list pact) {struct acts} : pstate * list pev :=
  match acts with
  | [] => (s, [])
  | a :: rest =>
    let '(s', ev) := p_step k s a in
    let '(s'', evs) := p_run k s' rest in
    (s'', ev ++ evs)
  end.

(* ---- the discipline, as a monitor over event traces ---- *)
Inductive ostatus := Unknown | Pooled | Acquired | Ready.

Definition ostatus_eqb (a b : ostatus) : bool :=
  match a, b with
  | Unknown, Unknown | Pooled, Pooled | Acquired, Acquired | Ready, Ready => true
  | _, _ => false
  end.

(* one event: new monitor state, or None = discipline violated *)
Definition mon_step (m : oid -> ostatus) (e : pev) : option (oid -> ostatus) :=
  match e with
  | EvGet o => if ostatus_eqb (m o) Pooled then Some (upd m o Acquired) else None
  | EvNew o => if ostatus_eqb (m o) Unknown then Some (upd m o Ready) else None
  | EvReset o =>
    match m o with Acquired | Ready => Some (upd m o Ready) | _ => None end
  | EvResetFail o =>
    match m o with Acquired | Ready => Some (upd m o Acquired) | _ => None end
  | EvUse o | EvFinish o => if ostatus_eqb (m o) Ready then Some m else None   (* Reset (or built) since acquired *)
  | EvPut o =>
    match m o with Acquired | Ready => Some (upd m o Pooled) | _ => None end   (* released at most once *)
  | EvMiss | EvNewFail | EvNoObject => Some m
  end.

Fixpoint mon_run (m : oid -> ostatus) (evs : list pev) {struct evs} : bool :=
  match evs with
  | [] => true
  | e :: rest => match mon_step m e with Some m' => mon_run m' rest | None => false end
  end.

Definition disciplined (evs : list pev) : bool := mon_run (fun _ => Unknown) evs.

(* for the correspondence driver: what the harness can observe after each action —
   the object held by the new wrapper (or none), whether a use reached an object *)
Inductive pobs := ObsNew (o : option oid) (hit : bool) | ObsUse (ok : bool) | ObsClose (released : bool).

Definition p_observe (k : pkind) (s : pstate) (a : pact) : pstate * pobs :=
  let '(s', _) := p_step k s a in
  (s', match a with
       | ANew pick _ => ObsNew (p_wrapper s' (p_nwrappers s)) (p_inpool s pick)
       | AUse w => ObsUse (match p_wrapper s w with Some _ => true | None => false end)
       | AClose w => ObsClose (match p_wrapper s w with Some _ => true | None => false end)
       end).
