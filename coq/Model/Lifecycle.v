(* Model/Lifecycle.v — atomic-step model of the kafka.Reader shell of /repo/reader.go with
   the consumer-group loop of /repo/consumergroup.go it drives and the context-aware waits of
   /repo/transport.go: Close, cancellation, use-after-close (property C09, Reader half).

   Definitions only.  One label = one atomic action of one goroutine (a critical section of
   r.mutex / Generation.lock, one channel operation or select branch, one network exchange
   with its outcome, one timer firing) or an environment decision (a user call, a context
   ending).  All nondeterminism is the choice of the next label, so "in every schedule and
   for every broker behaviour" is [forall ls s, run init ls = Some s -> ...].

   Goroutines modelled (the ghost registry of live goroutines is the set of records that are
   not in their final phase; open connections are derived from the phases, see [conns]):
     callers       FetchMessage / ReadMessage / CommitMessages / Transport round trips ([calls])
     closers       Reader.Close calls ([closers]; any number, concurrently)
     fetchers      the per-partition goroutines of Reader.start -> reader.run (the unexported type) ([fetchers]),
                   accounted in r.join; context = the cancel function of their version
     run           Reader.run(cg): Next loop, subscribe, gen.Start x2, deferred cg.Close and
                   close(r.done) ([rph])
     cg            ConsumerGroup.run / nextGeneration / leaveGroup ([gph], [mid], [cgdone])
     fns           functions started on a Generation: heartbeatLoop, the Reader's commitLoop
                   (Immediate or Interval) and its unsubscribe waiter ([fns]); accounted
                   (routines++) unless the generation was already closed at Start
     readLag       the lag loop and the dial goroutines of ReadLag ([lag], [inners])

   Abstractions (argued here, named in the trusted base of checks/c09.py):
   * Generation accounting (routines counter, joined channel) is abstracted to "gen.close()
     waits until every accounted function has run its exit handler" — that is theorem
     C15_accounting of Properties/C15.v over the detailed model Model/ConsumerGroup.v; partition
     watchers are not modelled (WatchPartitionChanges = false).
   * r.join (sync.WaitGroup) = number of fetchers not yet exited.
   * Message contents are dropped: an element of r.msgs is the version stamp of the partition
     reader that produced it (a message or an error item alike).
   * A network exchange bounded by a deadline (dial, ListOffsets, Fetch, group requests) is one
     label carrying the outcome; the time-out is one of the outcomes.  Wall-clock bounds are
     outside the model.
   * Member ids are naturals chosen by the coordinator; in events member m is written [S m],
     0 = the empty member id. *)
From Coq Require Import List Arith Bool.
Import ListNotations.

Record config := mkCfg {
  c_group : bool;       (* GroupID != "" *)
  c_sync : bool;        (* CommitInterval == 0 *)
  c_lag : bool;         (* ReadLagInterval > 0 *)
  c_qcap : nat;         (* QueueCapacity = cap(r.msgs) = cap(r.commits) *)
  c_attempts : nat }.   (* MaxAttempts of the Next loop in Reader.run *)

(* ---- the timeline: ghost history of the model AND what the harness records ---- *)
Inductive ckind := KFetch | KRead | KCommit | KTrip.
Inductive res := RMsg | RNil | REOF | RClosedPipe | RCtx | ROther.
Inductive api := AHb | ACommit | AFetch | AJoin | ASync | AOfetch | ALeave | ACoord | AOffsets | AMeta.
Inductive event :=
| ECall (c : nat) (k : ckind)      (* call c begins *)
| ECtx (c : nat)                   (* the context of call c ends *)
| ERet (c : nat) (r : res)         (* call c returns *)
| EClose (k : nat) | EClosed (k : nat)   (* Reader.Close call k begins / has returned *)
| EReq (a : api) (m : nat)         (* a request reaches the broker (m = member id + 1, or 0) *)
| EJoined (m : nat)                (* the coordinator handed out member id m-1 *)
| ELeaveUnreach (m : nat)          (* model only: leaveGroup could not reach the coordinator *)
| EMsgsClosed                      (* model only: close(r.msgs) *)
| ERunExit (m : nat).              (* model only: ConsumerGroup.run returned holding member m *)

(* ---- callers ---- *)
Inductive cphase :=
| PFLock                     (* FetchMessage loop head: about to take r.mutex *)
| PFSelect (v : nat)         (* FetchMessage: in the select, version snapshot v *)
| PCCheck                    (* CommitMessages: select { <-r.stctx.Done(): ErrClosedPipe | default } (never blocks) *)
| PCSelect                   (* CommitMessages: enqueue select (r.commits<- | ctx | stctx) *)
| PCWait (reply : option bool)  (* CommitMessages (sync): result select (ctx | errch | stctx); errch is buffered *)
| PTReady | PTAwait          (* Transport: select (p.ready | ctx), then async.await (promise | ctx) *)
| PDone (r : res).
Record call := mkCall { k_kind : ckind; k_ctx : bool; k_ph : cphase }.

(* ---- Reader.Close ---- *)
Inductive clphase :=
| CLMark                     (* atomic store of once done; about to lock, read and set closed *)
| CLCancel (first : bool)    (* r.cancel() *)
| CLStop (first : bool)      (* r.stop() *)
| CLJoin (first : bool)      (* r.join.Wait() *)
| CLDone (first : bool)      (* <-r.done when r.done != nil *)
| CLMsgs (first : bool)      (* if !closed { close(r.msgs) }; return *)
| CLRet.

(* ---- partition reader goroutines (reader.run (the unexported type)) ---- *)
Inductive fphase :=
| FInit                      (* about to initialize: DialLeader *)
| FLookup (j : nat)          (* DialLeader -> Dialer.LookupPartition: metadata connection open (helper j of [inners]
                                reads the partitions on it), select { result | error | <-ctx.Done() } *)
| FOffsets                   (* connected to the leader: readOffsets + Seek *)
| FBackoff                   (* sleep(ctx, backoff(attempt)) at the head of the outer loop *)
| FSendErr                   (* sendError(ctx, err) without a connection *)
| FReadTop                   (* connected: sleep(ctx, backoff(errcount)) at the head of readLoop *)
| FFetching                  (* Fetch request sent, waiting for the response or the deadline *)
| FSending (n : nat)         (* inside read: n messages of the batch still to hand over *)
| FSendErr2                  (* sendError(ctx, err) inside readLoop (connection kept) *)
| FExit.
Record fetcher := mkF { f_ver : nat; f_ph : fphase }.
Inductive dialres := DOk | DFail | DFailReport.   (* DFailReport: attempt >= maxAttempts -> sendError *)
Inductive fresp :=
| FData (n : nat)            (* a batch of n messages *)
| FAgain                     (* nil / io.EOF / RequestTimedOut / OffsetOutOfRange handled: loop *)
| FReconnect                 (* conn.Close(); break readLoop (NotLeader, unknown error, deadline) *)
| FReport.                   (* a kafka.Error for the program: sendError, errcount++ *)

(* ---- Reader.run(cg) ---- *)
Inductive rphase :=
| RNone                      (* no consumer group *)
| RIdle (a : nat)            (* about to call cg.Next, attempt a *)
| RNext (a : nat)            (* inside Next's select *)
| RRunErr                    (* all attempts failed: select { r.runError <- err | default } *)
| RSub (k : nat)             (* r.subscribe(gen.Assignments) *)
| RStartC (k : nat)          (* gen.Start(commitLoop) *)
| RStartU (k : nat)          (* gen.Start(unsubscribe waiter) *)
| RCgClose                   (* deferred cg.Close(): close(cg.done) *)
| RCgWait                    (* cg.wg.Wait() *)
| RDone                      (* deferred close(r.done) *)
| RExited.

(* ---- ConsumerGroup.run ---- *)
Inductive gerr := GRebalance | GOther.
Inductive gans := GOk | GFail (e : gerr).
Inductive joinans := JOk (m : nat) | JOkFail (m : nat) (e : gerr) | JErr (e : gerr).
Inductive why := WClosed | WEnded.
Inductive after := LvExit | LvExitOffer | LvReport (e : gerr).
Inductive gphase :=
| GNone
| GConnect | GJoin | GSync | GOfetch          (* nextGeneration: coordinator(), JoinGroup, SyncGroup, OffsetFetch *)
| GPublish (k : nat)                          (* select { <-cg.done | cg.next <- &gen } *)
| GWait (k : nat)                             (* select { <-cg.done | <-gen.done } *)
| GClose (k : nat) (w : why)                  (* gen.close(): critical section *)
| GCloseWait (k : nat) (w : why)              (* gen.close(): <-g.joined *)
| GLeaveConn (a : after) | GLeaveReq (a : after)   (* leaveGroup: coordinator(), LeaveGroup *)
| GOffer (e : gerr) (backoff : bool)          (* select { <-cg.done | cg.errs <- err } *)
| GBackoff                                    (* select { <-cg.done | <-backoff } *)
| GExited.
Record gen := mkGen { g_mid : nat; g_done : bool; g_conn : bool }.

(* ---- functions started on a generation ---- *)
Inductive fnkind := KHb | KCl | KUn.
Inductive fnphase :=
| NRun
| NTry (cs : list nat) (final : bool) (left : nat) (bk : bool)
    (* commitOffsetsWithRetry for the callers cs (sync) / the stash (interval): [left] attempts
       left, bk = in sleep(r.stctx, backoff) before the next attempt *)
| NUnCancel | NUnWait          (* r.unsubscribe(): lock+cancel, then r.join.Wait() *)
| NRet                         (* fn returned; exit handler (close(done), routines--) pending *)
| NExit.
Record fn := mkFn { n_gen : nat; n_kind : fnkind; n_acc : bool; n_dirty : bool; n_ph : fnphase }.

(* ---- readLag ---- *)
Inductive lagphase := LagOff | LagStart | LagWait (i : nat) | LagTick | LagExit.
Inductive iphase :=
| IDial | IConn               (* ReadLag's goroutine: dialing; connected, reading the offsets *)
| ILookup                     (* LookupPartition's goroutine: Conn.ReadPartitions on the lookup connection (no deadline) *)
| IOrphan                     (* ... whose function has returned (context ended first) and closed the connection under it *)
| IDone.

Record state := mkSt {
  cfg : config;
  closed : bool;
  once : bool;
  stctx : bool;
  version : nat;
  curcan : bool;
  msgs : list nat;
  mclosed : bool;
  panicked : bool;
  commits : list nat;
  fetchers : list fetcher;
  closers : list clphase;
  calls : list call;
  rph : rphase;
  rdone : bool;
  gph : gphase;
  cgdone : bool;
  mid : option nat;
  gens : list gen;
  fns : list fn;
  lag : lagphase;
  inners : list iphase;
  hist : list event
}.
Definition set_closed (v : bool) (s : state) : state := mkSt (cfg s) v (once s) (stctx s) (version s) (curcan s) (msgs s) (mclosed s) (panicked s) (commits s) (fetchers s) (closers s) (calls s) (rph s) (rdone s) (gph s) (cgdone s) (mid s) (gens s) (fns s) (lag s) (inners s) (hist s).
Definition set_once (v : bool) (s : state) : state := mkSt (cfg s) (closed s) v (stctx s) (version s) (curcan s) (msgs s) (mclosed s) (panicked s) (commits s) (fetchers s) (closers s) (calls s) (rph s) (rdone s) (gph s) (cgdone s) (mid s) (gens s) (fns s) (lag s) (inners s) (hist s).
Definition set_stctx (v : bool) (s : state) : state := mkSt (cfg s) (closed s) (once s) v (version s) (curcan s) (msgs s) (mclosed s) (panicked s) (commits s) (fetchers s) (closers s) (calls s) (rph s) (rdone s) (gph s) (cgdone s) (mid s) (gens s) (fns s) (lag s) (inners s) (hist s).
Definition set_version (v : nat) (s : state) : state := mkSt (cfg s) (closed s) (once s) (stctx s) v (curcan s) (msgs s) (mclosed s) (panicked s) (commits s) (fetchers s) (closers s) (calls s) (rph s) (rdone s) (gph s) (cgdone s) (mid s) (gens s) (fns s) (lag s) (inners s) (hist s).
Definition set_curcan (v : bool) (s : state) : state := mkSt (cfg s) (closed s) (once s) (stctx s) (version s) v (msgs s) (mclosed s) (panicked s) (commits s) (fetchers s) (closers s) (calls s) (rph s) (rdone s) (gph s) (cgdone s) (mid s) (gens s) (fns s) (lag s) (inners s) (hist s).
Definition set_msgs (v : list nat) (s : state) : state := mkSt (cfg s) (closed s) (once s) (stctx s) (version s) (curcan s) v (mclosed s) (panicked s) (commits s) (fetchers s) (closers s) (calls s) (rph s) (rdone s) (gph s) (cgdone s) (mid s) (gens s) (fns s) (lag s) (inners s) (hist s).
Definition set_mclosed (v : bool) (s : state) : state := mkSt (cfg s) (closed s) (once s) (stctx s) (version s) (curcan s) (msgs s) v (panicked s) (commits s) (fetchers s) (closers s) (calls s) (rph s) (rdone s) (gph s) (cgdone s) (mid s) (gens s) (fns s) (lag s) (inners s) (hist s).
Definition set_panicked (v : bool) (s : state) : state := mkSt (cfg s) (closed s) (once s) (stctx s) (version s) (curcan s) (msgs s) (mclosed s) v (commits s) (fetchers s) (closers s) (calls s) (rph s) (rdone s) (gph s) (cgdone s) (mid s) (gens s) (fns s) (lag s) (inners s) (hist s).
Definition set_commits (v : list nat) (s : state) : state := mkSt (cfg s) (closed s) (once s) (stctx s) (version s) (curcan s) (msgs s) (mclosed s) (panicked s) v (fetchers s) (closers s) (calls s) (rph s) (rdone s) (gph s) (cgdone s) (mid s) (gens s) (fns s) (lag s) (inners s) (hist s).
Definition set_fetchers (v : list fetcher) (s : state) : state := mkSt (cfg s) (closed s) (once s) (stctx s) (version s) (curcan s) (msgs s) (mclosed s) (panicked s) (commits s) v (closers s) (calls s) (rph s) (rdone s) (gph s) (cgdone s) (mid s) (gens s) (fns s) (lag s) (inners s) (hist s).
Definition set_closers (v : list clphase) (s : state) : state := mkSt (cfg s) (closed s) (once s) (stctx s) (version s) (curcan s) (msgs s) (mclosed s) (panicked s) (commits s) (fetchers s) v (calls s) (rph s) (rdone s) (gph s) (cgdone s) (mid s) (gens s) (fns s) (lag s) (inners s) (hist s).
Definition set_calls (v : list call) (s : state) : state := mkSt (cfg s) (closed s) (once s) (stctx s) (version s) (curcan s) (msgs s) (mclosed s) (panicked s) (commits s) (fetchers s) (closers s) v (rph s) (rdone s) (gph s) (cgdone s) (mid s) (gens s) (fns s) (lag s) (inners s) (hist s).
Definition set_rph (v : rphase) (s : state) : state := mkSt (cfg s) (closed s) (once s) (stctx s) (version s) (curcan s) (msgs s) (mclosed s) (panicked s) (commits s) (fetchers s) (closers s) (calls s) v (rdone s) (gph s) (cgdone s) (mid s) (gens s) (fns s) (lag s) (inners s) (hist s).
Definition set_rdone (v : bool) (s : state) : state := mkSt (cfg s) (closed s) (once s) (stctx s) (version s) (curcan s) (msgs s) (mclosed s) (panicked s) (commits s) (fetchers s) (closers s) (calls s) (rph s) v (gph s) (cgdone s) (mid s) (gens s) (fns s) (lag s) (inners s) (hist s).
Definition set_gph (v : gphase) (s : state) : state := mkSt (cfg s) (closed s) (once s) (stctx s) (version s) (curcan s) (msgs s) (mclosed s) (panicked s) (commits s) (fetchers s) (closers s) (calls s) (rph s) (rdone s) v (cgdone s) (mid s) (gens s) (fns s) (lag s) (inners s) (hist s).
Definition set_cgdone (v : bool) (s : state) : state := mkSt (cfg s) (closed s) (once s) (stctx s) (version s) (curcan s) (msgs s) (mclosed s) (panicked s) (commits s) (fetchers s) (closers s) (calls s) (rph s) (rdone s) (gph s) v (mid s) (gens s) (fns s) (lag s) (inners s) (hist s).
Definition set_mid (v : option nat) (s : state) : state := mkSt (cfg s) (closed s) (once s) (stctx s) (version s) (curcan s) (msgs s) (mclosed s) (panicked s) (commits s) (fetchers s) (closers s) (calls s) (rph s) (rdone s) (gph s) (cgdone s) v (gens s) (fns s) (lag s) (inners s) (hist s).
Definition set_gens (v : list gen) (s : state) : state := mkSt (cfg s) (closed s) (once s) (stctx s) (version s) (curcan s) (msgs s) (mclosed s) (panicked s) (commits s) (fetchers s) (closers s) (calls s) (rph s) (rdone s) (gph s) (cgdone s) (mid s) v (fns s) (lag s) (inners s) (hist s).
Definition set_fns (v : list fn) (s : state) : state := mkSt (cfg s) (closed s) (once s) (stctx s) (version s) (curcan s) (msgs s) (mclosed s) (panicked s) (commits s) (fetchers s) (closers s) (calls s) (rph s) (rdone s) (gph s) (cgdone s) (mid s) (gens s) v (lag s) (inners s) (hist s).
Definition set_lag (v : lagphase) (s : state) : state := mkSt (cfg s) (closed s) (once s) (stctx s) (version s) (curcan s) (msgs s) (mclosed s) (panicked s) (commits s) (fetchers s) (closers s) (calls s) (rph s) (rdone s) (gph s) (cgdone s) (mid s) (gens s) (fns s) v (inners s) (hist s).
Definition set_inners (v : list iphase) (s : state) : state := mkSt (cfg s) (closed s) (once s) (stctx s) (version s) (curcan s) (msgs s) (mclosed s) (panicked s) (commits s) (fetchers s) (closers s) (calls s) (rph s) (rdone s) (gph s) (cgdone s) (mid s) (gens s) (fns s) (lag s) v (hist s).
Definition set_hist (v : list event) (s : state) : state := mkSt (cfg s) (closed s) (once s) (stctx s) (version s) (curcan s) (msgs s) (mclosed s) (panicked s) (commits s) (fetchers s) (closers s) (calls s) (rph s) (rdone s) (gph s) (cgdone s) (mid s) (gens s) (fns s) (lag s) (inners s) v.

Inductive label :=
(* environment decisions *)
| LCall (k : ckind)            (* a new call (its id is the next free index) *)
| LCtx (c : nat)               (* the context of call c ends *)
| LCloseCall                   (* a new Reader.Close call *)
| LSetOffset                   (* Reader.SetOffset to a different offset (restarts the partition reader) *)
(* callers *)
| LRetCtx (c : nat)            (* the select takes <-ctx.Done(): return ctx.Err() *)
| LFLock (c : nat) | LFRecv (c : nat) | LFEof (c : nat) | LFRunErr (c : nat)
| LCCheck (c : nat) | LCEnq (c : nat) | LCClosed (c : nat) | LCReply (c : nat)
| LTReady (c : nat) | LTResp (c : nat) (ok : bool)
(* Reader.Close, one statement per step *)
| LCloseStep (k : nat)
(* partition readers *)
| LFDial (i : nat) (r : dialres) | LFLookup (i : nat) (r : dialres) | LFOffsets (i : nat) (r : dialres)
| LFBackoffFire (i : nat) | LFSeeCancel (i : nat) | LFPushErr (i : nat)
| LFFetch (i : nat) | LFResp (i : nat) (r : fresp) | LFPush (i : nat) | LFBatchEnd (i : nat) (reconnect : bool)
(* Reader.run *)
| LRNextCall | LRNextGen | LRNextErr | LRNextCtx | LRRunErrDrop
| LRSub (n : nat) | LRStartC | LRStartU | LRCgClose | LRCgWait | LRDone
(* ConsumerGroup.run *)
| LGCoord (a : gans) | LGJoin (a : joinans) | LGSync (a : gans) | LGOfetch (a : gans)
| LGPublishAbort | LGWaitClosed | LGWaitDone | LGClose | LGJoined
| LGLeaveCoord (ok : bool) | LGLeaveReq | LGOfferAbort | LGBackoffAbort | LGBackoffFire
(* functions of a generation *)
| LHbTick (f : nat) (ok : bool) | LFnSeeDone (f : nat) | LFnHandler (f : nat)
| LClTake (f : nat) | LClTick (f : nat) | LClCommit (f : nat) (ok : bool)
| LClBackoffFire (f : nat) | LClSeeStop (f : nat)
| LUnCancel (f : nat) | LUnJoin (f : nat)
(* readLag *)
| LLagBegin | LLagGot | LLagTimeout | LLagTick | LLagStop | LInDial (i : nat) (ok : bool) | LInOffsets (i : nat)
| LInExit (j : nat).            (* an orphaned lookup goroutine: its read fails on the closed connection, it ends *)

(* ---- helpers ---- *)
Fixpoint upd {A} (i : nat) (x : A) (l : list A) {struct l} : list A :=
  match l, i with
  | [], _ => []
  | _ :: t, O => x :: t
  | h :: t, S j => h :: upd j x t
  end.

Definition ev (e : event) (s : state) : state := set_hist (e :: hist s) s.
Definition mnum (m : option nat) : nat := match m with Some x => S x | None => 0 end.

Definition fdone (f : fetcher) : bool := match f_ph f with FExit => true | _ => false end.
Definition all_exited (s : state) : bool := forallb fdone (fetchers s).
Definition fcancelled (s : state) (f : fetcher) : bool := Nat.ltb (f_ver f) (version s) || curcan s.
Definition room (s : state) : bool := Nat.ltb (length (msgs s)) (c_qcap (cfg s)).
Definition croom (s : state) : bool := Nat.ltb (length (commits s)) (c_qcap (cfg s)).
Definition set_f (i : nat) (ph : fphase) (f : fetcher) (s : state) : state :=
  set_fetchers (upd i (mkF (f_ver f) ph) (fetchers s)) s.
Definition push (v : nat) (s : state) : state := set_msgs (msgs s ++ [v]) s.

(* Reader.start(offsets) with n partitions, inside r.mutex *)
Definition start (n : nat) (s : state) : state :=
  if closed s then s
  else set_fetchers (fetchers s ++ repeat (mkF (S (version s)) FInit) n)
         (set_curcan false (set_version (S (version s)) s)).

Definition set_call (c : nat) (k : call) (ph : cphase) (s : state) : state :=
  set_calls (upd c (mkCall (k_kind k) (k_ctx k) ph) (calls s)) s.
Definition ret (c : nat) (k : call) (r : res) (s : state) : state :=
  ev (ERet c r) (set_call c k (PDone r) s).
Definition is_read (k : call) : bool := match k_kind k with KRead => true | _ => false end.
Definition commit_res (k : call) (ok : bool) : res :=
  if ok then (if is_read k then RMsg else RNil) else ROther.
Definition blocked (ph : cphase) : bool :=
  match ph with PFSelect _ | PCSelect | PCWait _ | PTReady | PTAwait => true | _ => false end.

(* errch <- err: the channel is buffered (capacity 1, one answer per request) *)
Definition reply (c : nat) (ok : bool) (s : state) : state :=
  match nth_error (calls s) c with
  | Some k => match k_ph k with PCWait None => set_call c k (PCWait (Some ok)) s | _ => s end
  | None => s
  end.
Fixpoint reply_all (cs : list nat) (ok : bool) (s : state) {struct cs} : state :=
  match cs with [] => s | c :: t => reply_all t ok (reply c ok s) end.

Definition gen_done (s : state) (k : nat) : bool :=
  match nth_error (gens s) k with Some g => g_done g | None => false end.
Definition gen_conn (s : state) (k : nat) : bool :=
  match nth_error (gens s) k with Some g => g_conn g | None => false end.
Definition gen_mid (s : state) (k : nat) : nat :=
  match nth_error (gens s) k with Some g => S (g_mid g) | None => 0 end.
Definition end_gen (k : nat) (s : state) : state :=          (* if !g.closed { close(g.done) } *)
  match nth_error (gens s) k with
  | Some g => set_gens (upd k (mkGen (g_mid g) true (g_conn g)) (gens s)) s
  | None => s
  end.
Definition close_conn (k : nat) (s : state) : state :=       (* deferred conn.Close() of nextGeneration *)
  match nth_error (gens s) k with
  | Some g => set_gens (upd k (mkGen (g_mid g) (g_done g) false) (gens s)) s
  | None => s
  end.
Definition nexit (f : fn) : bool := match n_ph f with NExit => true | _ => false end.
Definition acc_of (k : nat) (f : fn) : bool := Nat.eqb (n_gen f) k && n_acc f.
Definition acc_exited (k : nat) (s : state) : bool :=
  forallb (fun f => negb (acc_of k f) || nexit f) (fns s).
Definition set_fn (i : nat) (f : fn) (ph : fnphase) (s : state) : state :=
  set_fns (upd i (mkFn (n_gen f) (n_kind f) (n_acc f) (n_dirty f) ph) (fns s)) s.
Definition set_fn_dirty (i : nat) (f : fn) (d : bool) (ph : fnphase) (s : state) : state :=
  set_fns (upd i (mkFn (n_gen f) (n_kind f) (n_acc f) d ph) (fns s)) s.
Definition fn_return (i : nat) (f : fn) (s : state) : state :=
  set_fn i f (if n_acc f then NRet else NExit) s.
(* Generation.Start: accounted unless the generation is already closed *)
Definition start_fn (k : nat) (kd : fnkind) (s : state) : state :=
  set_fns (fns s ++ [mkFn k kd (negb (gen_done s k)) false NRun]) s.
(* commitOffsetsWithRetry finished with outcome ok *)
Definition cl_finish (i : nat) (f : fn) (cs : list nat) (final ok : bool) (s : state) : state :=
  let s := reply_all cs ok s in
  set_fn_dirty i f (if ok then false else n_dirty f) (if final then (if n_acc f then NRet else NExit) else NRun) s.

(* ---- ConsumerGroup.run after nextGeneration returned ---- *)
Definition exit_cg (s : state) : state := set_gph GExited (ev (ERunExit (mnum (mid s))) s).
Definition finish_leave (a : after) (s : state) : state :=
  match a with
  | LvExit | LvExitOffer => exit_cg s
  | LvReport e => set_gph (GOffer e true) (set_mid None s)
  end.
Definition enter_leave (a : after) (s : state) : state :=
  match mid s with
  | None => finish_leave a s
  | Some _ => set_gph (GLeaveConn a) s
  end.
Definition fail_ng (e : gerr) (s : state) : state :=
  match e with
  | GRebalance => set_gph (GOffer e false) s
  | GOther => enter_leave (LvReport e) s
  end.
Definition after_close (k : nat) (w : why) (s : state) : state :=
  let s := close_conn k s in
  match w with
  | WClosed => enter_leave LvExit s
  | WEnded => set_gph GConnect s
  end.

Definition init (c : config) : state :=
  mkSt c false false false (if c_group c then 1 else 0) false [] false false []
       [] [] [] (if c_group c then RIdle 1 else RNone) false
       (if c_group c then GConnect else GNone) false None [] [] LagOff [] [].

Definition step (s : state) (l : label) : option state :=
  if panicked s then None else
  match l with
  (* ------------------------------------------------------------ environment *)
  | LCall k =>
    let c := length (calls s) in
    let s1 := ev (ECall c k) s in
    Some (match k with
          | KFetch | KRead =>
            let s2 := set_calls (calls s1 ++ [mkCall k false PFLock]) s1 in
            (* activateReadLag: CAS on r.once; only without a consumer group *)
            if c_lag (cfg s) && negb (once s) && negb (c_group (cfg s))
            then set_lag LagStart (set_once true s2)
            else if c_lag (cfg s) then set_once true s2 else s2
          | KCommit =>
            if c_group (cfg s) then set_calls (calls s1 ++ [mkCall k false PCCheck]) s1
            else ev (ERet c ROther) (set_calls (calls s1 ++ [mkCall k false (PDone ROther)]) s1)
          | KTrip => set_calls (calls s1 ++ [mkCall k false PTReady]) s1
          end)
  | LCtx c =>
    match nth_error (calls s) c with
    | Some k => match k_ph k with
                | PDone _ => None
                | _ => if k_ctx k then None
                       else Some (ev (ECtx c) (set_calls (upd c (mkCall (k_kind k) true (k_ph k)) (calls s)) s))
                end
    | None => None end
  | LCloseCall =>
    Some (ev (EClose (length (closers s))) (set_closers (closers s ++ [CLMark]) (set_once true s)))
  | LSetOffset =>
    if c_group (cfg s) then None
    else Some (if negb (closed s) && negb (Nat.eqb (version s) 0) then start 1 s else s)
  (* ------------------------------------------------------------ callers *)
  | LRetCtx c =>
    match nth_error (calls s) c with
    | Some k => if blocked (k_ph k) && k_ctx k then Some (ret c k RCtx s) else None
    | None => None end
  | LFLock c =>
    match nth_error (calls s) c with
    | Some k => match k_ph k with
                | PFLock =>
                  if closed s then Some (ret c k REOF s)       (* buffered messages are dropped after Close *)
                  else
                  let s1 := if Nat.eqb (version s) 0 then start 1 s else s in
                  Some (set_call c k (PFSelect (version s1)) s1)
                | _ => None end
    | None => None end
  | LFRecv c =>
    match nth_error (calls s) c, msgs s with
    | Some k, iv :: rest =>
      match k_ph k with
      | PFSelect v =>
        let s1 := set_msgs rest s in
        Some (if Nat.leb v iv
              then (if is_read k && c_group (cfg s) then set_call c k PCCheck s1 else ret c k RMsg s1)
              else set_call c k PFLock s1)
      | _ => None end
    | _, _ => None end
  | LFEof c =>
    match nth_error (calls s) c, msgs s with
    | Some k, [] =>
      match k_ph k with
      | PFSelect _ => if mclosed s then Some (ret c k REOF s) else None
      | _ => None end
    | _, _ => None end
  | LFRunErr c =>
    match nth_error (calls s) c, rph s with
    | Some k, RRunErr =>
      match k_ph k with
      | PFSelect _ => Some (set_rph (RIdle 1) (ret c k ROther s))
      | _ => None end
    | _, _ => None end
  | LCCheck c =>
    match nth_error (calls s) c with
    | Some k => match k_ph k with
                | PCCheck => Some (if stctx s then ret c k RClosedPipe s else set_call c k PCSelect s)
                | _ => None end
    | None => None end
  | LCEnq c =>
    match nth_error (calls s) c with
    | Some k => match k_ph k with
                | PCSelect =>
                  if croom s then
                    let s1 := set_commits (commits s ++ [c]) s in
                    Some (if c_sync (cfg s) then set_call c k (PCWait None) s1
                          else ret c k (commit_res k true) s1)
                  else None
                | _ => None end
    | None => None end
  | LCClosed c =>
    match nth_error (calls s) c with
    | Some k => match k_ph k with
                | PCSelect | PCWait _ => if stctx s then Some (ret c k RClosedPipe s) else None
                | _ => None end
    | None => None end
  | LCReply c =>
    match nth_error (calls s) c with
    | Some k => match k_ph k with
                | PCWait (Some ok) => Some (ret c k (commit_res k ok) s)
                | _ => None end
    | None => None end
  | LTReady c =>
    match nth_error (calls s) c with
    | Some k => match k_ph k with PTReady => Some (set_call c k PTAwait s) | _ => None end
    | None => None end
  (* LTResp: conn.run (transport.go) resolves the promise the caller awaits.  async.resolve / async.reject are
     sends on the channel created by sendRequest with make(async, 1): with capacity 1 the send never
     blocks, also when the caller has already left through <-ctx.Done() (LRetCtx) — only then can the
     connection goroutine go on, release or close its connection and end.  The connection goroutine
     is not part of this model; the capacity is skeleton assumption T6 of
     Model/SkeletonAssumptions.v (transport_assumptions: every make(async, n) has n = 1), checked
     against /repo by C06 and exercised on the implementation by the late-answer scenarios of
     harness/cmd/c09r (context ends during a round trip, the answer or a connection error comes
     later; afterwards every connection goroutine must be gone and every connection closed). *)
  | LTResp c ok =>
    match nth_error (calls s) c with
    | Some k => match k_ph k with PTAwait => Some (ret c k (if ok then RNil else ROther) s) | _ => None end
    | None => None end
  (* ------------------------------------------------------------ Reader.Close *)
  | LCloseStep k =>
    match nth_error (closers s) k with
    | Some ph =>
      let go ph' s := Some (set_closers (upd k ph' (closers s)) s) in
      match ph with
      | CLMark => go (CLCancel (negb (closed s))) (set_closed true s)
      | CLCancel f => go (CLStop f) (set_curcan true s)
      | CLStop f => go (CLJoin f) (set_stctx true s)
      | CLJoin f => if all_exited s then go (CLDone f) s else None
      | CLDone f => if negb (c_group (cfg s)) || rdone s then go (CLMsgs f) s else None
      | CLMsgs f =>
        let s1 := if f then ev EMsgsClosed (if mclosed s then set_panicked true s else set_mclosed true s) else s in
        go CLRet (ev (EClosed k) s1)
      | CLRet => None
      end
    | None => None end
  (* ------------------------------------------------------------ partition readers *)
  | LFDial i r =>
    (* d.DialContext inside LookupPartition: on success the lookup connection exists and the helper
       goroutine is started on it *)
    match nth_error (fetchers s) i with
    | Some f => match f_ph f with
                | FInit =>
                  Some (match r with
                        | DOk => set_inners (inners s ++ [ILookup]) (set_f i (FLookup (length (inners s))) f s)
                        | DFail => set_f i FBackoff f s
                        | DFailReport => set_f i FSendErr f s
                        end)
                | _ => None end
    | None => None end
  | LFLookup i r =>
    (* the helper delivered (leader found / error) through its buffered channel and returned;
       LookupPartition returns: its deferred c.Close() closes the lookup connection; DOk includes the
       dial of the leader connection *)
    match nth_error (fetchers s) i with
    | Some f => match f_ph f with
                | FLookup j =>
                  Some (set_inners (upd j IDone (inners s))
                          (set_f i (match r with DOk => FOffsets | DFail => FBackoff | DFailReport => FSendErr end) f s))
                | _ => None end
    | None => None end
  | LFOffsets i r =>
    match nth_error (fetchers s) i with
    | Some f => match f_ph f with
                | FOffsets => Some (ev (EReq AOffsets 0)
                                     (set_f i (match r with DOk => FReadTop | DFail => FBackoff | DFailReport => FSendErr end) f s))
                | _ => None end
    | None => None end
  | LFBackoffFire i =>
    match nth_error (fetchers s) i with
    | Some f => match f_ph f with FBackoff => Some (set_f i FInit f s) | _ => None end
    | None => None end
  | LFSeeCancel i =>
    match nth_error (fetchers s) i with
    | Some f =>
      if fcancelled s f then
        match f_ph f with
        | FBackoff => Some (set_f i FExit f s)
        | FLookup j =>
          (* <-ctx.Done() wins in LookupPartition: return ctx.Err(); the deferred c.Close() closes the lookup
             connection under the helper, which is what lets it end (its read has no deadline) *)
          Some (set_inners (upd j IOrphan (inners s)) (set_f i FBackoff f s))
        | FSendErr => Some (set_f i FBackoff f s)
        | FReadTop => Some (set_f i FExit f s)          (* conn.Close(); return *)
        | FSending _ => Some (set_f i FExit f s)        (* read returns context.Canceled: conn.Close(); return *)
        | FSendErr2 => Some (set_f i FReadTop f s)
        | _ => None end
      else None
    | None => None end
  | LFPushErr i =>
    match nth_error (fetchers s) i with
    | Some f =>
      if room s then
        match f_ph f with
        | FSendErr => Some (push (f_ver f) (set_f i FBackoff f s))
        | FSendErr2 => Some (push (f_ver f) (set_f i FReadTop f s))
        | _ => None end
      else None
    | None => None end
  | LFFetch i =>
    match nth_error (fetchers s) i with
    | Some f => match f_ph f with FReadTop => Some (ev (EReq AFetch 0) (set_f i FFetching f s)) | _ => None end
    | None => None end
  | LFResp i r =>
    match nth_error (fetchers s) i with
    | Some f => match f_ph f with
                | FFetching => Some (set_f i (match r with FData n => FSending n | FAgain => FReadTop
                                                     | FReconnect => FBackoff | FReport => FSendErr2 end) f s)
                | _ => None end
    | None => None end
  | LFPush i =>
    match nth_error (fetchers s) i with
    | Some f => match f_ph f with
                | FSending (S n) => if room s then Some (push (f_ver f) (set_f i (FSending n) f s)) else None
                | _ => None end
    | None => None end
  | LFBatchEnd i reconnect =>
    match nth_error (fetchers s) i with
    | Some f => match f_ph f with
                | FSending n => if reconnect then Some (set_f i FBackoff f s)
                                else match n with O => Some (set_f i FReadTop f s) | S _ => None end
                | _ => None end
    | None => None end
  (* ------------------------------------------------------------ Reader.run *)
  | LRNextCall => match rph s with RIdle a => Some (set_rph (RNext a) s) | _ => None end
  | LRNextGen =>
    match rph s, gph s with
    | RNext _, GPublish k => Some (set_rph (RSub k) (set_gph (GWait k) s))
    | _, _ => None end
  | LRNextErr =>
    match rph s, gph s with
    | RNext a, GOffer e b =>
      Some (set_rph (if Nat.ltb a (c_attempts (cfg s)) then RIdle (S a) else RRunErr)
                    (set_gph (if b then GBackoff else GConnect) s))
    | _, _ => None end
  | LRNextCtx => match rph s with RNext _ => if stctx s then Some (set_rph RCgClose s) else None | _ => None end
  | LRRunErrDrop => match rph s with RRunErr => Some (set_rph (RIdle 1) s) | _ => None end
  | LRSub n => match rph s with RSub k => Some (set_rph (RStartC k) (start n s)) | _ => None end
  | LRStartC => match rph s with RStartC k => Some (set_rph (RStartU k) (start_fn k KCl s)) | _ => None end
  | LRStartU => match rph s with RStartU k => Some (set_rph (RIdle 1) (start_fn k KUn s)) | _ => None end
  | LRCgClose => match rph s with RCgClose => Some (set_rph RCgWait (set_cgdone true s)) | _ => None end
  | LRCgWait => match rph s, gph s with RCgWait, GExited => Some (set_rph RDone s) | _, _ => None end
  | LRDone => match rph s with RDone => Some (set_rph RExited (set_rdone true s)) | _ => None end
  (* ------------------------------------------------------------ ConsumerGroup.run *)
  | LGCoord a =>
    match gph s with
    | GConnect => let s := ev (EReq ACoord 0) s in
                  Some (match a with GOk => set_gph GJoin s | GFail e => fail_ng e s end)
    | _ => None end
  | LGJoin ja =>
    match gph s with
    | GJoin =>
      let s := ev (EReq AJoin (mnum (mid s))) s in
      Some (match ja with
            | JOk m => set_gph GSync (set_mid (Some m) (ev (EJoined (S m)) s))
            | JOkFail m e => fail_ng e (set_mid (Some m) (ev (EJoined (S m)) s))
            | JErr e => fail_ng e s                             (* joinGroup returns the member id it was given *)
            end)
    | _ => None end
  | LGSync a =>
    match gph s with
    | GSync => let s := ev (EReq ASync (mnum (mid s))) s in
               Some (match a with GOk => set_gph GOfetch s | GFail e => fail_ng e s end)
    | _ => None end
  | LGOfetch a =>
    match gph s, mid s with
    | GOfetch, Some m =>
      let s := ev (EReq AOfetch 0) s in
      Some (match a with
            | GOk => let k := length (gens s) in
                     set_gph (GPublish k)
                       (set_fns (fns s ++ [mkFn k KHb true false NRun]) (set_gens (gens s ++ [mkGen m false true]) s))
            | GFail e => fail_ng e s end)
    | _, _ => None end
  | LGPublishAbort =>
    match gph s with GPublish k => if cgdone s then Some (set_gph (GClose k WClosed) s) else None | _ => None end
  | LGWaitClosed =>
    match gph s with GWait k => if cgdone s then Some (set_gph (GClose k WClosed) s) else None | _ => None end
  | LGWaitDone =>
    match gph s with GWait k => if gen_done s k then Some (set_gph (GClose k WEnded) s) else None | _ => None end
  | LGClose =>
    match gph s with
    | GClose k w => let s := end_gen k s in
                    Some (if acc_exited k s then after_close k w s else set_gph (GCloseWait k w) s)
    | _ => None end
  | LGJoined =>
    match gph s with
    | GCloseWait k w => if acc_exited k s then Some (after_close k w s) else None
    | _ => None end
  | LGLeaveCoord ok =>
    match gph s with
    | GLeaveConn a => let s := ev (EReq ACoord 0) s in
                      Some (if ok then set_gph (GLeaveReq a) s else finish_leave a (ev (ELeaveUnreach (mnum (mid s))) s))
    | _ => None end
  | LGLeaveReq =>
    match gph s with
    | GLeaveReq a => Some (finish_leave a (ev (EReq ALeave (mnum (mid s))) s))
    | _ => None end
  | LGOfferAbort =>
    match gph s with GOffer _ _ => if cgdone s then Some (enter_leave LvExitOffer s) else None | _ => None end
  | LGBackoffAbort =>
    match gph s with GBackoff => if cgdone s then Some (exit_cg s) else None | _ => None end
  | LGBackoffFire =>
    match gph s with GBackoff => Some (set_gph GConnect s) | _ => None end
  (* ------------------------------------------------------------ functions of a generation *)
  | LHbTick i ok =>
    match nth_error (fns s) i with
    | Some f =>
      match n_kind f, n_ph f with
      | KHb, NRun =>
        if gen_conn s (n_gen f) then
          let s := ev (EReq AHb (gen_mid s (n_gen f))) s in
          Some (if ok then s else fn_return i f s)
        else if ok then None else Some (fn_return i f s)       (* closed connection: local error, no request *)
      | _, _ => None end
    | None => None end
  | LFnSeeDone i =>
    match nth_error (fns s) i with
    | Some f =>
      match n_ph f with
      | NRun =>
        match n_kind f with
        | KHb => if gen_done s (n_gen f) then Some (fn_return i f s) else None
        | KUn => if gen_done s (n_gen f) || stctx s then Some (set_fn i f NUnCancel s) else None
        | KCl =>
          if gen_done s (n_gen f) then
            (* drain r.commits, then one final commit of everything outstanding *)
            let cs := commits s in
            let s1 := set_commits [] s in
            if c_sync (cfg s) then
              match cs with
              | [] => Some (fn_return i f s1)
              | _ => Some (set_fn i f (NTry cs true 3 false) s1)
              end
            else
              if n_dirty f || negb (Nat.eqb (length cs) 0)
              then Some (set_fn_dirty i f true (NTry [] true 3 false) s1)
              else Some (fn_return i f s1)
          else None
        end
      | _ => None end
    | None => None end
  | LFnHandler i =>
    match nth_error (fns s) i with
    | Some f => match n_ph f with
                | NRet => Some (end_gen (n_gen f) (set_fn i f NExit s))
                | _ => None end
    | None => None end
  | LClTake i =>
    match nth_error (fns s) i, commits s with
    | Some f, c :: rest =>
      match n_kind f, n_ph f with
      | KCl, NRun =>
        let s1 := set_commits rest s in
        Some (if c_sync (cfg s) then set_fn i f (NTry [c] false 3 false) s1
              else set_fn_dirty i f true NRun s1)
      | _, _ => None end
    | _, _ => None end
  | LClTick i =>
    match nth_error (fns s) i with
    | Some f =>
      match n_kind f, n_ph f with
      | KCl, NRun => if c_sync (cfg s) then None
                     else Some (if n_dirty f then set_fn i f (NTry [] false 3 false) s else s)
      | _, _ => None end
    | None => None end
  | LClCommit i ok =>
    match nth_error (fns s) i with
    | Some f =>
      match n_ph f with
      | NTry cs final lft false =>
        let conn := gen_conn s (n_gen f) in
        if negb conn && ok then None else
        let s1 := if conn then ev (EReq ACommit (gen_mid s (n_gen f))) s else s in
        Some (if ok then cl_finish i f cs final true s1
              else match lft with
                   | S (S n) => set_fn i f (NTry cs final (S n) true) s1
                   | _ => cl_finish i f cs final false s1
                   end)
      | _ => None end
    | None => None end
  | LClBackoffFire i =>
    match nth_error (fns s) i with
    | Some f => match n_ph f with
                | NTry cs final lft true => Some (set_fn i f (NTry cs final lft false) s)
                | _ => None end
    | None => None end
  | LClSeeStop i =>
    match nth_error (fns s) i with
    | Some f => match n_ph f with
                | NTry cs final lft true => if stctx s then Some (cl_finish i f cs final false s) else None
                | _ => None end
    | None => None end
  | LUnCancel i =>
    match nth_error (fns s) i with
    | Some f => match n_ph f with NUnCancel => Some (set_curcan true (set_fn i f NUnWait s)) | _ => None end
    | None => None end
  | LUnJoin i =>
    match nth_error (fns s) i with
    | Some f => match n_ph f with NUnWait => if all_exited s then Some (fn_return i f s) else None | _ => None end
    | None => None end
  (* ------------------------------------------------------------ readLag *)
  | LLagBegin =>
    match lag s with LagStart => Some (set_lag (LagWait (length (inners s))) (set_inners (inners s ++ [IDial]) s)) | _ => None end
  | LLagGot =>
    match lag s with
    | LagWait i => match nth_error (inners s) i with Some IDone => Some (set_lag LagTick s) | _ => None end
    | _ => None end
  | LLagTimeout => match lag s with LagWait _ => Some (set_lag LagTick s) | _ => None end
  | LLagTick => match lag s with LagTick => Some (set_lag LagStart s) | _ => None end
  | LLagStop => match lag s with LagTick => if stctx s then Some (set_lag LagExit s) else None | _ => None end
  | LInDial i ok =>
    match nth_error (inners s) i with
    | Some IDial => Some (set_inners (upd i (if ok then IConn else IDone) (inners s)) s)
    | _ => None end
  | LInExit j =>
    match nth_error (inners s) j with
    | Some IOrphan => Some (set_inners (upd j IDone (inners s)) s)
    | _ => None
    end
  | LInOffsets i =>
    match nth_error (inners s) i with
    | Some IConn => Some (ev (EReq AOffsets 0) (set_inners (upd i IDone (inners s)) s))
    | _ => None end
  end.

(* ---- classification of labels ---- *)
Definition is_env (l : label) : bool :=
  match l with LCall _ | LCtx _ | LCloseCall | LSetOffset => true | _ => false end.
(* firings of PERIODIC tickers (heartbeat interval, commit interval, lag interval) *)
Definition is_clock (l : label) : bool :=
  match l with LHbTick _ _ | LClTick _ | LLagTick => true | _ => false end.
Definition call_ctx (s : state) (c : nat) : bool :=
  match nth_error (calls s) c with Some k => k_ctx k | None => false end.
Definition f_cancelled (s : state) (i : nat) : bool :=
  match nth_error (fetchers s) i with Some f => fcancelled s f | None => false end.
Definition fn_gen_done (s : state) (i : nat) : bool :=
  match nth_error (fns s) i with Some f => gen_done s (n_gen f) | None => false end.
(* a select takes another ready branch although its cancellation branch is ready too
   (Go chooses uniformly at random among the ready branches) *)
Definition is_race (s : state) (l : label) : bool :=
  match l with
  | LFRecv c | LTReady c | LTResp c _ => call_ctx s c
  | LCReply c => call_ctx s c || stctx s
  | LCEnq c => call_ctx s c || stctx s
  | LFDial i DOk | LFLookup i _ | LFBackoffFire i | LFPushErr i | LFFetch i | LFPush i => f_cancelled s i
  | LRNextGen | LRNextErr => stctx s
  | LGBackoffFire => cgdone s
  | LClTake i => fn_gen_done s i
  | LClBackoffFire _ | LLagTick | LInDial _ true => stctx s
  | _ => false
  end.
Definition progress (s : state) (l : label) : bool :=
  negb (is_env l) && negb (is_clock l) && negb (is_race s l).

(* ---- ghost registry: live goroutines and open connections ---- *)
Definition count {A} (p : A -> bool) (l : list A) : nat := length (filter p l).
Definition f_conn (f : fetcher) : bool :=
  match f_ph f with FOffsets | FReadTop | FFetching | FSending _ | FSendErr2 => true | _ => false end.
Definition r_live (r : rphase) : nat := match r with RNone | RExited => 0 | _ => 1 end.
Definition g_live (g : gphase) : nat := match g with GNone | GExited => 0 | _ => 1 end.
Definition g_hasconn (g : gphase) : nat := match g with GJoin | GSync | GOfetch | GLeaveReq _ => 1 | _ => 0 end.
Definition lag_live (l : lagphase) : nat := match l with LagOff | LagExit => 0 | _ => 1 end.
Definition idone (i : iphase) : bool := match i with IDone => true | _ => false end.
Definition iconn (i : iphase) : bool := match i with IConn | ILookup => true | _ => false end.
Definition live (s : state) : nat :=
  count (fun f => negb (fdone f)) (fetchers s) + r_live (rph s) + g_live (gph s)
  + count (fun f => negb (nexit f)) (fns s) + lag_live (lag s) + count (fun i => negb (idone i)) (inners s).
Definition conns (s : state) : nat :=
  count f_conn (fetchers s) + g_hasconn (gph s) + count g_conn (gens s) + count iconn (inners s).
(* the goroutines Close accounts for: everything but readLag and its dial goroutines *)
Definition live_acc (s : state) : nat :=
  count (fun f => negb (fdone f)) (fetchers s) + r_live (rph s) + g_live (gph s)
  + count (fun f => n_acc f && negb (nexit f)) (fns s).

Definition close_returned (s : state) : bool :=
  existsb (fun p => match p with CLRet => true | _ => false end) (closers s).
Definition close_waits (s : state) : bool :=
  existsb (fun p => match p with CLJoin _ | CLDone _ => true | _ => false end) (closers s).
(* Close has executed r.stop(): the fetcher contexts and r.stctx are cancelled *)
Definition stopping (s : state) : bool := closed s && curcan s && stctx s.

(* ================= monitors over the timeline, NEWEST FIRST =================
   [mon_x (e :: h) = chk_x e h && mon_x h]: the newest event is judged against its past.
   The same definitions are extracted and run on the implementation's recorded timelines. *)
Definition is_closed_ev (e : event) : bool := match e with EClosed _ => true | _ => false end.
Definition is_ctx_ev (c : nat) (e : event) : bool := match e with ECtx c' => Nat.eqb c c' | _ => false end.
(* kind of call c, whether it BEGAN after some Close had returned, and whether its context had
   already ended when it began *)
Fixpoint call_info (c : nat) (h : list event) {struct h} : option (ckind * bool * bool) :=
  match h with
  | [] => None
  | ECall c' k :: t =>
    if Nat.eqb c c' then Some (k, existsb is_closed_ev t, existsb (is_ctx_ev c) t) else call_info c t
  | _ :: t => call_info c t
  end.
(* use after close: a call begun after a Close call returned gets io.EOF (FetchMessage; ReadMessage
   returns fmt.Errorf("fetching message: %w", io.EOF), class REOF = errors.Is(err, io.EOF)) /
   io.ErrClosedPipe (CommitMessages of a group Reader; without a group it is errOnlyAvailableWithGroup
   as always, class ROther).  Nothing else: such a call never delivers a message, never enqueues a
   commit and never waits (not even for its context).  g = the Reader has a GroupID. *)
Definition chk_after_close (g : bool) (e : event) (h : list event) : bool :=
  match e with
  | ERet c r =>
    match call_info c h with
    | Some (k, true, _) =>
      match k, r with
      | KTrip, _ => true
      | KFetch, REOF | KRead, REOF | KCommit, RClosedPipe => true
      | KCommit, ROther => negb g
      | _, _ => false
      end
    | _ => true
    end
  | _ => true
  end.
Fixpoint mon_after_close (g : bool) (h : list event) {struct h} : bool :=
  match h with [] => true | e :: t => chk_after_close g e t && mon_after_close g t end.
(* finer: which clause *)
Definition chk_late_fetch (g : bool) (e : event) (h : list event) : bool :=
  match e with
  | ERet c r => match call_info c h with
                | Some (KFetch, true, _) | Some (KRead, true, _) => chk_after_close g e h
                | _ => true end
  | _ => true end.
Fixpoint mon_late_fetch (g : bool) (h : list event) {struct h} : bool :=
  match h with [] => true | e :: t => chk_late_fetch g e t && mon_late_fetch g t end.
Definition chk_late_commit (g : bool) (e : event) (h : list event) : bool :=
  match e with
  | ERet c r => match call_info c h with
                | Some (KCommit, true, _) => chk_after_close g e h
                | _ => true end
  | _ => true end.
Fixpoint mon_late_commit (g : bool) (h : list event) {struct h} : bool :=
  match h with [] => true | e :: t => chk_late_commit g e t && mon_late_commit g t end.

(* silence after Close: no heartbeat, commit, fetch, join or sync request once a Close returned *)
Definition loud (a : api) : bool :=
  match a with AHb | ACommit | AFetch | AJoin | ASync => true | _ => false end.
Definition chk_silent (e : event) (h : list event) : bool :=
  match e with
  | EReq a _ => negb (loud a && existsb is_closed_ev h)
  | _ => true end.
Fixpoint mon_silent (h : list event) : bool :=
  match h with [] => true | e :: t => chk_silent e t && mon_silent t end.

(* membership as the broker sees it, scanning back: m > 0 = member id m-1 was handed out and has not
   been the subject of a LeaveGroup attempt since (a later JoinGroup REQUEST does not release it) *)
Fixpoint mstat (h : list event) {struct h} : nat :=
  match h with
  | [] => 0
  | EJoined m :: _ => m
  | EReq ALeave _ :: _ | ELeaveUnreach _ :: _ => 0
  | _ :: t => mstat t
  end.
Definition chk_leave (e : event) (h : list event) : bool :=
  match e with EClosed _ => Nat.eqb (mstat h) 0 | _ => true end.
Fixpoint mon_leave (h : list event) : bool :=
  match h with [] => true | e :: t => chk_leave e t && mon_leave t end.

(* r.msgs closed at most once *)
Definition is_msgs_closed (e : event) : bool := match e with EMsgsClosed => true | _ => false end.
Definition msgs_closes (h : list event) : nat := count is_msgs_closed h.

(* what is run on a recorded timeline *)
Definition C09R_holds (g : bool) (h : list event) : bool := mon_after_close g h && mon_silent h && mon_leave h.

(* ================= concrete schedules used by Properties/C09.v and the driver ================= *)
Definition cfg_p (qcap : nat) : config := mkCfg false true false qcap 3.
Definition cfg_g (sync : bool) (qcap : nat) : config := mkCfg true sync false qcap 3.
Definition close_all (k : nat) : list label := repeat (LCloseStep k) 6.
(* regression schedules of the three former defects (fixed in /repo 43be141, 0aeb2fd, da142dd) *)
Definition wit_fetch_buffered : list label :=
  [LCall KFetch; LFLock 0; LFDial 0 DOk; LFLookup 0 DOk; LFOffsets 0 DOk; LFFetch 0; LFResp 0 (FData 2); LFPush 0; LFPush 0;
   LFRecv 0; LCloseCall; LCloseStep 0; LCloseStep 0; LCloseStep 0; LFSeeCancel 0] ++
  [LCloseStep 0; LCloseStep 0; LCloseStep 0; LCall KFetch; LFLock 1].
(* group mode: CommitMessages after Close returned *)
Definition join_ok : list label := [LGCoord GOk; LGJoin (JOk 0); LGSync GOk; LGOfetch GOk].
Definition wit_commit_enqueued : list label :=
  join_ok ++ [LCloseCall; LCloseStep 0; LCloseStep 0; LCloseStep 0; LCloseStep 0;
   LRNextCall; LRNextCtx; LRCgClose; LGPublishAbort; LGClose; LFnSeeDone 0; LFnHandler 0; LGJoined;
   LGLeaveCoord true; LGLeaveReq; LRCgWait; LRDone; LCloseStep 0; LCloseStep 0;
   LCall KCommit; LCCheck 0].
(* member 0 joined, SyncGroup answers RebalanceInProgress (id kept), the re-join fails with another
   error: the id is kept by joinGroup, run leaves the group with it and clears it; then Close *)
Definition wit_no_leave : list label :=
  [LGCoord GOk; LGJoin (JOk 0); LGSync (GFail GRebalance); LRNextCall; LRNextErr; LGCoord GOk; LGJoin (JErr GOther);
   LGLeaveCoord true; LGLeaveReq;
   LCloseCall; LCloseStep 0; LCloseStep 0; LCloseStep 0; LCloseStep 0;
   LRNextCall; LRNextCtx; LRCgClose; LGOfferAbort; LRCgWait; LRDone; LCloseStep 0; LCloseStep 0].
