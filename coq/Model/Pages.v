(* Model/Pages.v — the reference-counted 64 KiB pages of protocol/buffer.go as an atomic-step
   transition system.  Definitions only.

   page        refc (atomic counter), the bytes written so far (len = page.length), and whether
               the page currently sits in pagePool
   pageBuffer  live (its own refc is 1) and the ids of its pages, in order
   pageRef     live (once = 0) and, per page it holds, the byte range [lo,hi) inside that page
   Every step is one atomic action of the code:
     ONewBuf           newPageBuffer()
     ONewPage b src    pb.pages = append(pb.pages, pb.newPage()): src = Some p — pagePool.Get()
                       returned page p: length = 0, refc += 1;  None — a fresh page with refc 1
     OAppend b data    tail.Write(data) for data that fits the free space of b's last page
                       (pageBuffer.Write / ReadFrom are sequences of OAppend and ONewPage)
     ORef b segs       pb.refTo(ref, begin, end): the pages of the range get refc += 1
     OUnrefBuf b       pb.unref(): every page refc -= 1, a page reaching 0 goes to pagePool
     OUnrefRef r       ref.unref() (guarded by [once]: a second call does nothing)
     OPoolDrop p       sync.Pool forgets a page (GC)
   [step] returns None when the action is not possible in the code either (unknown ids, data
   larger than the free space) or when a counter would underflow. *)
From Coq Require Import List NArith Bool Arith.
Import ListNotations.

Definition page_size : nat := 256 * 256.

Record page := { p_refc : nat; p_data : list N; p_pool : bool }.
Record pbuf := { b_live : bool; b_pages : list nat }.
Definition seg := (nat * (nat * nat))%type.          (* page id, lo, hi *)
Record pref := { r_live : bool; r_segs : list seg }.
Record pstate := { s_pages : list page; s_bufs : list pbuf; s_refs : list pref }.

Definition s0 : pstate := {| s_pages := []; s_bufs := []; s_refs := [] |}.

Inductive op :=
| ONewBuf
| ONewPage (b : nat) (src : option nat)
| OAppend (b : nat) (data : list N)
| ORef (b : nat) (segs : list seg)
| OUnrefBuf (b : nat)
| OUnrefRef (r : nat)
| OPoolDrop (p : nat).

Fixpoint upd {A : Type} (l : list A) (i : nat) (x : A) {struct l} : list A :=
  match l, i with
  | [], _ => []
  | _ :: t, O => x :: t
  | h :: t, S j => h :: upd t j x
  end.

Definition page0 : page := {| p_refc := 0; p_data := []; p_pool := false |}.
Definition get_page (s : pstate) (p : nat) : page := nth p (s_pages s) page0.

(* refc += 1 on one page *)
Definition inc_page (ps : list page) (p : nat) : list page :=
  let pg := nth p ps page0 in
  upd ps p {| p_refc := S (p_refc pg); p_data := p_data pg; p_pool := p_pool pg |}.
(* refc -= 1 on one page; at zero the page is put into the pool.  None = underflow *)
Definition dec_page (ps : list page) (p : nat) : option (list page) :=
  let pg := nth p ps page0 in
  match p_refc pg with
  | O => None
  | S n => Some (upd ps p {| p_refc := n; p_data := p_data pg; p_pool := Nat.eqb n 0 |})
  end.
Fixpoint dec_pages (ps : list page) (l : list nat) {struct l} : option (list page) :=
  match l with
  | [] => Some ps
  | p :: t => match dec_page ps p with Some ps' => dec_pages ps' t | None => None end
  end.
Definition inc_pages (ps : list page) (l : list nat) : list page := fold_left inc_page l ps.

Definition seg_ok (s : pstate) (pages : list nat) (sg : seg) : bool :=
  let '(p, (lo, hi)) := sg in
  existsb (Nat.eqb p) pages && (lo <=? hi) && (hi <=? length (p_data (get_page s p))).

Fixpoint nodupb (l : list nat) {struct l} : bool :=
  match l with [] => true | x :: t => negb (existsb (Nat.eqb x) t) && nodupb t end.

Definition step (s : pstate) (o : op) : option pstate :=
  match o with
  | ONewBuf =>
    Some {| s_pages := s_pages s; s_bufs := s_bufs s ++ [{| b_live := true; b_pages := [] |}]; s_refs := s_refs s |}
  | ONewPage b src =>
    match nth_error (s_bufs s) b with
    | Some bf =>
      if negb (b_live bf) then None else
      match src with
      | Some p =>
        match nth_error (s_pages s) p with
        | Some pg =>
          if negb (p_pool pg) then None else
          Some {| s_pages := upd (s_pages s) p {| p_refc := S (p_refc pg); p_data := []; p_pool := false |};
                  s_bufs := upd (s_bufs s) b {| b_live := true; b_pages := b_pages bf ++ [p] |};
                  s_refs := s_refs s |}
        | None => None
        end
      | None =>
        Some {| s_pages := s_pages s ++ [{| p_refc := 1; p_data := []; p_pool := false |}];
                s_bufs := upd (s_bufs s) b {| b_live := true; b_pages := b_pages bf ++ [length (s_pages s)] |};
                s_refs := s_refs s |}
      end
    | None => None
    end
  | OAppend b data =>
    match nth_error (s_bufs s) b with
    | Some bf =>
      if negb (b_live bf) then None else
      match rev (b_pages bf) with
      | [] => None
      | p :: _ =>
        match nth_error (s_pages s) p with
        | Some pg =>
          if page_size <? length (p_data pg) + length data then None else
          Some {| s_pages := upd (s_pages s) p {| p_refc := p_refc pg; p_data := p_data pg ++ data; p_pool := p_pool pg |};
                  s_bufs := s_bufs s; s_refs := s_refs s |}
        | None => None
        end
      end
    | None => None
    end
  | ORef b segs =>
    match nth_error (s_bufs s) b with
    | Some bf =>
      if negb (b_live bf) then None
      else if negb (forallb (seg_ok s (b_pages bf)) segs && nodupb (map fst segs)) then None
      else Some {| s_pages := inc_pages (s_pages s) (map fst segs); s_bufs := s_bufs s;
                   s_refs := s_refs s ++ [{| r_live := true; r_segs := segs |}] |}
    | None => None
    end
  | OUnrefBuf b =>
    match nth_error (s_bufs s) b with
    | Some bf =>
      if negb (b_live bf) then None else
      match dec_pages (s_pages s) (b_pages bf) with
      | Some ps => Some {| s_pages := ps; s_bufs := upd (s_bufs s) b {| b_live := false; b_pages := [] |};
                           s_refs := s_refs s |}
      | None => None
      end
    | None => None
    end
  | OUnrefRef r =>
    match nth_error (s_refs s) r with
    | Some rf =>
      if negb (r_live rf) then Some s else
      match dec_pages (s_pages s) (map fst (r_segs rf)) with
      | Some ps => Some {| s_pages := ps; s_bufs := s_bufs s;
                           s_refs := upd (s_refs s) r {| r_live := false; r_segs := [] |} |}
      | None => None
      end
    | None => None
    end
  | OPoolDrop p =>
    match nth_error (s_pages s) p with
    | Some pg =>
      if negb (p_pool pg) then None else
      Some {| s_pages := upd (s_pages s) p {| p_refc := p_refc pg; p_data := p_data pg; p_pool := false |};
              s_bufs := s_bufs s; s_refs := s_refs s |}
    | None => None
    end
  end.

Fixpoint run (s : pstate) (ops : list op) {struct ops} : option pstate :=
  match ops with
  | [] => Some s
  | o :: t => match step s o with Some s' => run s' t | None => None end
  end.

(* the bytes visible through a ref *)
Definition read_seg (s : pstate) (sg : seg) : list N :=
  let '(p, (lo, hi)) := sg in firstn (hi - lo) (skipn lo (p_data (get_page s p))).
Definition read_ref (s : pstate) (r : nat) : option (list N) :=
  match nth_error (s_refs s) r with
  | Some rf => if r_live rf then Some (concat (map (read_seg s) (r_segs rf))) else None
  | None => None
  end.

(* ------------------------------------------------------------------ pageBuffer.ReadFrom *)
(* the tail page of a live buffer: None = no such live buffer, Some None = it has no page yet *)
Definition buf_tail (s : pstate) (b : nat) : option (option nat) :=
  match nth_error (s_bufs s) b with
  | Some bf => if b_live bf then Some (match rev (b_pages bf) with [] => None | p :: _ => Some p end) else None
  | None => None
  end.

(* pb.ReadFrom(r) for a reader that delivers exactly [data] and then EOF.  One round of the
   code's loop per unit of fuel:
     no page yet, or the tail page is full (free == 0)  ->  pb.pages = append(pb.pages, pb.newPage())
     otherwise n = tail.ReadFrom(r) copies min(free, len data) bytes behind the bytes the tail
     page already holds; the loop ends when n < free (the reader ran dry), else goes on.
   [src] lists what pagePool.Get() returns at each newPage() (None / exhausted = nothing pooled). *)
Fixpoint pb_read_from (fuel : nat) (s : pstate) (b : nat) (data : list N) (src : list (option nat))
  {struct fuel} : option pstate :=
  match fuel with
  | O => None
  | S f =>
    match buf_tail s b with
    | None => None
    | Some None =>
      match step s (ONewPage b (hd None src)) with
      | Some s1 => pb_read_from f s1 b data (tl src)
      | None => None
      end
    | Some (Some p) =>
      let free := page_size - length (p_data (get_page s p)) in
      if free =? 0 then
        match step s (ONewPage b (hd None src)) with
        | Some s1 => pb_read_from f s1 b data (tl src)
        | None => None
        end
      else
        match step s (OAppend b (firstn free data)) with
        | Some s1 =>
          if length (firstn free data) <? free then Some s1
          else pb_read_from f s1 b (skipn free data) src
        | None => None
        end
    end
  end.

(* all the bytes of a buffer, page after page *)
Definition buf_content (s : pstate) (b : nat) : list N :=
  match nth_error (s_bufs s) b with
  | Some bf => concat (map (fun p => p_data (get_page s p)) (b_pages bf))
  | None => []
  end.

(* ------------------------------------------------------------------ pageBuffer.WriteAt *)
(* page.WriteAt inside the bytes the page holds: copy(p.buffer[o:], b) *)
Definition overwrite (d : list N) (o : nat) (b : list N) : list N :=
  firstn o d ++ b ++ skipn (o + length b) d.

(* contiguousPages.WriteAt over the buffer's pages [l], [off] counted from the start of the
   first page of [l]: every page the range touches takes the bytes that fall into it
   (n = copy(...); b = b[n:]; off += n), the pages before it are skipped. *)
Fixpoint pages_write_at (ps : list page) (l : list nat) (off : nat) (data : list N) {struct l} : list page :=
  match l with
  | [] => ps
  | p :: t =>
    let pg := nth p ps page0 in
    let len := length (p_data pg) in
    if len <=? off then pages_write_at ps t (off - len) data
    else
      let n := Nat.min (len - off) (length data) in
      pages_write_at
        (upd ps p {| p_refc := p_refc pg; p_data := overwrite (p_data pg) off (firstn n data); p_pool := p_pool pg |})
        t 0 (skipn n data)
  end.

(* pb.WriteAt(data, off) for a range inside the bytes the buffer already holds (the
   back-patching of placeholders; a range reaching beyond the end is not modelled: None) *)
Definition pb_write_at (s : pstate) (b : nat) (off : nat) (data : list N) : option pstate :=
  match nth_error (s_bufs s) b with
  | Some bf =>
    if negb (b_live bf) then None
    else if length (buf_content s b) <? off + length data then None
    else Some {| s_pages := pages_write_at (s_pages s) (b_pages bf) off data;
                 s_bufs := s_bufs s; s_refs := s_refs s |}
  | None => None
  end.
