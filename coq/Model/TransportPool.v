(* Model/TransportPool.v — the connection pool of kafka.Transport
   (/repo/transport.go: connPool.sendRequest, connGroup.grabConnOrConnect / grabConn /
   releaseConn / removeConn / closeIdleConns, the idle timer, conn.run, async.await;
   /repo/protocol/conn.go RoundTrip, /repo/protocol/roundtrip.go correlation check).

   Atomic-step LTS: one label = one critical section of connGroup.mutex, one channel
   operation (the rendez-vous on conn.reqs, the buffered promise), one step of the
   conn.run goroutine, one broker reaction, one timer firing, one context cancellation.
   Definitions only.

   The broker side is adversarial on purpose: it may answer any request it has seen on a
   connection any number of times and at any later moment ([BAnswer]), so the
   correlation-id check of protocol.RoundTrip is what the own-response theorem rests on. *)
From Coq Require Import List ZArith Bool Arith.
From KV Require Import Model.ConnMux.
Import ListNotations.
Local Open Scope Z_scope.

Definition cid := nat.
Definition rqid := nat.
Definition gid := nat.

(* a response frame on a transport connection: [fid] the id in its bytes, [fown] (ghost)
   the RoundTrip call whose request the broker answered with it — ConnMux.frame *)

Inductive result :=
| RVal (f : frame)     (* a decoded response *)
| RNil                 (* request without response (acks = 0) *)
| RErr.

(* the conn.run goroutine of one connection *)
Inductive cstate :=
| CLoop                           (* blocked in `for cr := range reqs` *)
| CBusy (r : rqid)                (* received a connRequest, about to write *)
| CSent (r : rqid) (k : Z)        (* request written with ordinal k (id wrap32 k), reading *)
| CResolved                       (* promise resolved (or ErrNoRecord rejected), before releaseConn *)
| CClosed.                        (* loop left / reqs closed: pc.Close() *)

Record conn := mkConn {
  cgrp : gid;
  cst : cstate;
  idgen : Z;                      (* protocol.Conn.idgen (int32) *)
  nex : Z;                        (* ghost: unwrapped idgen *)
  cwire : list frame;             (* unread response frames *)
  bsent : list (Z * rqid);        (* ghost: (ordinal, caller) of requests the broker saw *)
  timer : bool;                   (* idle timer armed *)
  lastok : bool                   (* ghost: the last exchange ended without error *)
}.

Definition conn0 := mkConn 0%nat CClosed 0 0 [] [] false false.

Inductive qphase :=
| QIdle
| QHold (c : cid)                 (* got c from grabConnOrConnect, about to send on c.reqs *)
| QAwait                          (* handed off, in async.await *)
| QDone (r : result).

Record req := mkReq { qph : qphase; prom : option result }.   (* prom: the buffered channel *)
Definition req0 := mkReq QIdle None.

Record pstate := mkP {
  conns : list (cid * conn);
  reqs : list (rqid * req);
  idle : list cid;                (* all groups' idleConns; top of a group's stack first *)
  gclosed : list gid;             (* connGroup.closed *)
  nconn : nat                     (* next fresh connection *)
}.

Definition pinit := mkP [] [] [] [] 0%nat.

Fixpoint lookupG {A} (d : A) (m : list (nat * A)) (k : nat) {struct m} : A :=
  match m with
  | [] => d
  | (k', v) :: m' => if Nat.eqb k' k then v else lookupG d m' k
  end.

Definition cn (s : pstate) (c : cid) : conn := lookupG conn0 (conns s) c.
Definition rq (s : pstate) (r : rqid) : req := lookupG req0 (reqs s) r.

Definition upd_conn (s : pstate) (c : cid) (v : conn) : pstate :=
  mkP ((c, v) :: conns s) (reqs s) (idle s) (gclosed s) (nconn s).
Definition upd_req (s : pstate) (r : rqid) (v : req) : pstate :=
  mkP (conns s) ((r, v) :: reqs s) (idle s) (gclosed s) (nconn s).
Definition set_idle (s : pstate) (v : list cid) : pstate :=
  mkP (conns s) (reqs s) v (gclosed s) (nconn s).
Definition add_gclosed (s : pstate) (g : gid) : pstate :=
  mkP (conns s) (reqs s) (idle s) (g :: gclosed s) (nconn s).
Definition bump_nconn (s : pstate) : pstate :=
  mkP (conns s) (reqs s) (idle s) (gclosed s) (S (nconn s)).

Definition set_cst (c : conn) (v : cstate) : conn :=
  mkConn (cgrp c) v (idgen c) (nex c) (cwire c) (bsent c) (timer c) (lastok c).
Definition set_timer (c : conn) (v : bool) : conn :=
  mkConn (cgrp c) (cst c) (idgen c) (nex c) (cwire c) (bsent c) v (lastok c).
Definition set_lastok (c : conn) (v : bool) : conn :=
  mkConn (cgrp c) (cst c) (idgen c) (nex c) (cwire c) (bsent c) (timer c) v.
Definition set_cwire (c : conn) (v : list frame) : conn :=
  mkConn (cgrp c) (cst c) (idgen c) (nex c) v (bsent c) (timer c) (lastok c).
Definition bump_idgen (c : conn) : conn :=
  mkConn (cgrp c) (cst c) (wrap32 (idgen c + 1)) (nex c + 1) (cwire c) (bsent c) (timer c) (lastok c).
Definition add_bsent (c : conn) (k : Z) (r : rqid) : conn :=
  mkConn (cgrp c) (cst c) (idgen c) (nex c) (cwire c) ((k, r) :: bsent c) (timer c) (lastok c).

(* a fresh connection: connect() already used id 1 for its ApiVersions handshake *)
Definition fresh_conn (g : gid) : conn := mkConn g CLoop 1 1 [] [] false true.

Definition in_group (s : pstate) (g : gid) (c : cid) : bool := Nat.eqb (cgrp (cn s c)) g.

(* grabConn: the most recently released idle connection of the group *)
Fixpoint pop_group (s : pstate) (g : gid) (l : list cid) {struct l} : option (cid * list cid) :=
  match l with
  | [] => None
  | c :: l' =>
    if in_group s g c then Some (c, l')
    else match pop_group s g l' with
         | Some (c', l'') => Some (c', c :: l'')
         | None => None
         end
  end.

Fixpoint remove_cid (c : cid) (l : list cid) {struct l} : list cid :=
  match l with
  | [] => []
  | x :: l' => if Nat.eqb x c then remove_cid c l' else x :: remove_cid c l'
  end.

Definition mem (x : nat) (l : list nat) : bool := existsb (Nat.eqb x) l.

Fixpoint lookup_ord (k : Z) (l : list (Z * rqid)) {struct l} : option rqid :=
  match l with
  | [] => None
  | (k', r) :: l' => if k' =? k then Some r else lookup_ord k l'
  end.

(* closeIdleConns: close every idle connection of the group *)
Fixpoint close_all (s : pstate) (l : list cid) {struct l} : pstate :=
  match l with
  | [] => s
  | c :: l' => close_all (upd_conn s c (set_cst (cn s c) CClosed)) l'
  end.

Inductive plabel :=
| Grab (r : rqid) (g : gid)         (* grabConn: pop under the mutex, stop the timer *)
| Connect (r : rqid) (g : gid)      (* no idle conn: dial + handshake, go c.run *)
| ConnectFail (r : rqid)            (* dial / handshake / BrokerNotAvailable / ctx *)
| ConnectOrphan (r : rqid) (g : gid)(* ctx done while dialing: the fresh conn is released (or closed) *)
| HandOff (r : rqid)                (* c.reqs <- connRequest : rendez-vous with c.run *)
| CWrite (c : cid) (ok : bool)      (* idgen++, WriteRequest *)
| CNoRecord (c : cid)               (* WriteRequest fails with ErrNoRecord before any byte: reject, keep conn *)
| CNoResponse (c : cid)             (* hasResponse = false: written, resolve(nil) *)
| BAnswer (c : cid) (k : Z)         (* broker answers request number k of c (again) *)
| CRead (c : cid)                   (* ReadResponse + correlation check; resolve or reject+break *)
| CReadFail (c : cid)               (* time-out / EOF / cut / decode error: reject, break *)
| CRelease (c : cid)                (* releaseConn under the mutex, or break when the group is closed *)
| IdleTimer (c : cid)               (* the AfterFunc: removeConn, close if it was idle *)
| CloseIdle (g : gid)               (* closeIdleConns *)
| Await (r : rqid)                  (* <-p in async.await *)
| Cancel (r : rqid).                (* <-ctx.Done() in async.await; the result stays in the channel *)

Definition resolve (s : pstate) (r : rqid) (v : result) : pstate :=
  upd_req s r (mkReq (qph (rq s r)) (Some v)).

Definition release_or_close (s : pstate) (c : cid) : pstate :=
  let cc := cn s c in
  if mem (cgrp cc) (gclosed s)
  then upd_conn s c (set_cst cc CClosed)
  else upd_conn (set_idle s (c :: idle s)) c (set_timer (set_cst cc CLoop) true).

Definition pstep (s : pstate) (l : plabel) : option pstate :=
  match l with
  | Grab r g =>
    match qph (rq s r), pop_group s g (idle s) with
    | QIdle, Some (c, rest) =>
      Some (upd_req (upd_conn (set_idle s rest) c (set_timer (cn s c) false)) r
                    (mkReq (QHold c) None))
    | _, _ => None
    end
  | Connect r g =>
    match qph (rq s r), pop_group s g (idle s) with
    | QIdle, None =>
      let c := nconn s in
      Some (upd_req (upd_conn (bump_nconn s) c (fresh_conn g)) r (mkReq (QHold c) None))
    | _, _ => None
    end
  | ConnectFail r =>
    match qph (rq s r) with
    | QIdle => Some (upd_req s r (mkReq (QDone RErr) None))
    | _ => None
    end
  | ConnectOrphan r g =>
    match qph (rq s r), pop_group s g (idle s) with
    | QIdle, None =>
      let c := nconn s in
      let s1 := upd_conn (bump_nconn s) c (set_cst (fresh_conn g) CResolved) in
      Some (upd_req (release_or_close s1 c) r (mkReq (QDone RErr) None))
    | _, _ => None
    end
  | HandOff r =>
    match qph (rq s r) with
    | QHold c =>
      match cst (cn s c) with
      | CLoop => Some (upd_req (upd_conn s c (set_cst (cn s c) (CBusy r))) r (mkReq QAwait None))
      | _ => None     (* closed channel: the Go code would panic or block — see pool_exclusive *)
      end
    | _ => None
    end
  | CWrite c ok =>
    match cst (cn s c) with
    | CBusy r =>
      let c1 := bump_idgen (cn s c) in
      if ok then Some (upd_conn s c (set_cst (add_bsent c1 (nex c1) r) (CSent r (nex c1))))
      else Some (resolve (upd_conn s c (set_lastok (set_cst c1 CClosed) false)) r RErr)
    | _ => None
    end
  | CNoRecord c =>
    match cst (cn s c) with
    | CBusy r =>
      Some (resolve (upd_conn s c (set_cst (bump_idgen (cn s c)) CResolved)) r RErr)
    | _ => None
    end
  | CNoResponse c =>
    match cst (cn s c) with
    | CBusy r =>
      Some (resolve (upd_conn s c (set_lastok (set_cst (bump_idgen (cn s c)) CResolved) true)) r RNil)
    | _ => None
    end
  | BAnswer c k =>
    let cc := cn s c in
    match cst cc, lookup_ord k (bsent cc) with
    | CClosed, _ => None
    | _, Some r => Some (upd_conn s c (set_cwire cc (cwire cc ++ [mkFrame (wrap32 k) r])))
    | _, None => None
    end
  | CRead c =>
    let cc := cn s c in
    match cst cc, cwire cc with
    | CSent r k, f :: w =>
      if fid f =? wrap32 k
      then Some (resolve (upd_conn s c (set_lastok (set_cst (set_cwire cc w) CResolved) true)) r (RVal f))
      else Some (resolve (upd_conn s c (set_lastok (set_cst (set_cwire cc w) CClosed) false)) r RErr)
    | _, _ => None
    end
  | CReadFail c =>
    match cst (cn s c) with
    | CSent r k => Some (resolve (upd_conn s c (set_lastok (set_cst (cn s c) CClosed) false)) r RErr)
    | _ => None
    end
  | CRelease c =>
    match cst (cn s c) with
    | CResolved => Some (release_or_close s c)
    | _ => None
    end
  | IdleTimer c =>
    if timer (cn s c) then
      if mem c (idle s)
      then Some (upd_conn (set_idle s (remove_cid c (idle s))) c
                          (set_timer (set_cst (cn s c) CClosed) false))
      else Some (upd_conn s c (set_timer (cn s c) false))
    else None
  | CloseIdle g =>
    let mine := filter (in_group s g) (idle s) in
    let rest := filter (fun c => negb (in_group s g c)) (idle s) in
    Some (close_all (add_gclosed (set_idle s rest) g) mine)
  | Await r =>
    match qph (rq s r), prom (rq s r) with
    | QAwait, Some v => Some (upd_req s r (mkReq (QDone v) None))
    | _, _ => None
    end
  | Cancel r =>
    match qph (rq s r) with
    | QAwait => Some (upd_req s r (mkReq (QDone RErr) (prom (rq s r))))
    | _ => None
    end
  end.

Fixpoint prun (s : pstate) (ls : list plabel) {struct ls} : option pstate :=
  match ls with
  | [] => Some s
  | l :: ls' => match pstep s l with Some s' => prun s' ls' | None => None end
  end.

(* observable outcome of a RoundTrip call: 0 running, 1 value, 2 nil, 3 error *)
Definition q_outcome (q : req) : nat :=
  match qph q with
  | QDone (RVal _) => 1 | QDone RNil => 2 | QDone RErr => 3 | _ => 0
  end%nat.

(* the property's predicate: a delivered value is the caller's own *)
Definition q_own (r : rqid) (q : req) : bool :=
  match qph q with
  | QDone (RVal f) => Nat.eqb (fown f) r
  | _ => true
  end.

(* ------------------------------------------------------------------------------------
   Monitors on a recorded wire journal (harness op trlate).  These are the implementation-
   side counterparts of what the model guarantees (Proofs/TransportPoolOwn.v):
     mon_ids      ids of the requests of one connection are strictly increasing — the model
                  fact the own-response theorem RELIES on (C06_pool_ids_increasing: a
                  connection never uses an ordinal twice), together with the id check;
     mon_fail     a connection that carried a failed exchange carries no further request
                  (C06_pool_failed_conn_final: CClosed is absorbing) — NOT needed by the
                  own-response theorem (the model's broker may send stale frames anyway),
                  but it is the mechanism the property's anchors name;
     mon_delivery every value delivered to a call is the answer the broker computed for that
                  call's own request, and such an answer was written (the predicate q_own). *)
Record jreq := mkJreq { jq_conn : nat; jq_id : Z; jq_call : option nat }.
Record jans := mkJans { ja_conn : nat; ja_id : Z; ja_call : nat }.
Record jres := mkJres { jr_class : nat; jr_got : option nat }.   (* class 1 value / 2 nil / 3 error *)

Fixpoint assocZ (c : nat) (l : list (nat * Z)) {struct l} : option Z :=
  match l with
  | [] => None
  | (c', z) :: l' => if Nat.eqb c' c then Some z else assocZ c l'
  end.

Fixpoint mon_ids_from (seen : list (nat * Z)) (qs : list jreq) {struct qs} : bool :=
  match qs with
  | [] => true
  | q :: qs' =>
    match assocZ (jq_conn q) seen with
    | Some prev => prev <? jq_id q
    | None => true
    end && mon_ids_from ((jq_conn q, jq_id q) :: seen) qs'
  end.
Definition mon_ids (qs : list jreq) : bool := mon_ids_from [] qs.

Definition call_failed (res : list jres) (k : nat) : bool :=
  match nth_error res k with Some r => Nat.eqb (jr_class r) 3 | None => false end.

Definition same_call (k : nat) (q : jreq) : bool :=
  match jq_call q with Some k' => Nat.eqb k k' | None => false end.

(* the failed exchange of a failed call is the last request it put on the wire *)
Fixpoint mon_fail_from (dead : list nat) (res : list jres) (qs : list jreq) {struct qs} : bool :=
  match qs with
  | [] => true
  | q :: qs' =>
    negb (mem (jq_conn q) dead) &&
    mon_fail_from
      (match jq_call q with
       | Some k => if call_failed res k && negb (existsb (same_call k) qs') then jq_conn q :: dead else dead
       | None => dead
       end) res qs'
  end.
Definition mon_fail (res : list jres) (qs : list jreq) : bool := mon_fail_from [] res qs.

Fixpoint mon_delivery_from (i : nat) (res : list jres) (ans : list jans) {struct res} : bool :=
  match res with
  | [] => true
  | r :: res' =>
    (if Nat.eqb (jr_class r) 1
     then match jr_got r with
          | Some j => Nat.eqb j i && existsb (fun a => Nat.eqb (ja_call a) i) ans
          | None => false
          end
     else true) && mon_delivery_from (S i) res' ans
  end.
Definition mon_delivery (res : list jres) (ans : list jans) : bool := mon_delivery_from 0 res ans.

(* harness op trcut (the answer to call 0 is cut after k bytes; followers use the same
   connection group).  Result classes: 1 value / 2 nil / 3 error / 4 still running at the
   watchdog (hang) / 0 not run because an earlier call hung.
     mon_cut     call 0 ended with an error (never a message) and every follower with a
                 message: in the model a failed exchange closes the connection
                 (C06_pool_failure_closes), a closed connection is never idle nor held
                 (C06_pool_exclusive: held or idle => CLoop), so a follower's Grab / Connect
                 gives it a live connection and its hand-off is enabled;
     mon_nohang  every call returned. *)
Definition mon_cut (res : list jres) : bool :=
  match res with
  | [] => false
  | r0 :: rest => Nat.eqb (jr_class r0) 3 && forallb (fun r => Nat.eqb (jr_class r) 1) rest
  end.

Definition mon_nohang (res : list jres) : bool :=
  forallb (fun r => negb (Nat.eqb (jr_class r) 4) && negb (Nat.eqb (jr_class r) 0)) res.

(* ------------------------------------------------------------------------------------
   Split calls (transport.go connPool.roundTrip, the protocol.Splitter branch, and
   joined.await).  A call whose request is split into sub-requests m_0 .. m_{n-1} makes
       promises[i] = p.sendRequest(ctx, m_i, state)         for i = 0 .. n-1, in this order
       results[i]  = promises[i].await(ctx)                 (joined.await)
       merger.Merge(requests, results)                      with requests[i] = m_i
   so every sub-request is an ordinary requester of the pool and result i is, BY POSITION,
   the outcome of the requester that carries m_i.  [subs] lists these requesters in request
   order; [split_results] is the [results] slice handed to Merge.  The mergers rely on this
   alignment (listoffsets.Response.Merge relabels the timestamps of result i from request i,
   listgroups.Response.Merge labels the groups of result i with the broker of request i). *)
Definition sub_result (s : pstate) (r : rqid) : option result :=
  match qph (rq s r) with QDone v => Some v | _ => None end.

Definition split_results (s : pstate) (subs : list rqid) : list (option result) :=
  map (sub_result s) subs.

(* harness op trsplit: questions (k1, k2) asked by one split call, the (question, answer)
   pairs the broker produced, the (question, answer) pairs delivered to the caller.
     mon_split   every question has exactly one delivered answer and it is an answer the
                 broker produced for THAT question; nothing else is delivered. *)
Record qa := mkQa { qa_k1 : Z; qa_k2 : Z; qa_val : Z }.

Definition same_q (k1 k2 : Z) (a : qa) : bool := (qa_k1 a =? k1) && (qa_k2 a =? k2).
Definition qa_eqb (a b : qa) : bool :=
  (qa_k1 a =? qa_k1 b) && (qa_k2 a =? qa_k2 b) && (qa_val a =? qa_val b).

Definition mon_split (asked : list (Z * Z)) (broker delivered : list qa) : bool :=
  Nat.eqb (length delivered) (length asked) &&
  forallb (fun q =>
     match filter (same_q (fst q) (snd q)) delivered with
     | [d] => existsb (qa_eqb d) broker
     | _ => false
     end) asked.

(* harness op trpage: per call, the number of bytes it read from its response that are not the
   bytes the broker sent for ITS request (cross-talk through the shared page pool of the
   protocol package; the page reference counting itself is property C05's model).
     mon_pure    no call read a foreign byte. *)
Definition mon_pure (foreign : list Z) : bool := forallb (Z.eqb 0) foreign.

(* harness op trmeta: the first metadata response of a fresh pool is cut; afterwards the pool
   must recover on a new connection.
     mon_recover  Client.Metadata succeeded within the time bound, Writer.WriteMessages
                  succeeded, and the broker received the record exactly once. *)
Definition mon_recover (meta_ok write_ok : bool) (count : nat) : bool :=
  meta_ok && write_ok && Nat.eqb count 1.
