(* Model/RoutingSkeleton.v — the synchronisation-skeleton assumption of the pool reference count
   of Model/Routing.v (rpool): T13, "every exit of Transport.grabPool that returns a pool has taken
   a reference", as a boolean over the call facts harness/cmd/vskel extracts from /repo's current
   source (Gen/Skeleton.v).  vskel emits the return statements of Transport.grabPool as call
   facts "return(Transport.grabPool)" with their lockset, the fields written and the calls
   executed earlier on every path (k_after) / possibly earlier (k_maybe).  Definitions only.

   The three exits of grabPool and what each must have done:
   - under the write lock, pool found by the re-check: p.ref() on every path to the return;
   - under the write lock, pool created: t.pools and p.ctrl written on every path (the pool is
     constructed here with refc: 2 -- one reference for the registry, one for the caller);
   - no lock held (the fast path): the reference is taken under the read lock inside
     `if p != nil`, the same test guards the return; statically: p.ref() possibly earlier and
     one p.ref() call made holding the read lock. *)
From Coq Require Import List String Bool.
From KV Require Import Model.DRF.
Import ListNotations.
Open Scope string_scope.

Definition is_grab_return (c : call_fact) : bool :=
  String.eqb (k_caller c) "Transport.grabPool" && String.eqb (k_callee c) "return(Transport.grabPool)".

Definition grab_return_ok (c : call_fact) : bool :=
  if has_lock "Transport.mutex" MW (k_locks c)
  then str_in "connPool.ref" (k_after c)
       || (str_in "Transport.pools" (k_written c) && str_in "connPool.ctrl" (k_written c))
  else negb (has_lock "Transport.mutex" MR (k_locks c)) && str_in "connPool.ref" (k_maybe c).

Definition is_grab_ref (m : lmode) (c : call_fact) : bool :=
  String.eqb (k_caller c) "Transport.grabPool" && String.eqb (k_callee c) "connPool.ref"
  && has_lock "Transport.mutex" m (k_locks c).

(* T13 *)
Definition pool_reference_assumption_holds (calls : list call_fact) : bool :=
  existsb is_grab_return calls
  && forallb (fun c => negb (is_grab_return c) || grab_return_ok c) calls
  && existsb (is_grab_ref MR) calls
  && existsb (is_grab_ref MW) calls.

Definition pool_reference_offenders (calls : list call_fact) : list (string * string) :=
  map (fun c => (k_callee c, k_pos c)) (filter (fun c => is_grab_return c && negb (grab_return_ok c)) calls).
