(* Model/Policy.v — C10: the hand-written protection policy of kafka-go's goroutine-safe types.
   One entry per field of the listed types (and per package-level variable that is written
   after package initialisation).  Checked kinds: GuardedBy, RGuardedBy, AtomicOnly,
   WriteOnceBeforePublish.  Trusted kinds (accepted without a static check, exercised by
   the race-detector runs of harness/cmd/c10): HandedOff, Confined, SelfSynchronised,
   LockTransferred.  A field without an entry makes C10_current_discipline fail.
   Definitions only. *)
From Coq Require Import List String.
From KV Require Import Model.DRF.
Import ListNotations.
Open Scope string_scope.

(* the types whose exported methods must all be seen by the translator *)
Definition listed_types : list string := [
  "Conn";
  "Batch";
  "Writer";
  "Reader";
  "Transport";
  "Client";
  "RoundRobin";
  "LeastBytes";
  "Hash";
  "ReferenceHash";
  "CRC32Balancer";
  "Murmur2Balancer";
  "gzip.Codec";
  "snappy.Codec";
  "lz4.Codec";
  "zstd.Codec";
  "partitionWriter";
  "writeBatch";
  "batchQueue";
  "reader";
  "connPool";
  "connGroup";
  "conn";
  "protocol.pageBuffer";
  "protocol.pageRef"
].

Definition kafka : policy := [
  (* ---- Conn *)
  ("Conn", "conn", WriteOnceBeforePublish);   (* net.Conn *)
  ("Conn", "inflight", AtomicOnly);   (* int32 *)
  ("Conn", "mutex", SelfSynchronised);   (* sync.Mutex; no direct access *)
  ("Conn", "offset", GuardedBy "Conn.mutex");   (* int64; known exception F7-conn-offset-unlocked-read *)
  ("Conn", "rlock", SelfSynchronised);   (* sync.Mutex; sync.Mutex; its address is returned by waitResponse *)
  ("Conn", "rbuf", LockTransferred "Conn.rlock");   (* bufio.Reader; rlock is taken in waitResponse and released by the caller through the returned *sync.Mutex (Conn.do, ApiVersions, Batch.close) *)
  ("Conn", "wlock", SelfSynchronised);   (* sync.Mutex; no direct access *)
  ("Conn", "wbuf", GuardedBy "Conn.wlock");   (* bufio.Writer *)
  ("Conn", "wb", GuardedBy "Conn.wlock");   (* kafka.writeBuffer; reviewed site: saslAuthenticate v0 fallback, during dial *)
  ("Conn", "wdeadline", SelfSynchronised);   (* kafka.connDeadline; connDeadline has its own mutex; its fields are checked *)
  ("Conn", "rdeadline", SelfSynchronised);   (* kafka.connDeadline; connDeadline has its own mutex; its fields are checked *)
  ("Conn", "clientID", WriteOnceBeforePublish);   (* string *)
  ("Conn", "topic", WriteOnceBeforePublish);   (* string *)
  ("Conn", "partition", WriteOnceBeforePublish);   (* int32 *)
  ("Conn", "fetchMaxBytes", WriteOnceBeforePublish);   (* int32 *)
  ("Conn", "fetchMinSize", WriteOnceBeforePublish);   (* int32 *)
  ("Conn", "broker", WriteOnceBeforePublish);   (* int32 *)
  ("Conn", "rack", WriteOnceBeforePublish);   (* string *)
  ("Conn", "correlationID", GuardedBy "Conn.wlock");   (* int32 *)
  ("Conn", "requiredAcks", AtomicOnly);   (* int32 *)
  ("Conn", "apiVersions", AtomicOnly);   (* atomic.Value *)
  ("Conn", "transactionalID", WriteOnceBeforePublish);   (* *string *)
  (* ---- connDeadline *)
  ("connDeadline", "mutex", SelfSynchronised);   (* sync.Mutex; no direct access *)
  ("connDeadline", "value", GuardedBy "connDeadline.mutex");   (* time.Time *)
  ("connDeadline", "rconn", GuardedBy "connDeadline.mutex");   (* net.Conn *)
  ("connDeadline", "wconn", GuardedBy "connDeadline.mutex");   (* net.Conn *)
  (* ---- Batch *)
  ("Batch", "mutex", SelfSynchronised);   (* sync.Mutex; no direct access *)
  ("Batch", "conn", GuardedBy "Batch.mutex");   (* *kafka.Conn *)
  ("Batch", "lock", GuardedBy "Batch.mutex");   (* *sync.Mutex *)
  ("Batch", "msgs", WriteOnceBeforePublish);   (* *kafka.messageSetReader *)
  ("Batch", "deadline", WriteOnceBeforePublish);   (* time.Time *)
  ("Batch", "throttle", WriteOnceBeforePublish);   (* time.Duration *)
  ("Batch", "topic", WriteOnceBeforePublish);   (* string *)
  ("Batch", "partition", WriteOnceBeforePublish);   (* int *)
  ("Batch", "offset", GuardedBy "Batch.mutex");   (* int64 *)
  ("Batch", "highWaterMark", WriteOnceBeforePublish);   (* int64 *)
  ("Batch", "err", GuardedBy "Batch.mutex");   (* error; known exception F7-batch-err-unlocked-read *)
  ("Batch", "lastOffset", GuardedBy "Batch.mutex");   (* int64 *)
  (* ---- Writer *)
  ("Writer", "Addr", WriteOnceBeforePublish);   (* net.Addr *)
  ("Writer", "Topic", WriteOnceBeforePublish);   (* string *)
  ("Writer", "Balancer", WriteOnceBeforePublish);   (* kafka.Balancer *)
  ("Writer", "MaxAttempts", WriteOnceBeforePublish);   (* int *)
  ("Writer", "WriteBackoffMin", WriteOnceBeforePublish);   (* time.Duration *)
  ("Writer", "WriteBackoffMax", WriteOnceBeforePublish);   (* time.Duration *)
  ("Writer", "BatchSize", WriteOnceBeforePublish);   (* int *)
  ("Writer", "BatchBytes", WriteOnceBeforePublish);   (* int64 *)
  ("Writer", "BatchTimeout", WriteOnceBeforePublish);   (* time.Duration *)
  ("Writer", "ReadTimeout", WriteOnceBeforePublish);   (* time.Duration *)
  ("Writer", "WriteTimeout", WriteOnceBeforePublish);   (* time.Duration *)
  ("Writer", "RequiredAcks", WriteOnceBeforePublish);   (* kafka.RequiredAcks *)
  ("Writer", "Async", WriteOnceBeforePublish);   (* bool *)
  ("Writer", "Completion", WriteOnceBeforePublish);   (* func(messages []kafka.Message, err error) *)
  ("Writer", "Compression", WriteOnceBeforePublish);   (* kafka.Compression *)
  ("Writer", "Logger", WriteOnceBeforePublish);   (* kafka.Logger *)
  ("Writer", "ErrorLogger", WriteOnceBeforePublish);   (* kafka.Logger *)
  ("Writer", "Transport", WriteOnceBeforePublish);   (* kafka.RoundTripper *)
  ("Writer", "AllowAutoTopicCreation", WriteOnceBeforePublish);   (* bool *)
  ("Writer", "group", AtomicOnly);   (* sync.WaitGroup *)
  ("Writer", "mutex", SelfSynchronised);   (* sync.Mutex; no direct access *)
  ("Writer", "closed", GuardedBy "Writer.mutex");   (* bool *)
  ("Writer", "writers", GuardedBy "Writer.mutex");   (* map[kafka.topicPartition]*kafka.partitionWriter *)
  ("Writer", "once", AtomicOnly);   (* sync.Once *)
  ("Writer", "writerStats", SelfSynchronised);   (* *kafka.writerStats; allocated inside w.once.Do, read after Do returned (sync.Once edge) *)
  ("Writer", "roundRobin", SelfSynchronised);   (* kafka.RoundRobin; a RoundRobin value (own mutex) whose address is handed out as the default Balancer *)
  ("Writer", "transport", WriteOnceBeforePublish);   (* *kafka.Transport *)
  (* ---- partitionWriter *)
  ("partitionWriter", "meta", WriteOnceBeforePublish);   (* kafka.topicPartition *)
  ("partitionWriter", "queue", SelfSynchronised);   (* kafka.batchQueue; no direct access *)
  ("partitionWriter", "mutex", SelfSynchronised);   (* sync.Mutex; no direct access *)
  ("partitionWriter", "currBatch", GuardedBy "partitionWriter.mutex");   (* *kafka.writeBatch *)
  ("partitionWriter", "w", WriteOnceBeforePublish);   (* *kafka.Writer *)
  (* ---- writeBatch *)
  ("writeBatch", "time", WriteOnceBeforePublish);   (* time.Time *)
  ("writeBatch", "msgs", HandedOff "writeBatch.ready");   (* []kafka.Message; appended under partitionWriter.mutex until trigger() closes ready / the batch is queued; then owned by the writeBatches goroutine *)
  ("writeBatch", "size", GuardedBy "partitionWriter.mutex");   (* int *)
  ("writeBatch", "bytes", HandedOff "writeBatch.ready");   (* int64; as msgs *)
  ("writeBatch", "ready", WriteOnceBeforePublish);   (* chan struct{} *)
  ("writeBatch", "done", WriteOnceBeforePublish);   (* chan struct{} *)
  ("writeBatch", "timer", WriteOnceBeforePublish);   (* *time.Timer *)
  ("writeBatch", "err", HandedOff "writeBatch.done");   (* error; written by complete() before close(done), read after <-done *)
  (* ---- batchQueue *)
  ("batchQueue", "queue", LockTransferred "batchQueue.mutex");   (* []*kafka.writeBatch; locked through b.cond.L (a sync.Locker interface holding b.mutex) *)
  ("batchQueue", "mutex", WriteOnceBeforePublish);   (* *sync.Mutex; no access outside construction *)
  ("batchQueue", "cond", WriteOnceBeforePublish);   (* *sync.Cond *)
  ("batchQueue", "closed", LockTransferred "batchQueue.mutex");   (* bool; as queue *)
  (* ---- writerStats *)
  ("writerStats", "dials", SelfSynchronised);   (* kafka.counter; kafka.counter: int64 updated only through sync/atomic in its methods *)
  ("writerStats", "writes", SelfSynchronised);   (* kafka.counter; kafka.counter: int64 updated only through sync/atomic in its methods *)
  ("writerStats", "messages", SelfSynchronised);   (* kafka.counter; kafka.counter: int64 updated only through sync/atomic in its methods *)
  ("writerStats", "bytes", SelfSynchronised);   (* kafka.counter; kafka.counter: int64 updated only through sync/atomic in its methods *)
  ("writerStats", "errors", SelfSynchronised);   (* kafka.counter; kafka.counter: int64 updated only through sync/atomic in its methods *)
  ("writerStats", "dialTime", SelfSynchronised);   (* kafka.summary; no direct access *)
  ("writerStats", "batchTime", SelfSynchronised);   (* kafka.summary; no direct access *)
  ("writerStats", "batchQueueTime", SelfSynchronised);   (* kafka.summary; no direct access *)
  ("writerStats", "writeTime", SelfSynchronised);   (* kafka.summary; no direct access *)
  ("writerStats", "waitTime", SelfSynchronised);   (* kafka.summary; no direct access *)
  ("writerStats", "retries", SelfSynchronised);   (* kafka.counter; kafka.counter: int64 updated only through sync/atomic in its methods *)
  ("writerStats", "batchSize", SelfSynchronised);   (* kafka.summary; no direct access *)
  ("writerStats", "batchSizeBytes", SelfSynchronised);   (* kafka.summary; no direct access *)
  (* ---- Reader *)
  ("Reader", "config", WriteOnceBeforePublish);   (* kafka.ReaderConfig *)
  ("Reader", "msgs", WriteOnceBeforePublish);   (* chan kafka.readerMessage *)
  ("Reader", "mutex", SelfSynchronised);   (* sync.Mutex; no direct access *)
  ("Reader", "join", SelfSynchronised);   (* sync.WaitGroup; sync.WaitGroup *)
  ("Reader", "cancel", GuardedBy "Reader.mutex");   (* context.CancelFunc; known exception F7-reader-cancel-unlocked-read; reviewed site Reader.Close *)
  ("Reader", "stop", WriteOnceBeforePublish);   (* context.CancelFunc *)
  ("Reader", "done", WriteOnceBeforePublish);   (* chan struct{} *)
  ("Reader", "commits", WriteOnceBeforePublish);   (* chan kafka.commitRequest *)
  ("Reader", "version", GuardedBy "Reader.mutex");   (* int64; known exception F7-reader-version-unlocked-read *)
  ("Reader", "offset", GuardedBy "Reader.mutex");   (* int64 *)
  ("Reader", "lag", GuardedBy "Reader.mutex");   (* int64 *)
  ("Reader", "closed", GuardedBy "Reader.mutex");   (* bool *)
  ("Reader", "runError", WriteOnceBeforePublish);   (* chan error *)
  ("Reader", "once", AtomicOnly);   (* uint32 *)
  ("Reader", "stctx", WriteOnceBeforePublish);   (* context.Context *)
  ("Reader", "stats", WriteOnceBeforePublish);   (* *kafka.readerStats *)
  (* ---- reader *)
  ("reader", "dialer", WriteOnceBeforePublish);   (* *kafka.Dialer *)
  ("reader", "logger", WriteOnceBeforePublish);   (* kafka.Logger *)
  ("reader", "errorLogger", WriteOnceBeforePublish);   (* kafka.Logger *)
  ("reader", "brokers", WriteOnceBeforePublish);   (* []string *)
  ("reader", "topic", WriteOnceBeforePublish);   (* string *)
  ("reader", "partition", WriteOnceBeforePublish);   (* int *)
  ("reader", "minBytes", WriteOnceBeforePublish);   (* int *)
  ("reader", "maxBytes", WriteOnceBeforePublish);   (* int *)
  ("reader", "maxWait", WriteOnceBeforePublish);   (* time.Duration *)
  ("reader", "readBatchTimeout", WriteOnceBeforePublish);   (* time.Duration *)
  ("reader", "backoffDelayMin", WriteOnceBeforePublish);   (* time.Duration *)
  ("reader", "backoffDelayMax", WriteOnceBeforePublish);   (* time.Duration *)
  ("reader", "version", WriteOnceBeforePublish);   (* int64 *)
  ("reader", "msgs", WriteOnceBeforePublish);   (* chan<- kafka.readerMessage *)
  ("reader", "stats", WriteOnceBeforePublish);   (* *kafka.readerStats *)
  ("reader", "isolationLevel", WriteOnceBeforePublish);   (* kafka.IsolationLevel *)
  ("reader", "maxAttempts", WriteOnceBeforePublish);   (* int *)
  ("reader", "offsetOutOfRangeError", WriteOnceBeforePublish);   (* bool *)
  (* ---- readerStats *)
  ("readerStats", "dials", SelfSynchronised);   (* kafka.counter; kafka.counter: int64 updated only through sync/atomic in its methods *)
  ("readerStats", "fetches", SelfSynchronised);   (* kafka.counter; kafka.counter: int64 updated only through sync/atomic in its methods *)
  ("readerStats", "messages", SelfSynchronised);   (* kafka.counter; kafka.counter: int64 updated only through sync/atomic in its methods *)
  ("readerStats", "bytes", SelfSynchronised);   (* kafka.counter; kafka.counter: int64 updated only through sync/atomic in its methods *)
  ("readerStats", "rebalances", SelfSynchronised);   (* kafka.counter; kafka.counter: int64 updated only through sync/atomic in its methods *)
  ("readerStats", "timeouts", SelfSynchronised);   (* kafka.counter; kafka.counter: int64 updated only through sync/atomic in its methods *)
  ("readerStats", "errors", SelfSynchronised);   (* kafka.counter; kafka.counter: int64 updated only through sync/atomic in its methods *)
  ("readerStats", "dialTime", SelfSynchronised);   (* kafka.summary; no direct access *)
  ("readerStats", "readTime", SelfSynchronised);   (* kafka.summary; no direct access *)
  ("readerStats", "waitTime", SelfSynchronised);   (* kafka.summary; no direct access *)
  ("readerStats", "fetchSize", SelfSynchronised);   (* kafka.summary; no direct access *)
  ("readerStats", "fetchBytes", SelfSynchronised);   (* kafka.summary; no direct access *)
  ("readerStats", "offset", SelfSynchronised);   (* kafka.gauge; kafka.gauge: int64 updated only through sync/atomic in its methods *)
  ("readerStats", "lag", SelfSynchronised);   (* kafka.gauge; kafka.gauge: int64 updated only through sync/atomic in its methods *)
  ("readerStats", "partition", WriteOnceBeforePublish);   (* string *)
  (* ---- Transport *)
  ("Transport", "Dial", WriteOnceBeforePublish);   (* func(context.Context, string, string) (net.Conn, error) *)
  ("Transport", "DialTimeout", WriteOnceBeforePublish);   (* time.Duration *)
  ("Transport", "IdleTimeout", WriteOnceBeforePublish);   (* time.Duration *)
  ("Transport", "MetadataTTL", WriteOnceBeforePublish);   (* time.Duration *)
  ("Transport", "MetadataTopics", WriteOnceBeforePublish);   (* []string *)
  ("Transport", "ClientID", WriteOnceBeforePublish);   (* string *)
  ("Transport", "TLS", WriteOnceBeforePublish);   (* *tls.Config *)
  ("Transport", "SASL", WriteOnceBeforePublish);   (* sasl.Mechanism *)
  ("Transport", "Resolver", WriteOnceBeforePublish);   (* kafka.BrokerResolver *)
  ("Transport", "Context", WriteOnceBeforePublish);   (* context.Context *)
  ("Transport", "mutex", SelfSynchronised);   (* sync.RWMutex; no direct access *)
  ("Transport", "pools", RGuardedBy "Transport.mutex");   (* map[kafka.networkAddress]*kafka.connPool *)
  (* ---- connPool *)
  ("connPool", "refc", AtomicOnly);   (* uintptr *)
  ("connPool", "dial", WriteOnceBeforePublish);   (* func(context.Context, string, string) (net.Conn, error) *)
  ("connPool", "dialTimeout", WriteOnceBeforePublish);   (* time.Duration *)
  ("connPool", "idleTimeout", WriteOnceBeforePublish);   (* time.Duration *)
  ("connPool", "metadataTTL", WriteOnceBeforePublish);   (* time.Duration *)
  ("connPool", "metadataTopics", WriteOnceBeforePublish);   (* []string *)
  ("connPool", "clientID", WriteOnceBeforePublish);   (* string *)
  ("connPool", "tls", WriteOnceBeforePublish);   (* *tls.Config *)
  ("connPool", "sasl", WriteOnceBeforePublish);   (* sasl.Mechanism *)
  ("connPool", "resolver", WriteOnceBeforePublish);   (* kafka.BrokerResolver *)
  ("connPool", "once", AtomicOnly);   (* sync.Once *)
  ("connPool", "ready", WriteOnceBeforePublish);   (* kafka.event *)
  ("connPool", "wake", WriteOnceBeforePublish);   (* chan kafka.event *)
  ("connPool", "cancel", WriteOnceBeforePublish);   (* context.CancelFunc *)
  ("connPool", "mutex", SelfSynchronised);   (* sync.RWMutex; no direct access *)
  ("connPool", "conns", RGuardedBy "connPool.mutex");   (* map[int32]*kafka.connGroup *)
  ("connPool", "ctrl", WriteOnceBeforePublish);   (* *kafka.connGroup; reviewed site: assigned in Transport.grabPool before the pool is stored in t.pools *)
  ("connPool", "state", AtomicOnly);   (* atomic.Value *)
  (* ---- connPoolState *)
  ("connPoolState", "metadata", WriteOnceBeforePublish);   (* *metadata.Response; no access outside construction *)
  ("connPoolState", "err", WriteOnceBeforePublish);   (* error; no access outside construction *)
  ("connPoolState", "layout", WriteOnceBeforePublish);   (* protocol.Cluster; no access outside construction *)
  (* ---- connGroup *)
  ("connGroup", "addr", WriteOnceBeforePublish);   (* net.Addr *)
  ("connGroup", "broker", WriteOnceBeforePublish);   (* kafka.Broker *)
  ("connGroup", "pool", WriteOnceBeforePublish);   (* *kafka.connPool *)
  ("connGroup", "mutex", SelfSynchronised);   (* sync.Mutex; no direct access *)
  ("connGroup", "closed", GuardedBy "connGroup.mutex");   (* bool *)
  ("connGroup", "idleConns", GuardedBy "connGroup.mutex");   (* []*kafka.conn *)
  (* ---- conn *)
  ("conn", "reqs", WriteOnceBeforePublish);   (* chan<- kafka.connRequest *)
  ("conn", "network", WriteOnceBeforePublish);   (* string *)
  ("conn", "address", WriteOnceBeforePublish);   (* string *)
  ("conn", "once", AtomicOnly);   (* sync.Once *)
  ("conn", "group", WriteOnceBeforePublish);   (* *kafka.connGroup *)
  ("conn", "timer", GuardedBy "connGroup.mutex");   (* *time.Timer *)
  (* ---- Client *)
  ("Client", "Addr", WriteOnceBeforePublish);   (* net.Addr *)
  ("Client", "Timeout", WriteOnceBeforePublish);   (* time.Duration *)
  ("Client", "Transport", WriteOnceBeforePublish);   (* kafka.RoundTripper *)
  (* ---- RoundRobin *)
  ("RoundRobin", "ChunkSize", GuardedBy "RoundRobin.mutex");   (* int *)
  ("RoundRobin", "counter", GuardedBy "RoundRobin.mutex");   (* uint64 *)
  ("RoundRobin", "mutex", SelfSynchronised);   (* sync.Mutex; no direct access *)
  (* ---- LeastBytes *)
  ("LeastBytes", "mutex", SelfSynchronised);   (* sync.Mutex; no direct access *)
  ("LeastBytes", "counters", GuardedBy "LeastBytes.mutex");   (* []kafka.leastBytesCounter *)
  (* ---- leastBytesCounter *)
  ("leastBytesCounter", "partition", GuardedBy "LeastBytes.mutex");   (* int *)
  ("leastBytesCounter", "bytes", GuardedBy "LeastBytes.mutex");   (* uint64 *)
  (* ---- Hash *)
  ("Hash", "rr", SelfSynchronised);   (* kafka.RoundRobin; no direct access *)
  ("Hash", "Hasher", WriteOnceBeforePublish);   (* hash.Hash32 *)
  ("Hash", "lock", SelfSynchronised);   (* sync.Mutex; no direct access *)
  (* ---- ReferenceHash *)
  ("ReferenceHash", "rr", WriteOnceBeforePublish);   (* kafka.randomBalancer *)
  ("ReferenceHash", "Hasher", WriteOnceBeforePublish);   (* hash.Hash32 *)
  ("ReferenceHash", "lock", SelfSynchronised);   (* sync.Mutex; no direct access *)
  (* ---- randomBalancer *)
  ("randomBalancer", "mock", WriteOnceBeforePublish);   (* int; no access outside construction *)
  (* ---- CRC32Balancer *)
  ("CRC32Balancer", "Consistent", WriteOnceBeforePublish);   (* bool; no access outside construction *)
  ("CRC32Balancer", "random", SelfSynchronised);   (* kafka.randomBalancer; no direct access *)
  (* ---- Murmur2Balancer *)
  ("Murmur2Balancer", "Consistent", WriteOnceBeforePublish);   (* bool; no access outside construction *)
  ("Murmur2Balancer", "random", SelfSynchronised);   (* kafka.randomBalancer; no direct access *)
  (* ---- summary *)
  ("summary", "min", SelfSynchronised);   (* kafka.minimum; kafka.minimum: int64 updated only through sync/atomic in its methods *)
  ("summary", "max", SelfSynchronised);   (* kafka.maximum; kafka.maximum: int64 updated only through sync/atomic in its methods *)
  ("summary", "sum", SelfSynchronised);   (* kafka.counter; kafka.counter: int64 updated only through sync/atomic in its methods *)
  ("summary", "count", SelfSynchronised);   (* kafka.counter; kafka.counter: int64 updated only through sync/atomic in its methods *)
  (* ---- gzip.Codec *)
  ("gzip.Codec", "Level", WriteOnceBeforePublish);   (* int *)
  ("gzip.Codec", "writerPool", AtomicOnly);   (* sync.Pool *)
  (* ---- gzip.reader *)
  ("gzip.reader", "Reader", Confined);   (* *gzip.Reader; a reader/writer obtained from Codec.NewReader/NewWriter belongs to its caller; recycled through a sync.Pool *)
  (* ---- gzip.writer *)
  ("gzip.writer", "codec", Confined);   (* *gzip.Codec; a reader/writer obtained from Codec.NewReader/NewWriter belongs to its caller; recycled through a sync.Pool *)
  ("gzip.writer", "Writer", Confined);   (* *gzip.Writer; a reader/writer obtained from Codec.NewReader/NewWriter belongs to its caller; recycled through a sync.Pool *)
  (* ---- lz4.reader *)
  ("lz4.reader", "Reader", Confined);   (* *lz4.Reader; a reader/writer obtained from Codec.NewReader/NewWriter belongs to its caller; recycled through a sync.Pool *)
  (* ---- lz4.writer *)
  ("lz4.writer", "Writer", Confined);   (* *lz4.Writer; a reader/writer obtained from Codec.NewReader/NewWriter belongs to its caller; recycled through a sync.Pool *)
  (* ---- snappy.Codec *)
  ("snappy.Codec", "Framing", WriteOnceBeforePublish);   (* snappy.Framing *)
  ("snappy.Codec", "Compression", WriteOnceBeforePublish);   (* snappy.Compression *)
  (* ---- snappy.reader *)
  ("snappy.reader", "xerialReader", Confined);   (* *snappy.xerialReader; a reader/writer obtained from Codec.NewReader/NewWriter belongs to its caller; recycled through a sync.Pool *)
  (* ---- snappy.writer *)
  ("snappy.writer", "xerialWriter", Confined);   (* *snappy.xerialWriter; a reader/writer obtained from Codec.NewReader/NewWriter belongs to its caller; recycled through a sync.Pool *)
  (* ---- snappy.xerialReader *)
  ("snappy.xerialReader", "reader", Confined);   (* io.Reader; a reader/writer obtained from Codec.NewReader/NewWriter belongs to its caller; recycled through a sync.Pool *)
  ("snappy.xerialReader", "header", Confined);   (* [16]byte; a reader/writer obtained from Codec.NewReader/NewWriter belongs to its caller; recycled through a sync.Pool *)
  ("snappy.xerialReader", "input", Confined);   (* []byte; a reader/writer obtained from Codec.NewReader/NewWriter belongs to its caller; recycled through a sync.Pool *)
  ("snappy.xerialReader", "output", Confined);   (* []byte; a reader/writer obtained from Codec.NewReader/NewWriter belongs to its caller; recycled through a sync.Pool *)
  ("snappy.xerialReader", "offset", Confined);   (* int64; a reader/writer obtained from Codec.NewReader/NewWriter belongs to its caller; recycled through a sync.Pool *)
  ("snappy.xerialReader", "nbytes", Confined);   (* int64; a reader/writer obtained from Codec.NewReader/NewWriter belongs to its caller; recycled through a sync.Pool *)
  ("snappy.xerialReader", "decode", Confined);   (* func([]byte, []byte) ([]byte, error); a reader/writer obtained from Codec.NewReader/NewWriter belongs to its caller; recycled through a sync.Pool *)
  (* ---- snappy.xerialWriter *)
  ("snappy.xerialWriter", "writer", Confined);   (* io.Writer; a reader/writer obtained from Codec.NewReader/NewWriter belongs to its caller; recycled through a sync.Pool *)
  ("snappy.xerialWriter", "header", Confined);   (* [16]byte; a reader/writer obtained from Codec.NewReader/NewWriter belongs to its caller; recycled through a sync.Pool *)
  ("snappy.xerialWriter", "input", Confined);   (* []byte; a reader/writer obtained from Codec.NewReader/NewWriter belongs to its caller; recycled through a sync.Pool *)
  ("snappy.xerialWriter", "output", Confined);   (* []byte; a reader/writer obtained from Codec.NewReader/NewWriter belongs to its caller; recycled through a sync.Pool *)
  ("snappy.xerialWriter", "nbytes", Confined);   (* int64; a reader/writer obtained from Codec.NewReader/NewWriter belongs to its caller; recycled through a sync.Pool *)
  ("snappy.xerialWriter", "framed", Confined);   (* bool; a reader/writer obtained from Codec.NewReader/NewWriter belongs to its caller; recycled through a sync.Pool *)
  ("snappy.xerialWriter", "encode", Confined);   (* func([]byte, []byte) []byte; a reader/writer obtained from Codec.NewReader/NewWriter belongs to its caller; recycled through a sync.Pool *)
  (* ---- zstd.Codec *)
  ("zstd.Codec", "Level", WriteOnceBeforePublish);   (* int *)
  ("zstd.Codec", "encoderPool", AtomicOnly);   (* sync.Pool *)
  (* ---- zstd.reader *)
  ("zstd.reader", "dec", Confined);   (* *zstd.Decoder; a reader/writer obtained from Codec.NewReader/NewWriter belongs to its caller; recycled through a sync.Pool *)
  ("zstd.reader", "err", Confined);   (* error; a reader/writer obtained from Codec.NewReader/NewWriter belongs to its caller; recycled through a sync.Pool *)
  (* ---- zstd.writer *)
  ("zstd.writer", "c", Confined);   (* *zstd.Codec; a reader/writer obtained from Codec.NewReader/NewWriter belongs to its caller; recycled through a sync.Pool *)
  ("zstd.writer", "enc", Confined);   (* *zstd.Encoder; a reader/writer obtained from Codec.NewReader/NewWriter belongs to its caller; recycled through a sync.Pool *)
  ("zstd.writer", "err", Confined);   (* error; a reader/writer obtained from Codec.NewReader/NewWriter belongs to its caller; recycled through a sync.Pool *)
  (* ---- protocol.pageBuffer *)
  ("protocol.pageBuffer", "refc", SelfSynchronised);   (* protocol.refCount; refCount: atomic reference counter type *)
  ("protocol.pageBuffer", "pages", Confined);   (* protocol.contiguousPages; page buffers are used by one goroutine; shared pages are immutable once referenced *)
  ("protocol.pageBuffer", "length", Confined);   (* int; page buffers are used by one goroutine; shared pages are immutable once referenced *)
  ("protocol.pageBuffer", "cursor", Confined);   (* int; page buffers are used by one goroutine; shared pages are immutable once referenced *)
  (* ---- protocol.page *)
  ("protocol.page", "refc", SelfSynchronised);   (* protocol.refCount; refCount: atomic reference counter type *)
  ("protocol.page", "offset", Confined);   (* int64; page buffers are used by one goroutine; shared pages are immutable once referenced *)
  ("protocol.page", "length", Confined);   (* int; page buffers are used by one goroutine; shared pages are immutable once referenced *)
  ("protocol.page", "buffer", Confined);   (* *[65536]byte; page buffers are used by one goroutine; shared pages are immutable once referenced *)
  (* ---- protocol.pageRef *)
  ("protocol.pageRef", "buffer", Confined);   (* [2]*protocol.page; page buffers are used by one goroutine; shared pages are immutable once referenced *)
  ("protocol.pageRef", "pages", Confined);   (* protocol.contiguousPages; page buffers are used by one goroutine; shared pages are immutable once referenced *)
  ("protocol.pageRef", "offset", Confined);   (* int64; page buffers are used by one goroutine; shared pages are immutable once referenced *)
  ("protocol.pageRef", "cursor", Confined);   (* int64; page buffers are used by one goroutine; shared pages are immutable once referenced *)
  ("protocol.pageRef", "length", Confined);   (* uint32; page buffers are used by one goroutine; shared pages are immutable once referenced *)
  ("protocol.pageRef", "once", AtomicOnly);   (* uint32 *)
  (* ---- $gzip *)
  ("$gzip", "readerPool", AtomicOnly);   (* package-level variable *)
  (* ---- $kafka *)
  ("$kafka", "bufferPool", AtomicOnly);   (* package-level variable *)
  ("$kafka", "partitionsCache", AtomicOnly);   (* package-level variable *)
  (* ---- $lz4 *)
  ("$lz4", "readerPool", AtomicOnly);   (* package-level variable *)
  ("$lz4", "writerPool", AtomicOnly);   (* package-level variable *)
  (* ---- $protocol *)
  ("$protocol", "apiTypes", Confined);   (* package-level variable; registration table filled by Register from the init functions of protocol/*; read-only afterwards *)
  ("$protocol", "decoders", AtomicOnly);   (* package-level variable *)
  ("$protocol", "encoders", AtomicOnly);   (* package-level variable *)
  ("$protocol", "marshalers", AtomicOnly);   (* package-level variable *)
  ("$protocol", "overrideApiTypes", Confined);   (* package-level variable; as apiTypes (RegisterOverride) *)
  ("$protocol", "pageBufferPool", AtomicOnly);   (* package-level variable *)
  ("$protocol", "pagePool", AtomicOnly);   (* package-level variable *)
  ("$protocol", "unmarshalers", AtomicOnly);   (* package-level variable *)
  (* ---- $snappy *)
  ("$snappy", "readerPool", AtomicOnly);   (* package-level variable *)
  ("$snappy", "writerPool", AtomicOnly);   (* package-level variable *)
  (* ---- $zstd *)
  ("$zstd", "decoderPool", AtomicOnly)   (* package-level variable *)
].

(* Access sites that VIOLATE the policy on the current tree and are genuine defect
   candidates (reported by the check under these keys; see checks/c10.py):
     F7-batch-err-unlocked-read      Batch.Err reads batch.err without batch.mutex
     F7-conn-offset-unlocked-read    Batch.ReadMessage reads conn.offset under batch.mutex only
     F7-reader-version-unlocked-read the goroutine started by Reader.start reads r.version unlocked
     F7-reader-cancel-unlocked-read  Reader.unsubscribe calls r.cancel without r.mutex *)
Definition known_exceptions : list (string * string * string) := [
  ("Batch", "err", "Batch.Err");
  ("Conn", "offset", "Batch.ReadMessage");
  ("Reader", "version", "Reader.start$1");
  ("Reader", "cancel", "Reader.unsubscribe")
].

(* Access sites outside the lockset discipline that were reviewed and are ordered by
   another argument (trusted):
   - Conn.saslAuthenticate (v0 fallback) uses c.wb directly: only called from
     Dialer.authenticateSASL while the Conn is being dialled, before it is returned;
   - Reader.Close calls r.cancel after releasing r.mutex: it set r.closed under the
     mutex first, and Reader.start (the only writer) returns early when r.closed;
   - Transport.grabPool assigns p.ctrl on the pool it just allocated, before storing it
     in t.pools and before starting p.discover. *)
Definition reviewed_sites : list (string * string * string) := [
  ("Conn", "wb", "Conn.saslAuthenticate");
  ("Reader", "cancel", "Reader.Close");
  ("connPool", "ctrl", "Transport.grabPool")
].

Definition exempt : list (string * string * string) := known_exceptions ++ reviewed_sites.

(* Constructs the translator could not classify, each reviewed:
   - lock-via-alias:Unlock "lock": the read lock returned by Conn.waitResponse is released
     through the returned pointer (Conn.do, Conn.ApiVersions, Batch.close): the lockset is
     emptied there, Conn.rbuf is LockTransferred;
   - method values: passed as callbacks / goroutine bodies; the methods concerned start
     with the empty lockset. *)
Definition reviewed_unknowns : list unknown_fact := [
  mkUnk "Batch.close" "lock-via-alias:Unlock" "lock";
  mkUnk "Conn.ApiVersions" "lock-via-alias:Unlock" "lock";
  mkUnk "Conn.do" "lock-via-alias:Unlock" "lock";
  mkUnk "ConsumerGroup.nextGeneration" "method-value" "cg.withErrorLogger";
  mkUnk "ConsumerGroup.nextGeneration" "method-value" "cg.withLogger";
  mkUnk "Dialer.dialContext" "method-value" "(&*ast.CompositeLit).DialContext";
  mkUnk "Transport.dial" "method-value" "defaultDialer.DialContext";
  mkUnk "connPool.setReady" "method-value" "p.ready.trigger";
  mkUnk "newPartitionWriter" "method-value" "writer.writeBatches"
].
