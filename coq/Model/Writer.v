(* Model/Writer.v — executable model of /repo/writer.go (kafka.Writer): definitions only.

   The MECHANISM of writer.go as an atomic-step labelled transition system
   [step : config -> state -> label -> option state] (Lib/LTS.v).  One label = one atomic
   action of one goroutine or one environment choice:

     Call g msgs merr   WriteMessages up to and including the validation loops: enter()
                        (critical section of w.mutex: closed? group.Add(1)), len(msgs)==0,
                        the messageTooLarge loop, the chooseTopic/partitions loop.  A rejected
                        call returns in the same step (nothing but the caller's own locals was
                        touched in between; enter's Add(1) and the deferred leave cancel).
                        [merr = Some (i,e)]: the metadata lookup for message i fails with e.
     Assign c           batchMessages: ONE critical section of w.mutex.  If Close has marked the
                        writer closed in the meantime: return io.ErrClosedPipe, WriteMessages
                        returns it (leave); nothing is created or enqueued.  Otherwise per partition
                        writeMessages (ptw.mutex nested): add / full / Put, new partition
                        writers (spawn writeBatches), new batches (spawn awaitBatch).
                        The balancer's decisions are data ([m_part]).  Go iterates the
                        assignments map in random order; partitions are processed
                        independently (disjoint state, commutative WaitGroup adds), so the
                        model processes the messages in call order.
     Timer p k          the awaitBatch goroutine of batch k of partition writer p runs to
                        its end: timer branch (critical section of ptw.mutex: if currBatch ==
                        batch then Put, currBatch = nil) or ready branch (no effect), then
                        group.Done().  For a batch that is still current only the timer
                        branch is possible; for any other batch both branches have no effect.
     Get p              queue.Get of the sender goroutine returns the head batch.
     SenderExit p       queue.Get returns nil (queue closed and empty): writeBatches returns.
     Attempt p r        one iteration of the retry loop of writeBatch: produce request, the
                        broker's reaction r (applied or not, answered how), and the client's
                        decision (break / retry) on what it saw.
     BackoffDone p      time.Sleep(backoff) before a retry is over.
     Finish p           Completion callback, then batch.complete(err).
     Return c           WriteMessages returns: Async at once; otherwise when every batch of
                        the call is done (nil or WriteErrors), then leave().
     CtxDone c          the caller's context ends while it waits (sync): return ctx.Err().
     CloseMark          Close's critical section of w.mutex: closed = true, close() every
                        partition writer (flush the open batch, close the queue), empty
                        w.writers.  Then Close waits for the WaitGroup.
     CloseWaitDone      group.Wait() returns (counter 0): Close returns.

   Abstractions (each argued from the code, see comments at the definition):
   * [pw_open] is both "is in w.writers" and "queue not closed": both change only in Close,
     in the same critical section of w.mutex.
   * batch.ready / trigger() is not represented: it only selects the branch of awaitBatch,
     and both branches coincide whenever ready can be closed (the batch is not current).
   * WaitGroup.Done is [pred]; theorem C09_w_waitgroup_exact shows the counter always equals
     the number of live accounted activities, so it never underflows.
   * the fake cluster (journal, log) is part of the state; [Attempt] merges the broker's
     reaction with the client's observation of it (fault model of DESIGN.md 2.3).
   Messages are (id, message-level topic, totalSize, partition chosen by the balancer).
   Effective configuration values (after the defaults of batchSize()/batchBytes()/
   maxAttempts()) are parameters; [retriable] abstracts isTemporary || isTransientNetworkError. *)
From Coq Require Import List NArith Bool Arith.
From KV Require Import Lib.LTS.
Import ListNotations.

Definition err := N.
Definition tpart := (N * N)%type.             (* (topic, partition) *)
Definition tp_eqb (a b : tpart) : bool := N.eqb (fst a) (fst b) && N.eqb (snd a) (snd b).

Record msg := mkMsg {
  m_id : N;                (* unique id; the harness encodes (caller, sequence number) *)
  m_topic : option N;      (* Message.Topic, None = "" *)
  m_size : N;              (* Message.totalSize() *)
  m_part : N               (* partition the balancer chose *)
}.

Record config := mkCfg {
  batchSize : nat;         (* w.batchSize()  *)
  batchBytes : N;          (* w.batchBytes() *)
  maxAttempts : nat;       (* w.maxAttempts() *)
  async : bool;
  wtopic : option N;       (* Writer.Topic, None = "" *)
  retriable : err -> bool  (* isTemporary(err) || isTransientNetworkError(err) *)
}.

Definition cfg_ok (cfg : config) : Prop := 1 <= batchSize cfg /\ 1 <= maxAttempts cfg.

Inductive callerr :=
| EClosed                         (* io.ErrClosedPipe *)
| ETooLarge (i : nat)             (* messageTooLarge(msgs, i) *)
| ETopic (i : nat)                (* chooseTopic(msgs[i]) failed *)
| EMeta (i : nat) (e : err)       (* w.partitions for msgs[i] failed *)
| ECtx.                           (* ctx.Err() *)

Inductive result :=
| RNil
| RErr (e : callerr)
| RWriteErrors (we : list (option err)).

Record batch := mkBatch { b_k : nat; b_msgs : list msg; b_bytes : N }.

Inductive sphase := PAttempt | PBackoff | PFinish (e : option err).
Record sending := mkSnd { sd_batch : batch; sd_att : nat; sd_ph : sphase }.

(* partitionWriter.  All batches it ever created, in creation order, are
   [pw_fin ++ pw_snd ++ pw_queue ++ pw_curr] (see [pw_all]); batch number k is [b_k]. *)
Record pwriter := mkPw {
  pw_tp : tpart;
  pw_open : bool;                          (* in w.writers, queue not closed *)
  pw_nb : nat;                             (* batches created so far *)
  pw_fin : list (batch * option err);      (* completed batches with batch.err *)
  pw_snd : option sending;                 (* the batch inside writeBatch *)
  pw_queue : list batch;                   (* batchQueue.queue *)
  pw_curr : option batch;                  (* currBatch *)
  pw_alive : bool;                         (* writeBatches goroutine not yet returned *)
  pw_await : list nat                      (* batches whose awaitBatch goroutine is live *)
}.

Record attempt := mkAtt {
  a_pw : nat; a_k : nat;                   (* ghost: which batch *)
  a_tp : tpart; a_msgs : list msg; a_applied : bool;
  a_seen : option err                      (* what the client saw: None = acknowledged *)
}.

Inductive cphase := CEntered | CWaiting | CReturned (r : result).
Record call := mkCall {
  c_g : N;                                 (* calling goroutine *)
  c_msgs : list msg;
  c_refs : list (nat * nat);               (* after Assign: message i went to batch (p, k) *)
  c_ph : cphase
}.

Inductive clstate := ClOpen | ClWaiting | ClReturned.

Record state := mkSt {
  s_close : clstate;                       (* w.closed = (s_close <> ClOpen) *)
  s_wg : nat;                              (* w.group counter *)
  s_pws : list pwriter;                    (* every partition writer ever created *)
  s_calls : list call;                     (* ghost history of calls (id = position) *)
  s_journal : list attempt;                (* fake cluster: every produce attempt *)
  s_log : list (tpart * msg);              (* fake cluster: appended records *)
  s_compl : list (list msg * option err)   (* ghost: Completion callbacks *)
}.

Inductive reaction :=
| AppliedAcked
| AppliedLost (e : err)      (* applied, the client sees error e (cut / time-out) *)
| RejectedCode (e : err)     (* not applied, partition error code e *)
| NotApplied (e : err).      (* not applied, the client sees network error e *)

Definition r_applied (r : reaction) : bool :=
  match r with AppliedAcked | AppliedLost _ => true | _ => false end.
Definition r_seen (r : reaction) : option err :=
  match r with AppliedAcked => None | AppliedLost e | RejectedCode e | NotApplied e => Some e end.

Inductive label :=
| Call (g : N) (msgs : list msg) (merr : option (nat * err))
| Assign (c : nat)
| Timer (p k : nat)
| Get (p : nat)
| SenderExit (p : nat)
| Attempt (p : nat) (r : reaction)
| BackoffDone (p : nat)
| Finish (p : nat)
| Return (c : nat)
| CtxDone (c : nat)
| CloseMark
| CloseWaitDone.

(* labels that are decisions of the environment (user program); everything else is a
   step the Writer's own goroutines, the broker or a timer will take on their own *)
Definition is_env (l : label) : bool :=
  match l with Call _ _ _ | CtxDone _ | CloseMark => true | _ => false end.

Fixpoint upd {A} (l : list A) (i : nat) (x : A) {struct l} : list A :=
  match l, i with
  | [], _ => []
  | _ :: t, O => x :: t
  | h :: t, S j => h :: upd t j x
  end.

Fixpoint nodupb (l : list N) {struct l} : bool :=
  match l with
  | [] => true
  | x :: r => negb (existsb (N.eqb x) r) && nodupb r
  end.

Definition opt_list {A} (o : option A) : list A := match o with Some x => [x] | None => [] end.

(* every batch the partition writer created, oldest first *)
Definition pw_all (pw : pwriter) : list batch :=
  map fst (pw_fin pw) ++ opt_list (option_map sd_batch (pw_snd pw)) ++ pw_queue pw ++ opt_list (pw_curr pw).

Definition set_curr (pw : pwriter) (c : option batch) : pwriter :=
  mkPw (pw_tp pw) (pw_open pw) (pw_nb pw) (pw_fin pw) (pw_snd pw) (pw_queue pw) c (pw_alive pw) (pw_await pw).
Definition set_queue (pw : pwriter) (q : list batch) : pwriter :=
  mkPw (pw_tp pw) (pw_open pw) (pw_nb pw) (pw_fin pw) (pw_snd pw) q (pw_curr pw) (pw_alive pw) (pw_await pw).
Definition set_snd (pw : pwriter) (sd : option sending) : pwriter :=
  mkPw (pw_tp pw) (pw_open pw) (pw_nb pw) (pw_fin pw) sd (pw_queue pw) (pw_curr pw) (pw_alive pw) (pw_await pw).
Definition set_await (pw : pwriter) (a : list nat) : pwriter :=
  mkPw (pw_tp pw) (pw_open pw) (pw_nb pw) (pw_fin pw) (pw_snd pw) (pw_queue pw) (pw_curr pw) (pw_alive pw) a.

(* batchQueue.Put: appends unless the queue is closed (then the batch is dropped: the
   callers ignore Put's result) *)
Definition put (pw : pwriter) (b : batch) : pwriter :=
  if pw_open pw then set_queue pw (pw_queue pw ++ [b]) else pw.

Definition new_pw (tp : tpart) : pwriter := mkPw tp true 0 [] None [] None true [].

Section WithConfig.
Variable cfg : config.

(* ---- validation (WriteMessages before batchMessages) ---- *)
Definition choose_topic (m : msg) : option N :=
  match wtopic cfg, m_topic m with
  | Some _, Some _ => None
  | None, None => None
  | None, Some t => Some t
  | Some t, None => Some t
  end.

Definition tp_of (m : msg) : tpart :=
  (match choose_topic m with Some t => t | None => 0%N end, m_part m).

Fixpoint first_too_large (i : nat) (ms : list msg) {struct ms} : option nat :=
  match ms with
  | [] => None
  | m :: r => if (batchBytes cfg <? m_size m)%N then Some i else first_too_large (S i) r
  end.

Fixpoint first_topic_err (merr : option (nat * err)) (i : nat) (ms : list msg) {struct ms} : option callerr :=
  match ms with
  | [] => None
  | m :: r =>
    match choose_topic m with
    | None => Some (ETopic i)
    | Some _ =>
      match merr with
      | Some (j, e) => if Nat.eqb i j then Some (EMeta i e) else first_topic_err merr (S i) r
      | None => first_topic_err merr (S i) r
      end
    end
  end.

Definition validate (merr : option (nat * err)) (ms : list msg) : option callerr :=
  match first_too_large 0 ms with
  | Some i => Some (ETooLarge i)
  | None => first_topic_err merr 0 ms
  end.

(* ---- writeBatch.add / full ---- *)
Definition b_size (b : batch) : nat := length (b_msgs b).
(* add returns false iff b.size > 0 && b.bytes+bytes > maxBytes *)
Definition add_fits (b : batch) (m : msg) : bool :=
  negb ((0 <? b_size b) && (batchBytes cfg <? b_bytes b + m_size m)%N).
Definition add_msg (b : batch) (m : msg) : batch :=
  mkBatch (b_k b) (b_msgs b ++ [m]) (b_bytes b + m_size m)%N.
Definition full (b : batch) : bool :=
  (batchSize cfg <=? b_size b) || (batchBytes cfg <=? b_bytes b)%N.

(* newWriteBatch: a fresh batch and its awaitBatch goroutine *)
Definition new_batch (pw : pwriter) : pwriter * batch :=
  (mkPw (pw_tp pw) (pw_open pw) (S (pw_nb pw)) (pw_fin pw) (pw_snd pw) (pw_queue pw) (pw_curr pw)
        (pw_alive pw) (pw_await pw ++ [pw_nb pw]),
   mkBatch (pw_nb pw) [] 0%N).

(* one iteration of the loop of writeMessages; result: the writer, the number of the batch
   that took the message, the number of goroutines spawned *)
Definition pw_add (pw : pwriter) (m : msg) : pwriter * nat * nat :=
  let '(pw1, b, sp) :=
    match pw_curr pw with
    | None => let (pw', b) := new_batch pw in (pw', b, 1)
    | Some b =>
      if add_fits b m then (pw, b, 0)
      else let (pw', b') := new_batch (set_curr (put pw b) None) in (pw', b', 1)
    end in
  let b' := add_msg b m in
  let pw2 := if full b' then set_curr (put pw1 b') None else set_curr pw1 (Some b') in
  (pw2, b_k b', sp).

(* the partition writer registered for tp takes the message *)
Fixpoint pws_add (tp : tpart) (m : msg) (i : nat) (pws : list pwriter) {struct pws}
  : option (list pwriter * (nat * nat) * nat) :=
  match pws with
  | [] => None
  | p :: r =>
    if pw_open p && tp_eqb (pw_tp p) tp
    then let '(p', k, sp) := pw_add p m in Some (p' :: r, (i, k), sp)
    else match pws_add tp m (S i) r with
         | Some (r', ref, sp) => Some (p :: r', ref, sp)
         | None => None
         end
  end.

Definition assign_one (st : list pwriter * nat * list (nat * nat)) (m : msg)
  : list pwriter * nat * list (nat * nat) :=
  let '(pws, wg, refs) := st in
  match pws_add (tp_of m) m 0 pws with
  | Some (pws', ref, sp) => (pws', wg + sp, refs ++ [ref])
  | None =>
    (* newPartitionWriter: spawn(writeBatches) *)
    let '(p', k, sp) := pw_add (new_pw (tp_of m)) m in
    (pws ++ [p'], S (wg + sp), refs ++ [(length pws, k)])
  end.

Definition assign_all (pws : list pwriter) (wg : nat) (ms : list msg) :=
  fold_left assign_one ms (pws, wg, []).

(* ---- partitionWriter.close ---- *)
Definition close_pw (pw : pwriter) : pwriter :=
  if pw_open pw then
    let pw1 := match pw_curr pw with Some b => set_curr (put pw b) None | None => pw end in
    mkPw (pw_tp pw1) false (pw_nb pw1) (pw_fin pw1) (pw_snd pw1) (pw_queue pw1) (pw_curr pw1)
         (pw_alive pw1) (pw_await pw1)
  else pw.

(* ---- the waiting caller ---- *)
Definition batch_result (pws : list pwriter) (ref : nat * nat) : option (option err) :=
  match nth_error pws (fst ref) with
  | None => None
  | Some pw => option_map snd (find (fun be => Nat.eqb (b_k (fst be)) (snd ref)) (pw_fin pw))
  end.

Fixpoint all_results (pws : list pwriter) (refs : list (nat * nat)) {struct refs} : option (list (option err)) :=
  match refs with
  | [] => Some []
  | r :: rs => match batch_result pws r, all_results pws rs with
               | Some e, Some es => Some (e :: es)
               | _, _ => None
               end
  end.

Definition is_none {A} (o : option A) : bool := match o with None => true | Some _ => false end.

Definition a_acked (a : attempt) : bool := is_none (a_seen a).

Definition returned (c : call) : bool := match c_ph c with CReturned _ => true | _ => false end.

Definition used_ids (cs : list call) : list N := flat_map (fun c => map m_id (c_msgs c)) cs.

Definition call_admissible (s : state) (g : N) (msgs : list msg) : bool :=
  forallb (fun c => negb (N.eqb (c_g c) g) || returned c) (s_calls s)
  && nodupb (map m_id msgs)
  && forallb (fun m => negb (existsb (N.eqb (m_id m)) (used_ids (s_calls s)))) msgs.

Definition closed (s : state) : bool := match s_close s with ClOpen => false | _ => true end.

Definition with_pw (s : state) (p : nat) (pw : pwriter) : state :=
  mkSt (s_close s) (s_wg s) (upd (s_pws s) p pw) (s_calls s) (s_journal s) (s_log s) (s_compl s).
Definition with_pw_done (s : state) (p : nat) (pw : pwriter) : state :=
  mkSt (s_close s) (pred (s_wg s)) (upd (s_pws s) p pw) (s_calls s) (s_journal s) (s_log s) (s_compl s).
Definition add_call (s : state) (wg : nat) (c : call) : state :=
  mkSt (s_close s) wg (s_pws s) (s_calls s ++ [c]) (s_journal s) (s_log s) (s_compl s).
Definition ret_call (s : state) (i : nat) (c : call) (r : result) : state :=
  mkSt (s_close s) (pred (s_wg s)) (s_pws s)
       (upd (s_calls s) i (mkCall (c_g c) (c_msgs c) (c_refs c) (CReturned r)))
       (s_journal s) (s_log s) (s_compl s).

(* what the client does with the outcome of attempt number [n] (0-based) *)
Definition after_attempt (n : nat) (seen : option err) : sphase :=
  match seen with
  | None => PFinish None
  | Some e =>
    if retriable cfg e then
      (if S n <? maxAttempts cfg then PBackoff else PFinish (Some e))
    else PFinish (Some e)
  end.

Definition step (s : state) (l : label) : option state :=
  match l with
  | Call g msgs merr =>
    if call_admissible s g msgs then
      if closed s then Some (add_call s (s_wg s) (mkCall g msgs [] (CReturned (RErr EClosed))))
      else match msgs with
           | [] => Some (add_call s (s_wg s) (mkCall g msgs [] (CReturned RNil)))
           | _ =>
             match validate merr msgs with
             | Some e => Some (add_call s (s_wg s) (mkCall g msgs [] (CReturned (RErr e))))
             | None => Some (add_call s (S (s_wg s)) (mkCall g msgs [] CEntered))
             end
           end
    else None
  | Assign c =>
    match nth_error (s_calls s) c with
    | Some cl =>
      match c_ph cl with
      | CEntered =>
        (* batchMessages re-checks w.closed under w.mutex: after Close the call fails with
           io.ErrClosedPipe, nothing is created or enqueued, and WriteMessages returns (leave) *)
        if closed s then Some (ret_call s c cl (RErr EClosed))
        else
        let '(pws, wg, refs) := assign_all (s_pws s) (s_wg s) (c_msgs cl) in
        Some (mkSt (s_close s) wg pws
                   (upd (s_calls s) c (mkCall (c_g cl) (c_msgs cl) refs CWaiting))
                   (s_journal s) (s_log s) (s_compl s))
      | _ => None
      end
    | None => None
    end
  | Timer p k =>
    match nth_error (s_pws s) p with
    | Some pw =>
      if existsb (Nat.eqb k) (pw_await pw) then
        let pw1 := match pw_curr pw with
                   | Some b => if Nat.eqb (b_k b) k then set_curr (put pw b) None else pw
                   | None => pw
                   end in
        Some (with_pw_done s p (set_await pw1 (filter (fun x => negb (Nat.eqb x k)) (pw_await pw1))))
      else None
    | None => None
    end
  | Get p =>
    match nth_error (s_pws s) p with
    | Some pw =>
      match pw_alive pw, pw_snd pw, pw_queue pw with
      | true, None, b :: q =>
        Some (with_pw s p (set_snd (set_queue pw q)
               (Some (mkSnd b 0 (if 0 <? maxAttempts cfg then PAttempt else PFinish None)))))
      | _, _, _ => None
      end
    | None => None
    end
  | SenderExit p =>
    match nth_error (s_pws s) p with
    | Some pw =>
      match pw_alive pw, pw_snd pw, pw_queue pw, pw_open pw with
      | true, None, [], false =>
        Some (with_pw_done s p (mkPw (pw_tp pw) (pw_open pw) (pw_nb pw) (pw_fin pw) (pw_snd pw)
                                     (pw_queue pw) (pw_curr pw) false (pw_await pw)))
      | _, _, _, _ => None
      end
    | None => None
    end
  | Attempt p r =>
    match nth_error (s_pws s) p with
    | Some pw =>
      match pw_snd pw with
      | Some (mkSnd b n PAttempt) =>
        Some (mkSt (s_close s) (s_wg s)
                   (upd (s_pws s) p (set_snd pw (Some (mkSnd b (S n) (after_attempt n (r_seen r))))))
                   (s_calls s)
                   (s_journal s ++ [mkAtt p (b_k b) (pw_tp pw) (b_msgs b) (r_applied r) (r_seen r)])
                   (s_log s ++ (if r_applied r then map (pair (pw_tp pw)) (b_msgs b) else []))
                   (s_compl s))
      | _ => None
      end
    | None => None
    end
  | BackoffDone p =>
    match nth_error (s_pws s) p with
    | Some pw =>
      match pw_snd pw with
      | Some (mkSnd b n PBackoff) => Some (with_pw s p (set_snd pw (Some (mkSnd b n PAttempt))))
      | _ => None
      end
    | None => None
    end
  | Finish p =>
    match nth_error (s_pws s) p with
    | Some pw =>
      match pw_snd pw with
      | Some (mkSnd b n (PFinish e)) =>
        Some (mkSt (s_close s) (s_wg s)
                   (upd (s_pws s) p
                        (mkPw (pw_tp pw) (pw_open pw) (pw_nb pw) (pw_fin pw ++ [(b, e)]) None
                              (pw_queue pw) (pw_curr pw) (pw_alive pw) (pw_await pw)))
                   (s_calls s) (s_journal s) (s_log s)
                   (s_compl s ++ [(b_msgs b, e)]))
      | _ => None
      end
    | None => None
    end
  | Return c =>
    match nth_error (s_calls s) c with
    | Some cl =>
      match c_ph cl with
      | CWaiting =>
        if async cfg then Some (ret_call s c cl RNil)
        else match all_results (s_pws s) (c_refs cl) with
             | Some es => Some (ret_call s c cl (if forallb is_none es then RNil else RWriteErrors es))
             | None => None
             end
      | _ => None
      end
    | None => None
    end
  | CtxDone c =>
    match nth_error (s_calls s) c with
    | Some cl =>
      match c_ph cl with
      | CWaiting => if async cfg then None else Some (ret_call s c cl (RErr ECtx))
      | _ => None
      end
    | None => None
    end
  | CloseMark =>
    match s_close s with
    | ClOpen => Some (mkSt ClWaiting (s_wg s) (map close_pw (s_pws s)) (s_calls s)
                           (s_journal s) (s_log s) (s_compl s))
    | _ => None
    end
  | CloseWaitDone =>
    match s_close s, s_wg s with
    | ClWaiting, O => Some (mkSt ClReturned (s_wg s) (s_pws s) (s_calls s)
                                 (s_journal s) (s_log s) (s_compl s))
    | _, _ => None
    end
  end.

End WithConfig.

Definition init : state := mkSt ClOpen 0 [] [] [] [] [].

(* ---- candidate non-environment steps (used by the driver's scheduler and to decide
   stuckness: a reaction-independent representative of every progress label) ---- *)
Definition progress_labels (s : state) : list label :=
  flat_map (fun p => [Get p; SenderExit p; Attempt p AppliedAcked; BackoffDone p; Finish p])
           (seq 0 (length (s_pws s)))
  ++ flat_map (fun ppw => map (Timer (fst ppw)) (pw_await (snd ppw)))
              (combine (seq 0 (length (s_pws s))) (s_pws s))
  ++ flat_map (fun c => [Assign c; Return c]) (seq 0 (length (s_calls s)))
  ++ [CloseWaitDone].

(* Close waits and nothing but the environment can move *)
Definition stuck (cfg : config) (s : state) : Prop :=
  s_close s = ClWaiting /\ forall l, is_env l = false -> step cfg s l = None.

Definition stuckb (cfg : config) (s : state) : bool :=
  match s_close s with
  | ClWaiting => forallb (fun l => is_none (step cfg s l)) (progress_labels s)
  | _ => false
  end.

(* the log of one topic-partition *)
Definition log_of (s : state) (tp : tpart) : list msg :=
  map snd (filter (fun e => tp_eqb (fst e) tp) (s_log s)).

(* ------------------------------------------------------------------------------------------
   History predicates: boolean, extracted, evaluated on recorded histories of the real Writer
   (calls with results, Completion callbacks, the fake's journal and logs).  They use only what
   a real history contains: not c_refs, a_pw, a_k.
   ------------------------------------------------------------------------------------------ *)
Definition mem_id (m : msg) (l : list msg) : bool := existsb (fun x => N.eqb (m_id x) (m_id m)) l.
Definition sum_sizes (l : list msg) : N := fold_right (fun m acc => (m_size m + acc)%N) 0%N l.
Definition opt_err_eqb (a b : option err) : bool :=
  match a, b with None, None => true | Some x, Some y => N.eqb x y | _, _ => false end.
Definition ids_eqb (a b : list msg) : bool :=
  (length a =? length b) && forallb (fun xy => N.eqb (m_id (fst xy)) (m_id (snd xy))) (combine a b).

Section Hist.
Variable cfg : config.

(* C08: limits of every produce request *)
Definition C08_limits_holds (j : list attempt) : bool :=
  forallb (fun a => (length (a_msgs a) <=? batchSize cfg)
                    && (sum_sizes (a_msgs a) <=? batchBytes cfg)%N
                    && forallb (fun m => tp_eqb (tp_of cfg m) (a_tp a)) (a_msgs a)) j.

Definition rejected (c : call) : bool :=
  match c_ph c with
  | CReturned (RErr (ETooLarge _)) | CReturned (RErr (ETopic _))
  | CReturned (RErr (EMeta _ _)) | CReturned (RErr EClosed) => true
  | _ => false
  end.

(* C08/C09: nothing of a rejected call is ever sent *)
Definition rejected_sends_nothing_holds (cs : list call) (j : list attempt) : bool :=
  forallb (fun c => negb (rejected c)
                    || forallb (fun m => negb (existsb (fun a => mem_id m (a_msgs a)) j)) (c_msgs c)) cs.

(* the validation verdict of a call is the model's *)
Definition verdict_holds (c : call) (merr : option (nat * err)) : bool :=
  match c_msgs c, validate cfg merr (c_msgs c), c_ph c with
  | [], _, _ => true
  | _, Some e, CReturned (RErr e') =>
    match e, e' with
    | ETooLarge i, ETooLarge i' => i =? i'
    | ETopic _, ETopic _ => true
    | EMeta _ _, EMeta _ _ => true
    | _, EClosed => true
    | _, _ => false
    end
  | _, Some _, _ => false
  | _, None, CReturned (RErr (ETooLarge _)) | _, None, CReturned (RErr (ETopic _)) => false
  | _, None, _ => true
  end.

Definition acked_for (j : list attempt) (m : msg) : bool :=
  existsb (fun a => a_applied a && a_acked a && mem_id m (a_msgs a) && tp_eqb (a_tp a) (tp_of cfg m)) j.

Definition in_log (log : list (tpart * msg)) (m : msg) : bool :=
  existsb (fun e => tp_eqb (fst e) (tp_of cfg m) && N.eqb (m_id (snd e)) (m_id m)) log.

(* what the client saw on the last attempt that carried m *)
Definition last_seen (j : list attempt) (m : msg) : option (option err) :=
  fold_left (fun acc a => if mem_id m (a_msgs a) then Some (a_seen a) else acc) j None.

Definition C01_nil_holds (cs : list call) (j : list attempt) (log : list (tpart * msg)) : bool :=
  async cfg ||
  forallb (fun c => match c_ph c with
                    | CReturned RNil => forallb (fun m => acked_for j m && in_log log m) (c_msgs c)
                    | _ => true
                    end) cs.

Definition C01_we_holds (cs : list call) (j : list attempt) : bool :=
  forallb (fun c => match c_ph c with
                    | CReturned (RWriteErrors we) =>
                      (length we =? length (c_msgs c))
                      && existsb (fun e => negb (is_none e)) we
                      && forallb (fun me => Bool.eqb (is_none (snd me)) (acked_for j (fst me))
                                            && match last_seen j (fst me) with
                                               | Some o => opt_err_eqb o (snd me)
                                               | None => false
                                               end) (combine (c_msgs c) we)
                    | _ => true
                    end) cs.

Definition compl_of (compl : list (list msg * option err)) (m : msg) : list (option err) :=
  map snd (filter (fun ce => mem_id m (fst ce)) compl).

(* Completion: no message twice; outcome = the last attempt's; a synchronous call that
   returned nil / WriteErrors had each message completed with the call's own entry *)
Definition C01_compl_holds (cs : list call) (j : list attempt) (compl : list (list msg * option err)) : bool :=
  nodupb (flat_map (fun ce => map m_id (fst ce)) compl)
  && forallb (fun ce => forallb (fun m => match last_seen j m with
                                          | Some o => opt_err_eqb o (snd ce)
                                          | None => false
                                          end) (fst ce)) compl
  && forallb (fun ce => forallb (fun m => existsb (fun c => negb (rejected c) && mem_id m (c_msgs c)) cs) (fst ce)) compl
  && (async cfg ||
      forallb (fun c => match c_ph c with
                        | CReturned RNil =>
                          forallb (fun m => match compl_of compl m with [None] => true | _ => false end) (c_msgs c)
                        | CReturned (RWriteErrors we) =>
                          forallb (fun me => match compl_of compl (fst me) with
                                             | [o] => opt_err_eqb o (snd me)
                                             | _ => false
                                             end) (combine (c_msgs c) we)
                        | _ => true
                        end) cs).

(* at quiescence (after Close returned) every accepted message was completed *)
Definition C01_compl_total_holds (cs : list call) (compl : list (list msg * option err)) : bool :=
  forallb (fun c => rejected c
                    || forallb (fun m => match compl_of compl m with [_] => true | _ => false end) (c_msgs c)) cs.

Definition C01_no_foreign_holds (log : list (tpart * msg)) : bool :=
  forallb (fun e => tp_eqb (fst e) (tp_of cfg (snd e))) log.

Definition count_log (log : list (tpart * msg)) (tp : tpart) (m : msg) : nat :=
  length (filter (fun e => tp_eqb (fst e) tp && N.eqb (m_id (snd e)) (m_id m)) log).
Definition count_applied (j : list attempt) (tp : tpart) (m : msg) : nat :=
  length (filter (fun a => a_applied a && tp_eqb (a_tp a) tp && mem_id m (a_msgs a)) j).

(* the log is exactly what the applied attempts appended *)
Definition log_is_journal (j : list attempt) (log : list (tpart * msg)) : bool :=
  let l' := flat_map (fun a => if a_applied a then map (pair (a_tp a)) (a_msgs a) else []) j in
  (length log =? length l')
  && forallb (fun xy => tp_eqb (fst (fst xy)) (fst (snd xy)) && N.eqb (m_id (snd (fst xy))) (m_id (snd (snd xy))))
             (combine log l').

(* every attempt that shares a message with an earlier attempt is a retry of the same batch
   after a failure the client classified as retriable *)
Fixpoint retries_ok (seen : list attempt) (j : list attempt) {struct j} : bool :=
  match j with
  | [] => true
  | a :: r =>
    forallb (fun a' => negb (existsb (fun m => mem_id m (a_msgs a')) (a_msgs a))
                       || (ids_eqb (a_msgs a') (a_msgs a) && tp_eqb (a_tp a') (a_tp a)
                           && match a_seen a' with Some e => retriable cfg e | None => false end)) seen
    && retries_ok (a :: seen) r
  end.

Definition C01_dups_holds (j : list attempt) (log : list (tpart * msg)) : bool :=
  forallb (fun e => count_log log (fst e) (snd e) =? count_applied j (fst e) (snd e)) log
  && retries_ok [] j
  && forallb (fun a => length (filter (fun a' => ids_eqb (a_msgs a') (a_msgs a)) j) <=? maxAttempts cfg) j.

(* a batch is given up (Completion with an error the SPEC classifies as retriable) only after
   MaxAttempts produce requests for it *)
Definition attempts_of (j : list attempt) (m : msg) : nat :=
  length (filter (fun a => mem_id m (a_msgs a)) j).
Definition no_early_giveup_holds (j : list attempt) (compl : list (list msg * option err)) : bool :=
  forallb (fun ce => match snd ce with
                     | Some e => negb (retriable cfg e)
                                 || forallb (fun m => maxAttempts cfg <=? attempts_of j m) (fst ce)
                     | None => true
                     end) compl.

Definition C01_holds (cs : list call) (j : list attempt) (log : list (tpart * msg))
           (compl : list (list msg * option err)) : bool :=
  C01_nil_holds cs j log && C01_we_holds cs j && C01_compl_holds cs j compl
  && C01_no_foreign_holds log && log_is_journal j log && C01_dups_holds j log.

(* C07: per goroutine and partition, the applied attempts, projected on the goroutine's
   submission ranks, are increasing blocks; a later block is a copy of the previous one
   (retry) or lies entirely after it *)
Fixpoint index_of (m : msg) (l : list msg) (i : nat) {struct l} : option nat :=
  match l with
  | [] => None
  | x :: r => if N.eqb (m_id x) (m_id m) then Some i else index_of m r (S i)
  end.
Definition ranks (sub : list msg) (ms : list msg) : list nat :=
  flat_map (fun m => opt_list (index_of m sub 0)) ms.
Fixpoint increasing (l : list nat) {struct l} : bool :=
  match l with
  | a :: ((b :: _) as r) => (a <? b) && increasing r
  | _ => true
  end.
Definition list_nat_eqb (a b : list nat) : bool :=
  (length a =? length b) && forallb (fun xy => fst xy =? snd xy) (combine a b).
Fixpoint blocks_ok (bs : list (list nat)) {struct bs} : bool :=
  match bs with
  | a :: ((b :: _) as r) =>
    (list_nat_eqb a b || match b with x :: _ => last a 0 <? x | [] => true end) && blocks_ok r
  | _ => true
  end.
Definition submitted (cs : list call) (g : N) : list msg :=
  flat_map (fun c => if N.eqb (c_g c) g && negb (rejected c) then c_msgs c else []) cs.
Definition C07_holds_for (cs : list call) (j : list attempt) (g : N) (tp : tpart) : bool :=
  let sub := filter (fun m => tp_eqb (tp_of cfg m) tp) (submitted cs g) in
  let blocks := filter (fun b => match b with [] => false | _ => true end)
                       (map (fun a => ranks sub (a_msgs a))
                            (filter (fun a => a_applied a && tp_eqb (a_tp a) tp) j)) in
  forallb increasing blocks && blocks_ok blocks.
Definition C07_holds (cs : list call) (j : list attempt) : bool :=
  forallb (fun c => forallb (fun m => C07_holds_for cs j (c_g c) (tp_of cfg m)) (c_msgs c)) cs.

End Hist.

(* Message.totalSize() of a message without headers: 4 (crc) + 1 + 1 + sizeofBytes(key) +
   sizeofBytes(value) + 8 (timestamp) + varArrayLen(0) = 1 *)
Definition total_size_nohdr (klen vlen : N) : N := (4 + 1 + 1 + (4 + klen) + (4 + vlen) + 8 + 1)%N.

(* ------------------------------------------------------------------------------------------
   Client.Produce (produce.go): what the Writer's retry loop sees of a produce response.
   ProduceResponse.Error = makeError(partition.ErrorCode, …): nil exactly for code 0, the
   error Error(code) for EVERY other int16 code, negative ones (UNKNOWN_SERVER_ERROR = -1)
   included; Throttle, BaseOffset, LogStartOffset are copied, LogAppendTime goes through
   makeTime (zero time for t <= 0).  Compared on all 65536 codes by the ops prr / pr of
   harness/cmd/writer.  [code_err] is the broker verdict "ok | err code" in the encoding of the
   interchange format (err = N: c for c > 0, 65536 + c for c < 0); the LTS takes any [e : err]
   in RejectedCode e, so no theorem depends on the sign or size of a code.
   ------------------------------------------------------------------------------------------ *)
From Coq Require Import ZArith.
Definition produce_error (code : Z) : option Z := if Z.eqb code 0 then None else Some code.
Definition make_time_ms (t : Z) : option Z := if Z.leb t 0 then None else Some t.
Definition code_err (code : Z) : option err :=
  match produce_error code with
  | None => None
  | Some c => Some (if Z.ltb c 0 then Z.to_N (65536 + c) else Z.to_N c)
  end.
(* the reaction of the fake broker that answers a produce request with partition error code c
   without appending (c <> 0), resp. appends and acknowledges (c = 0) *)
Definition reaction_of_code (code : Z) : reaction :=
  match code_err code with None => AppliedAcked | Some e => RejectedCode e end.

(* ------------------------------------------------------------------------------------------
   Writer options -> effective configuration: the accessor functions of writer.go
   (batchSize(), batchBytes(), maxAttempts(), batchTimeout(), writeBackoffMin/Max(),
   readTimeout(), writeTimeout()): a field that is not positive means its documented default.
   The config record the transition system runs with is built from the DEFAULTED values; the
   harness reads them through the accessors (VerifWriterEffective) and op cfgd compares the
   mapping itself.  Durations in milliseconds.
   ------------------------------------------------------------------------------------------ *)
Record woptions := mkOpt {
  o_batchSize : Z; o_batchBytes : Z; o_maxAttempts : Z; o_batchTimeoutMs : Z;
  o_backoffMinMs : Z; o_backoffMaxMs : Z; o_readTimeoutMs : Z; o_writeTimeoutMs : Z
}.
Definition dflt (v d : Z) : Z := if Z.ltb 0 v then v else d.
Definition eff_batchSize (o : woptions) : Z := dflt (o_batchSize o) 100.
Definition eff_batchBytes (o : woptions) : Z := dflt (o_batchBytes o) 1048576.
Definition eff_maxAttempts (o : woptions) : Z := dflt (o_maxAttempts o) 10.
Definition eff_batchTimeoutMs (o : woptions) : Z := dflt (o_batchTimeoutMs o) 1000.
Definition eff_backoffMinMs (o : woptions) : Z := dflt (o_backoffMinMs o) 100.
Definition eff_backoffMaxMs (o : woptions) : Z := dflt (o_backoffMaxMs o) 1000.
Definition eff_readTimeoutMs (o : woptions) : Z := dflt (o_readTimeoutMs o) 10000.
Definition eff_writeTimeoutMs (o : woptions) : Z := dflt (o_writeTimeoutMs o) 10000.
Definition cfg_of_options (o : woptions) (asy : bool) (wt : option N) (retr : err -> bool) : config :=
  mkCfg (Z.to_nat (eff_batchSize o)) (Z.to_N (eff_batchBytes o)) (Z.to_nat (eff_maxAttempts o)) asy wt retr.

(* ------------------------------------------------------------------------------------------
   Deadlines of the Writer's round trips as functions of the options (writer.go):
   produce()    : context.WithTimeout(…, w.writeTimeout()) and Client.Timeout = w.writeTimeout()
   partitions() : builds a Client with Timeout = w.readTimeout() but calls
                  client.transport().RoundTrip(ctx, …) directly, bypassing Client.roundTrip: the
                  metadata lookup runs under the CALLER's context only; ReadTimeout feeds no
                  deadline (the model mirrors the code that exists: None)
   Compared with the deadline the RoundTripper actually sees (op pdl of harness/cmd/writer).
   [timed_reaction]: what the client sees of a broker that applies the request and answers
   after [delay] ms: the acknowledgement, iff it arrives before the produce deadline; otherwise
   the attempt is abandoned with a deadline error (1005 in the interchange encoding, a
   temporary error) although it was applied.  Real time enters the transition system only
   through this choice of the reaction.
   ------------------------------------------------------------------------------------------ *)
Definition produce_deadline_ms (o : woptions) : Z := eff_writeTimeoutMs o.
Definition metadata_deadline_ms (o : woptions) : option Z := None.
Definition deadline_err : err := 1005%N.
Definition timed_reaction (o : woptions) (delay : Z) : reaction :=
  if Z.ltb delay (produce_deadline_ms o) then AppliedAcked else AppliedLost deadline_err.

(* ------------------------------------------------------------------------------------------
   Which errors make the Writer retry: part of the SPECIFICATION (not asked of the code).
   Error classes in the interchange encoding (err = N): Kafka partition error code c as c
   (65536 + c for c < 0); transport classes 1001 unexpected EOF (a cut response), 1002
   connection reset, 1003 broken pipe, 1004 connection refused, 1005 deadline exceeded
   (time-out of the round trip), 1006 a permanent non-network error, 1007 an error whose
   Temporary() is true, 1008 plain EOF.
   [kafka_table_retriable]: the codes whose RETRIABLE column is True in the Kafka protocol's
   error table (written from the table; codes up to 106, what /repo/error.go knows).
   [kafka_go_deviation]: codes where kafka-go's Error.Temporary() on the unchanged tree differs
   from the table — an observation reported to the coordinator, made explicit here instead of
   being adopted silently: 9 REPLICA_NOT_AVAILABLE is retriable in the table, not in kafka-go.
   [retriable_spec] is what the clean Writer is expected to do; op rtb compares
   isTemporary || isTransientNetworkError of the real code with it over every class.
   ------------------------------------------------------------------------------------------ *)
Definition mem_N (x : N) (l : list N) : bool := existsb (N.eqb x) l.
Definition kafka_table_retriable : list N :=
  [2; 3; 5; 6; 7; 9; 13; 14; 15; 16; 19; 20; 41; 56; 70; 71; 72; 74; 75; 78; 80; 83; 84; 85; 86;
   88; 89; 100; 103; 106]%N.
Definition kafka_go_deviation : list N := [9]%N.
Definition transport_retriable : list N := [1001; 1002; 1003; 1004; 1005; 1007]%N.
Definition retriable_spec (e : err) : bool :=
  (mem_N e kafka_table_retriable && negb (mem_N e kafka_go_deviation)) || mem_N e transport_retriable.

(* ------------------------------------------------------------------------------------------
   kafka.NewWriter(WriterConfig) -> Writer fields -> effective configuration.  Every field of
   the config that the model depends on is carried over unchanged (NewWriter has no back-off
   fields: defaults); RequiredAcks 0 means RequireAll (-1) there; a nil Balancer means
   round-robin.  op nwc compares the mapping field by field on the real constructor.
   ------------------------------------------------------------------------------------------ *)
Record wconfig := mkWc {
  wc_maxAttempts : Z; wc_batchSize : Z; wc_batchBytes : Z; wc_batchTimeoutMs : Z;
  wc_readTimeoutMs : Z; wc_writeTimeoutMs : Z; wc_requiredAcks : Z; wc_async : bool;
  wc_balancerNil : bool; wc_codec : Z
}.
Definition options_of_writer_config (c : wconfig) : woptions :=
  mkOpt (wc_batchSize c) (wc_batchBytes c) (wc_maxAttempts c) (wc_batchTimeoutMs c) 0 0
        (wc_readTimeoutMs c) (wc_writeTimeoutMs c).
Definition acks_of_writer_config (c : wconfig) : Z :=
  if Z.eqb (wc_requiredAcks c) 0 then (-1)%Z else wc_requiredAcks c.
Definition cfg_of_writer_config (c : wconfig) (wt : option N) (retr : err -> bool) : config :=
  cfg_of_options (options_of_writer_config c) (wc_async c) wt retr.

(* ------------------------------------------------------------------------------------------
   BatchTimeout counts from the batch's OPENING (newWriteBatch: time.NewTimer(batchTimeout) when
   the batch is created; nothing re-arms it when messages are added later).  In the transition
   system this is: the awaitBatch goroutine is spawned with the batch (new_batch) and its Timer
   step stays enabled whatever is added (C08_open_batch_has_timer).  Timed reading used by the
   trickle family: messages arrive at the (ascending) times [ts]; a batch opens with its first
   message at t0 and takes the following ones while they arrive before t0 + timeout and there
   is room — later arrivals never extend the deadline.
   ------------------------------------------------------------------------------------------ *)
Fixpoint take_batch (t0 timeout : Z) (room : nat) (ts : list Z) {struct ts} : list Z * list Z :=
  match ts with
  | [] => ([], [])
  | t :: rest =>
    match room with
    | O => ([], ts)
    | S r => if Z.ltb t (t0 + timeout)
             then let (b, rem) := take_batch t0 timeout r rest in (t :: b, rem)
             else ([], ts)
    end
  end.
Fixpoint batches_by_deadline (fuel : nat) (timeout : Z) (bsize : nat) (ts : list Z) {struct fuel} : list (list Z) :=
  match fuel, ts with
  | S f, t0 :: rest =>
    let (b, rem) := take_batch t0 timeout (pred bsize) rest in
    (t0 :: b) :: batches_by_deadline f timeout bsize rem
  | _, _ => []
  end.
(* the check on a recorded request: all its messages were accepted within timeout + margin of
   its first one, and it respects BatchSize *)
Definition span_ok (timeout margin : Z) (bsize : nat) (req : list Z) : bool :=
  match req with
  | [] => true
  | t0 :: _ => forallb (fun t => Z.leb t0 t && Z.leb t (t0 + timeout + margin)) req && (length req <=? bsize)
  end.

(* ------------------------------------------------------------------------------------------
   The Transport kafka.NewWriter builds from WriterConfig.Dialer and the config: SASL, TLS and
   ClientID are copied from the dialer independently of each other; IdleTimeout =
   IdleConnTimeout or 9 minutes; MetadataTTL = RebalanceInterval or 15 s (milliseconds here).
   ------------------------------------------------------------------------------------------ *)
Record wdialer := mkDialer { d_sasl : bool; d_tls : bool; d_clientID : bool }.
Record wtransport := mkTransport {
  t_sasl : bool; t_tls : bool; t_clientID : bool; t_idleMs : Z; t_ttlMs : Z; t_dial : bool
}.
Definition transport_of_writer_config (d : option wdialer) (idleMs ttlMs : Z) : wtransport :=
  let d' := match d with Some x => x | None => mkDialer false false false end in   (* DefaultDialer *)
  mkTransport (d_sasl d') (d_tls d') (d_clientID d')
              (if Z.eqb idleMs 0 then 540000%Z else idleMs)
              (if Z.eqb ttlMs 0 then 15000%Z else ttlMs) true.
