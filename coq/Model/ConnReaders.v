(* Model/ConnReaders.v — the response direction of the hand-written Conn codec: which reader
   decodes which response, over the reader combinators of Model/Legacy.v (read.go) and the
   response grammars of Model/ConnOps.v.  Definitions only.

   Every response struct with a hand-written readFrom() (findcoordinator.go, joingroup.go,
   syncgroup.go, heartbeat.go, leavegroup.go, offsetcommit.go, offsetfetch.go, listgroups.go,
   createtopics.go, deletetopics.go, saslhandshake.go, saslauthenticate.go, produce.go
   produceResponsePartitionV2/V7, listoffset.go partitionOffsetV1) reads its fields in the order
   of its grammar with readInt8..64 / readString / readBytes / readArrayWith, and metadata v1/v6
   goes through the reflective read(): each is [Legacy.read_ty] on its descriptor
   ([reader_ty], the descriptors of ConnOps.resp_ty).  The inline readers of conn.go (produce,
   list-offsets, ApiVersions) and the fetch header readers of read.go are ConnOps.produce_read,
   listoffsets_read, apiversions_read, fetch_header.

   Not in protocol/: the two blobs of the consumer group protocol the Conn's callers decode with
   hand-written readers (consumergroup.go): the member metadata carried by JoinGroup
   (joingroup.go groupMetadata.readFrom) and the member assignment carried by SyncGroup
   (syncgroup.go groupAssignment.readFrom -> read.go readMapStringInt32).  Their grammar
   (Kafka's ConsumerProtocolSubscription / ConsumerProtocolAssignment, version 0) is written
   here as [t_group_metadata] / [t_group_assignment]. *)
From Coq Require Import List NArith ZArith Bool.
From KV Require Import Lib.Bits Lib.Bytes Model.Legacy Model.ConnOps.
Import ListNotations.
Open Scope Z_scope.

(* ---- ConsumerProtocolSubscription v0: version:int16 topics:[string] user_data:bytes(nullable) ---- *)
Definition t_group_metadata : ty := tup [TI16; TArr TStr; TByt].
(* groupMetadata.readFrom: readInt16, readStringArray, readBytes *)
Definition read_group_metadata : P val :=
  v <- readInt16 ;; ts <- readStringArray ;; u <- readBytes ;;
  ret (VP (VZ v) (VP (VL (map VB ts)) (VB u))).

(* ---- ConsumerProtocolAssignment v0: version:int16 assigned:[topic:string partitions:[int32]]
        user_data:bytes(nullable) ---- *)
Definition t_group_assignment : ty := tup [TI16; TArr (tup [TStr; TArr TI32]); TByt].

(* content[key] = values on a Go map: a later entry with the same key replaces the earlier one;
   the map is compared as its entries sorted by key, so only "last one wins" matters *)
Fixpoint map_put (k : list N) (v : list Z) (m : list (list N * list Z)) {struct m}
  : list (list N * list Z) :=
  match m with
  | [] => [(k, v)]
  | (k', v') :: r => if list_eq_dec N.eq_dec k k' then (k, v) :: r else (k', v') :: map_put k v r
  end.
Definition map_of_entries (es : list (list N * list Z)) : list (list N * list Z) :=
  fold_left (fun m e => map_put (fst e) (snd e) m) es [].

(* groupAssignment.readFrom: an empty blob (size 0) is the empty assignment; otherwise readInt16,
   readMapStringInt32, readBytes.  The result: version, the map (entries in first-insertion
   order, see [map_of_entries]), user data. *)
Definition read_group_assignment : P val :=
  sz <- get_sz ;;
  if sz =? 0 then ret (VP (VZ 0) (VP (VL []) (VB [])))
  else
    v <- readInt16 ;; es <- readMapStringInt32 ;; u <- readBytes ;;
    ret (VP (VZ v)
            (VP (VL (map (fun e => VP (VB (fst e)) (VL (map VZ (snd e)))) (map_of_entries es)))
                (VB u))).

(* ---- which reader for which response ---- *)
Inductive reader :=
| RStruct (a : api) (v : N)       (* the whole response struct: readFrom() / read() *)
| RProducePartition (v : N)       (* produceResponsePartitionV2 (v2, v3) / V7 .readFrom *)
| RListOffsetsPartition           (* partitionOffsetV1.readFrom *)
| RFetchHeader (v : N)            (* readFetchResponseHeaderV2 / V5 / V10 *)
| RApiVersions                    (* the read callback of Conn.ApiVersions *)
| RGroupMetadata
| RGroupAssignment.

(* the grammar of what the reader is given *)
Definition reader_ty (r : reader) : ty :=
  match r with
  | RStruct a v => resp_ty a v
  | RProducePartition v => t_produce_part v
  | RListOffsetsPartition => t_listoffset_part
  | RFetchHeader v => resp_ty AFetch v     (* up to and including the message set (BYTES) *)
  | RApiVersions => resp_ty AApiVersions 0
  | RGroupMetadata => t_group_metadata
  | RGroupAssignment => t_group_assignment
  end.

(* the decoded value *)
Definition reader_run (r : reader) : P val :=
  match r with
  | RStruct a v => read_ty (resp_ty a v)
  | RProducePartition v => read_ty (t_produce_part v)
  | RListOffsetsPartition => read_ty t_listoffset_part
  | RFetchHeader v => th <- fetch_header v ;; ret (VP (VZ (fst th)) (VZ (snd th)))
  | RApiVersions => apiversions_read
  | RGroupMetadata => read_group_metadata
  | RGroupAssignment => read_group_assignment
  end.

(* the struct readers the Conn has (a [RStruct a v] outside this list has no readFrom) *)
Definition struct_reader (a : api) (v : N) : bool :=
  negotiated a v &&
  match a with
  | AProduce | AFetch | AFetchRead _ | AListOffsets | AApiVersions => false
  | _ => true
  end.
