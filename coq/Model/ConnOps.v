(* Model/ConnOps.v — per operation of kafka.Conn, the response reader exactly as written in
   conn.go / read.go (fetch headers) / the per-API readFrom methods: which fields are read,
   where an error code makes it return early, what is discarded; then [conn_do]: one
   request/response exchange on a connection (doRequest, waitResponse, the read callback,
   "a Kafka error keeps the connection, any other error closes it", Batch.close for fetch).
   Definitions only. *)
From Coq Require Import List NArith ZArith Bool.
From KV Require Import Lib.Bits Lib.Bytes Model.Legacy.
Import ListNotations.
Open Scope Z_scope.

Inductive api :=
| AProduce | AFetch | AListOffsets | AMetadata | ABrokers | AController
| AFindCoordinator | AJoinGroup | ASyncGroup | AHeartbeat | ALeaveGroup
| AOffsetCommit | AOffsetFetch | AListGroups | ACreateTopics | ADeleteTopics
| AApiVersions | ASaslHandshake | ASaslAuthenticate
| AFetchRead (acts : list Z).   (* fetch, then Batch.Read / ReadMessage calls, then Batch.Close:
                                  an action a >= 0 is Read into a buffer of a bytes, -1 is ReadMessage *)

(* an operation: the API, the version negotiated for it (apiVersionMap.negotiate pinned by
   the broker's ApiVersions answer) and, for fetch, the offset the Conn was seeked to *)
Record op := mkOp { op_api : api; op_ver : N; op_off : Z }.

(* apiVersionMap.negotiate: the highest supported version not above the broker's max, or -1 *)
Fixpoint negotiate_rev (broker_max : Z) (rev_supported : list Z) {struct rev_supported} : Z :=
  match rev_supported with
  | [] => -1
  | s :: r => if s <=? broker_max then s else negotiate_rev broker_max r
  end.
Definition negotiate (broker_max : Z) (sorted_supported : list Z) : Z :=
  negotiate_rev broker_max (rev sorted_supported).

(* the versions Conn can end up using per API (the lists handed to negotiateVersion, or the
   fixed version of the request) *)
Definition negotiated (a : api) (v : N) : bool :=
  let among (l : list N) := existsb (N.eqb v) l in
  match a with
  | AProduce => among [2; 3; 7] | AFetch | AFetchRead _ => among [2; 5; 10]
  | AMetadata => among [1; 6] | AJoinGroup => among [1; 2]
  | ACreateTopics => among [0; 1; 2] | ADeleteTopics | ASaslHandshake => among [0; 1]
  | AListOffsets | ABrokers | AController | AOffsetFetch | AListGroups => among [1]
  | AOffsetCommit => among [2]
  | _ => among [0]
  end%N.

(* struct types as right-nested pairs *)
Fixpoint tup (l : list ty) : ty :=
  match l with
  | [] => TUnit
  | [t] => t
  | t :: r => TPair t (tup r)
  end.
Fixpoint vflat (v : val) : list val :=
  match v with
  | VP a b => a :: vflat b
  | _ => [v]
  end.
Definition field (i : nat) (v : val) : val := nth i (vflat v) VU.
Definition zof (v : val) : Z := match v with VZ z => z | _ => 0 end.
Definition lof (v : val) : list val := match v with VL l => l | _ => [] end.
Definition bof (v : val) : list N := match v with VB b => b | _ => [] end.
Definition zfield (i : nat) (v : val) : Z := zof (field i v).

(* ---- response grammars (fields in the order the readFrom methods / struct types list them) ---- *)
Definition t_broker := tup [TI32; TStr; TI32; TStr].
Definition t_partmeta_v1 := tup [TI16; TI32; TI32; TArr TI32; TArr TI32].
Definition t_partmeta_v6 := tup [TI16; TI32; TI32; TArr TI32; TArr TI32; TArr TI32].
Definition t_topicmeta (p : ty) := tup [TI16; TStr; TBool; TArr p].
Definition t_metadata_v1 := tup [TArr t_broker; TI32; TArr (t_topicmeta t_partmeta_v1)].
Definition t_metadata_v6 :=
  tup [TI32; TArr t_broker; TStr; TI32; TArr (t_topicmeta t_partmeta_v6)].
Definition t_produce_part (v : N) : ty :=
  if (v =? 7)%N then tup [TI32; TI16; TI64; TI64; TI64] else tup [TI32; TI16; TI64; TI64].
Definition t_fetch_part_v2 := tup [TI32; TI16; TI64; TI32].      (* …, MessageSetSize *)
Definition t_fetch_part_v5 := tup [TI32; TI16; TI64; TI64; TI64].
Definition t_aborted := tup [TI64; TI64].
Definition t_listoffset_part := tup [TI32; TI16; TI64; TI64].

(* whole response bodies, for the reference encoder [enc] (the message set is BYTES:
   int32 size + the bytes; RECORDS are never null on the wire but a null encodes the same
   as in the guide) *)
Definition resp_ty (a : api) (v : N) : ty :=
  match a with
  | AProduce => tup [TArr (tup [TStr; TArr (t_produce_part v)]); TI32]
  | AFetch | AFetchRead _ =>
      if (v =? 2)%N then tup [TI32; TArr (tup [TStr; TArr (tup [TI32; TI16; TI64; TByt])])]
      else
        let part := tup [TI32; TI16; TI64; TI64; TI64; TArr t_aborted; TByt] in
        if (v =? 5)%N then tup [TI32; TArr (tup [TStr; TArr part])]
        else tup [TI32; TI16; TI32; TArr (tup [TStr; TArr part])]
  | AListOffsets => TArr (tup [TStr; TArr t_listoffset_part])
  | AMetadata => if (v =? 6)%N then t_metadata_v6 else t_metadata_v1
  | ABrokers | AController => t_metadata_v1
  | AFindCoordinator => tup [TI16; TI32; TStr; TI32]
  | AJoinGroup =>
      let body := [TI16; TI32; TStr; TStr; TStr; TArr (tup [TStr; TByt])] in
      if (2 <=? v)%N then tup (TI32 :: body) else tup body
  | ASyncGroup => tup [TI16; TByt]
  | AHeartbeat | ALeaveGroup => TI16
  | AOffsetCommit => TArr (tup [TStr; TArr (tup [TI32; TI16])])
  | AOffsetFetch => TArr (tup [TStr; TArr (tup [TI32; TI64; TStr; TI16])])
  | AListGroups => tup [TI32; TI16; TArr (tup [TStr; TStr])]
  | ACreateTopics =>
      let te := if (1 <=? v)%N then tup [TStr; TI16; TStr] else tup [TStr; TI16] in
      if (2 <=? v)%N then tup [TI32; TArr te] else TArr te
  | ADeleteTopics =>
      if (1 <=? v)%N then tup [TI32; TArr (tup [TStr; TI16])] else TArr (tup [TStr; TI16])
  | AApiVersions => tup [TI16; TArr (tup [TI16; TI16; TI16])]
  | ASaslHandshake => tup [TI16; TArr TStr]
  | ASaslAuthenticate => tup [TI16; TStr; TByt]
  end.

(* the operations whose response is read by "readFrom the whole struct, expectZeroSize,
   THEN look at the error codes" (conn.go findCoordinator … saslAuthenticate, and
   readResponse for metadata: read() never returns a kafka.Error, so its drain branch is dead) *)
Definition schema_api (a : api) : bool :=
  match a with
  | AProduce | AFetch | AFetchRead _ | AListOffsets | AApiVersions => false
  | _ => true
  end.

Definition first_nonzero (l : list Z) : option Z := find (fun z => negb (z =? 0)) l.

(* error codes looked at after a successful read, in the order the Conn method checks them;
   [topic] is the Conn's configured topic (ReadPartitions reports only its own topic's error) *)
Definition post_error (topic : list N) (a : api) (v : N) (r : val) : option Z :=
  let eqb_bytes (x y : list N) := if list_eq_dec N.eq_dec x y then true else false in
  match a with
  | AFindCoordinator | ASyncGroup | AHeartbeat | ALeaveGroup | ASaslHandshake | ASaslAuthenticate
  | AApiVersions =>
      first_nonzero [zfield 0 r]
  | AJoinGroup => first_nonzero [zfield (if (2 <=? v)%N then 1 else 0)%nat r]
  | AListGroups => first_nonzero [zfield 1 r]
  | AOffsetCommit =>
      first_nonzero (flat_map (fun t => map (zfield 1) (lof (field 1 t))) (lof r))
  | AOffsetFetch =>
      first_nonzero (flat_map (fun t => map (zfield 3) (lof (field 1 t))) (lof r))
  | ACreateTopics =>
      let tes := lof (if (2 <=? v)%N then field 1 r else r) in
      find (fun z => negb (z =? 0) && negb (z =? 36)) (map (zfield 1) tes)
  | ADeleteTopics =>
      let tes := lof (if (1 <=? v)%N then field 1 r else r) in
      first_nonzero (map (zfield 1) tes)
  | AMetadata =>
      let topics := lof (field (if (v =? 6)%N then 4 else 2)%nat r) in
      first_nonzero (map (fun t =>
        if match topic with [] => true | _ => eqb_bytes (bof (field 1 t)) topic end
        then zfield 0 t else 0) topics)
  | _ => None
  end.

Definition last_or {A} (d : A) (l : list A) : A := last l d.

(* ---- conn.go writeCompressedMessages: the produce response reader ---- *)
Definition produce_partition (v : N) : P val :=
  p <- read_ty (t_produce_part v) ;;
  if zfield 1 p =? 0 then ret (VL [field 0 p; field 2 p; field 3 p]) else fail (EKafka (zfield 1 p)).
Definition produce_read (v : N) : P val :=
  expectZeroSize (skipRemainingOnKafkaError (
    ts <- readArrayWith (
      _ <- discardString ;;
      ps <- readArrayWith (produce_partition v) ;;
      _ <- discardInt32 ;;                 (* "the response is trailed by the throttle time" *)
      ret ps) ;;
    ret (last_or (VL [VZ 0; VZ 0; VZ 0]) (concat ts)))).

(* ---- conn.go readOffset: list-offsets v1 ---- *)
Definition listoffsets_read : P val :=
  expectZeroSize (
    ts <- readArrayWith (
      _ <- discardString ;;
      readArrayWith (
        p <- read_ty t_listoffset_part ;;
        if zfield 1 p =? 0 then ret (field 3 p) else fail (EKafka (zfield 1 p)))) ;;
    ret (last_or (VZ 0) (concat ts))).

(* ---- read.go readFetchResponseHeaderV2/V5/V10: result (throttle, high watermark);
   the remaining size is then the size of the message set ---- *)
Definition expect_one (tag : N) : P unit :=
  n <- readInt32 ;; if n =? 1 then ret tt else fail (EFmt tag).
Definition aborted_txs : P unit :=
  n <- readArrayLen ;;
  if n =? -1 then ret tt
  else if n <? 0 then fail (EFmt 6)                     (* "invalid number of aborted transactions" *)
  else (_ <- rep (Z.to_nat n) (read_ty t_aborted) ;; ret tt).
Definition check_msgset_size (declared : Z) : P unit :=
  remain <- get_sz ;; if remain =? declared then ret tt else fail (EFmt 3).

Definition fetch_header_v2 : P (Z * Z) :=
  throttle <- readInt32 ;;
  _ <- expect_one 1 ;; _ <- discardString ;; _ <- expect_one 2 ;;
  p <- read_ty t_fetch_part_v2 ;;
  if negb (zfield 1 p =? 0) then fail (EKafka (zfield 1 p)) else
  _ <- check_msgset_size (zfield 3 p) ;;
  ret (throttle, zfield 2 p).
Definition fetch_partition_v5 (throttle : Z) : P (Z * Z) :=
  _ <- expect_one 1 ;; _ <- discardString ;; _ <- expect_one 2 ;;
  p <- read_ty t_fetch_part_v5 ;;
  _ <- aborted_txs ;;
  if negb (zfield 1 p =? 0) then fail (EKafka (zfield 1 p)) else
  sz <- readInt32 ;;
  _ <- check_msgset_size sz ;;
  ret (throttle, zfield 2 p).
Definition fetch_header_v5 : P (Z * Z) :=
  throttle <- readInt32 ;; fetch_partition_v5 throttle.
Definition fetch_header_v10 : P (Z * Z) :=
  throttle <- readInt32 ;;
  e <- readInt16 ;;
  if negb (e =? 0) then fail (EKafka e) else
  _ <- discardInt32 ;;
  fetch_partition_v5 throttle.
Definition fetch_header (v : N) : P (Z * Z) :=
  if (v =? 10)%N then fetch_header_v10 else if (v =? 5)%N then fetch_header_v5 else fetch_header_v2.

(* message_reader.go readNextHeader: the header of the next message (magic 0/1) or record batch
   (magic 2); what the reader keeps of it *)
Record mstate := mkM {
  m_count : Z;      (* readerStack.count: messages left under the current header *)
  m_magic : Z;
  m_first : Z;      (* header.firstOffset *)
  m_attr : Z;       (* attributes (compression bits) *)
  m_hcount : Z      (* header.v2.count *)
}.
Definition next_header : P mstate :=
  first <- readInt64 ;; _ <- readInt32 ;; _ <- readInt32 ;;
  magic <- readInt8 ;;
  if magic =? 0 then (a <- readInt8 ;; ret (mkM 1 0 first a 1))
  else if magic =? 1 then (a <- readInt8 ;; _ <- readInt64 ;; ret (mkM 1 1 first a 1))
  else if magic =? 2 then
    (_ <- readInt32 ;; a <- readInt16 ;; _ <- readInt32 ;; _ <- readInt64 ;; _ <- readInt64 ;;
     _ <- readInt64 ;; _ <- readInt16 ;; _ <- readInt32 ;; c <- readInt32 ;; ret (mkM c 2 first a c))
  else fail (EFmt 4).
(* newMessageSetReader: the first header *)
Definition msg_header : P Z := m <- next_header ;; ret (m_magic m).

(* ---- reading messages: message_reader.go readMessage / readMessageV1 / readMessageV2 for
   uncompressed sets, batch.go Read / ReadMessage.  Not modelled (explicit EUnmodelled):
   compressed sets, record batches without records, messages below the requested offset. ---- *)
Definition read_header (m : mstate) : P mstate :=
  if 0 <? m_count m then ret m
  else
    m' <- next_header ;;
    if (m_magic m' =? 2) && (m_count m' <=? 0) then fail EUnmodelled else ret m'.

Definition compressed (attr : Z) : bool := negb (Z.land attr 7 =? 0).

(* one message: (new reader state, offset, key result, value result) *)
Definition read_v1 {K V} (key : Z -> P K) (val : Z -> P V) (min : Z) (m : mstate) : P (mstate * Z * K * V) :=
  remain <- get_sz ;;
  if remain =? 0 then fail EShort else            (* the stack is exhausted: errShortRead *)
  if compressed (m_attr m) then fail EUnmodelled else
  if m_first m <? min then fail EUnmodelled else
  k <- readBytesWith key ;;
  v <- readBytesWith val ;;
  ret (mkM (m_count m - 1) (m_magic m) (m_first m) (m_attr m) (m_hcount m), m_first m, k, v).

Definition record_header : P unit :=
  kl <- readVarInt ;; _ <- readNewBytes kl ;; vl <- readVarInt ;; _ <- readNewBytes vl ;; ret tt.

Definition read_v2 {K V} (key : Z -> P K) (val : Z -> P V) (m : mstate) : P (mstate * Z * K * V) :=
  if (m_count m =? m_hcount m) && compressed (m_attr m) then fail EUnmodelled else
  _ <- readVarInt ;;                              (* record length *)
  _ <- readInt8 ;;                                (* attributes *)
  _ <- readVarInt ;;                              (* timestamp delta *)
  od <- readVarInt ;;                             (* offset delta *)
  kl <- readVarInt ;; k <- key kl ;;
  vl <- readVarInt ;; v <- val vl ;;
  hc <- readVarInt ;;
  _ <- (if 0 <? hc then rep (Z.to_nat hc) record_header else ret []) ;;
  ret (mkM (m_count m - 1) (m_magic m) (m_first m) (m_attr m) (m_hcount m), m_first m + od, k, v).

Definition read_one {K V} (key : Z -> P K) (val : Z -> P V) (min : Z) (m : mstate)
  : P (mstate * Z * K * V) :=
  m1 <- read_header m ;;
  if m_magic m1 =? 2 then read_v2 key val m1 else read_v1 key val min m1.

(* batch.go Read(b) with cap(b) = len(b) = c: the key is discarded; of the value min(n, c) bytes
   are read into b and the rest discarded; result (n, the bytes put into b) *)
Definition read_key_cb (n : Z) : P unit := if n <? 0 then ret tt else discardN n.
Definition read_val_cb (c : Z) (n : Z) : P (Z * list N) :=
  if n <? 0 then ret (0, []) else
  _ <- guard_short n ;;
  let k := Z.min n c in
  b <- readNewBytes k ;;
  _ <- discardN (n - k) ;;
  ret (n, b).

(* outcome of one action, as a value: [kind; n or offset; key; bytes; class]
   kind 0 = Read, 1 = ReadMessage; class 0 = ok, 1 = io.ErrShortBuffer, 2 = io.EOF (end of batch) *)
Definition act_val (kind n : Z) (k b : list N) (cls : Z) : val :=
  VL [VZ kind; VZ n; VB k; VB b; VZ cls].
Definition fin_val (flag boff : Z) (outs : list val) : val := VL [VZ flag; VZ boff; VL outs].

(* the actions in order, stopping at io.ErrShortBuffer (batch offset rolled back to the message
   that did not fit) or at the end of the batch; [boff] is Batch.offset *)
Fixpoint run_acts (acts : list Z) (m : mstate) (boff : Z) (outs : list val) {struct acts} : P val :=
  match acts with
  | [] => ret (fin_val 0 boff outs)
  | a :: rest =>
      if a <? 0 then
        x <- try_short (read_one readNewBytes readNewBytes boff m) ;;
        match x with
        | None => ret (fin_val 0 boff (outs ++ [act_val 1 0 [] [] 2]))
        | Some (m', off, k, v) =>
            run_acts rest m' (if boff <=? off then off + 1 else boff) (outs ++ [act_val 1 off k v 0])
        end
      else
        x <- try_short (read_one read_key_cb (read_val_cb a) boff m) ;;
        match x with
        | None => ret (fin_val 0 boff (outs ++ [act_val 0 0 [] [] 2]))
        | Some (m', off, _, (n, b)) =>
            if a <? n then ret (fin_val 1 boff (outs ++ [act_val 0 a [] b 1]))       (* rollback *)
            else run_acts rest m' (if boff <=? off then off + 1 else boff) (outs ++ [act_val 0 n [] b 0])
        end
  end.

(* ---- conn.go ApiVersions: the read callback (no expectZeroSize); the error code is looked at
   after Conn.do returned ---- *)
Definition apiversions_read : P val :=
  e <- readInt16 ;;
  n <- readInt32 ;;
  if n <? 0 then fail (EFmt 5)                          (* "invalid number of api versions" *)
  else
    l <- rep (Z.to_nat n) (read_ty (tup [TI16; TI16; TI16])) ;;
    ret (VP (VZ e) (VL l)).

Definition is_kafka (e : err) : bool :=
  match e with EKafka _ => true | _ => false end.
Definition dontExpectEOF (e : err) : err := match e with EEOF => EUnexpEOF | _ => e end.
(* checkTimeoutErr with no deadline elapsed: errShortRead becomes io.EOF *)
Definition short_to_eof (e : err) : err := match e with EShort => EEOF | _ => e end.

(* ---- conn.go ReadBatchWith after waitResponse, followed by Batch.Close without reading a
   message, as one reader: header (the unread remainder is skipped when the broker reported an
   error); highWaterMark = offset: the empty reader, the message set is discarded; otherwise
   newMessageSetReader reads the first header and Batch.close discards what remains (its error
   is now reported).  When the first message header fails the Batch carries that error and the
   Conn is closed by Batch.close: what close's discard then consumes is not observable and is
   left out. ---- *)
Definition discard_remaining : P unit := remain <- get_sz ;; discardN remain.
Definition fetch_read (v : N) (off : Z) : P val :=
  h <- skipRemainingOnKafkaError (fetch_header v) ;;
  let r := VL [VZ (fst h); VZ (snd h)] in
  if snd h =? off then (_ <- discard_remaining ;; ret r)
  else (_ <- msg_header ;; _ <- discard_remaining ;; ret r).

(* ReadBatchWith, the Read / ReadMessage actions, Batch.Close.  With highWaterMark = offset the
   reader is the empty one: only the case without actions is modelled. *)
Definition fetch_reads (v : N) (off : Z) (acts : list Z) : P val :=
  h <- skipRemainingOnKafkaError (fetch_header v) ;;
  if snd h =? off then
    (_ <- discard_remaining ;;
     match acts with [] => ret (fin_val 0 off []) | _ => fail EUnmodelled end)
  else
    m <- next_header ;;
    r <- run_acts acts m off [] ;;
    _ <- discard_remaining ;;
    ret r.

(* the read callback handed to Conn.do (for fetch: see above) *)
Definition op_read (a : api) (v : N) (off : Z) : P val :=
  match a with
  | AProduce => produce_read v
  | AListOffsets => listoffsets_read
  | AFetch => fetch_read v off
  | AFetchRead acts => fetch_reads v off acts
  | AApiVersions => apiversions_read
  | _ => expectZeroSize (read_ty (resp_ty a v))
  end.

(* how the error of the read phase reaches the caller: ReadBatchWith maps errShortRead through
   checkTimeoutErr and io.EOF through dontExpectEOF; Conn.do returns it unchanged *)
Definition map_err (a : api) (e : err) : err :=
  match a with AFetch | AFetchRead _ => dontExpectEOF (short_to_eof e) | _ => e end.

(* ---- the connection ---- *)
Record conn_state := mkConn {
  closed : bool;          (* Conn.conn has been closed by the Conn itself *)
  corr : Z;               (* Conn.correlationID *)
  cfg_topic : list N;     (* Conn.topic *)
  offset : Z              (* Conn.offset *)
}.
Definition fresh (topic : list N) : conn_state := mkConn false 0 topic (-1).

Inductive result := ROk (v : val) | RErr (e : err).

(* waitResponse with a single goroutine on the Conn (concurrency() = 1): peek size and
   correlation id; a peek error closes the connection; a foreign id is io.ErrNoProgress and
   nothing is consumed (and nothing is closed) *)
Definition wait_response (id : Z) (s : list N) : sum Z err * list N * bool :=
  if (length s <? 8)%nat then (inr EEOF, s, true)
  else
    let rsz := get_bes 4 (firstn 4 s) in
    let rid := get_bes 4 (firstn 4 (skipn 4 s)) in
    if rid =? id then (inl (rsz - 4), skipn 8 s, false) else (inr ENoProgress, s, false).

Definition set_closed (st : conn_state) (b : bool) : conn_state :=
  mkConn b (corr st) (cfg_topic st) (offset st).

(* post-processing of a successfully read response (after Conn.do returned nil) *)
Definition post (topic : list N) (a : api) (v : N) (r : val) : result :=
  match post_error topic a v r with
  | Some c => RErr (EKafka c)
  | None =>
      match a with
      | AController =>
          ROk (match find (fun b => zfield 0 b =? zfield 1 r) (lof (field 0 r)) with
               | Some b => b
               | None => VP (VZ 0) (VP (VB []) (VP (VZ 0) (VB [])))    (* Broker{} *)
               end)
      | ABrokers => ROk (field 0 r)
      | AApiVersions => ROk (field 1 r)
      | _ => ROk r
      end
  end.

Definition op_offset (st : conn_state) (o : op) : Z :=
  match op_api o with AFetch | AFetchRead _ => op_off o | _ => offset st end.

(* one operation on the connection; [s] is what the peer sends from now on (end of list =
   the peer closed).  Returns the new state, the result, and the unconsumed stream.
   Conn.do / ReadBatchWith+Batch.close: a Kafka error keeps the connection, any other error
   closes it. *)
Definition conn_do (st : conn_state) (o : op) (s : list N) : conn_state * result * list N :=
  let id := wrap32 (corr st + 1) in
  let a := op_api o in
  let off := op_offset st o in
  let st1 := mkConn (closed st) id (cfg_topic st) off in
  if closed st then (st1, RErr EClosed, s)       (* doRequest: the write fails *)
  else
    match wait_response id s with
    | (inr e, s', cl) => (set_closed st1 cl, RErr (map_err a e), s')
    | (inl size, s', _) =>
        match op_read a (op_ver o) off size s' with
        | (inl v, _, s'') => (st1, post (cfg_topic st) a (op_ver o) v, s'')
        | (inr e, _, s'') =>
            (set_closed st1 (negb (is_kafka (map_err a e))), RErr (map_err a e), s'')
        end
    end.

(* a run of operations over one incoming stream *)
Fixpoint conn_run (st : conn_state) (ops : list op) (s : list N) {struct ops}
  : conn_state * list result * list N :=
  match ops with
  | [] => (st, [], s)
  | o :: r =>
      let '(st1, res, s1) := conn_do st o s in
      let '(st2, rs, s2) := conn_run st1 r s1 in
      (st2, res :: rs, s2)
  end.

(* a response frame: int32 size (correlation id + body), int32 correlation id, body *)
Definition frame (id : Z) (body : list N) : list N :=
  put_bes 4 (Z.of_nat (length body) + 4) ++ put_bes 4 id ++ body.

(* the request of the Conn names one topic and one partition for produce / fetch /
   list-offsets; a well-formed response answers exactly that *)
Definition single_topic_partition (a : api) (v : N) (w : wval) : Prop :=
  let one_tp (topics : wval) := exists name part, topics = WL (Some [WP name (WL (Some [part]))]) in
  match a with
  | AProduce => exists topics thr, w = WP topics thr /\ one_tp topics
  | AListOffsets => one_tp w
  | AFetch | AFetchRead _ =>
      if (v =? 10)%N then exists thr e sid topics, w = WP thr (WP e (WP sid topics)) /\ one_tp topics
      else exists thr topics, w = WP thr topics /\ one_tp topics
  | _ => True
  end.

Definition well_formed (a : api) (v : N) (w : wval) : Prop :=
  wt (resp_ty a v) w /\ single_topic_partition a v w.

(* ---- Conn.inflight (conn.go enter / leave / concurrency) ----
   doRequest does c.enter(); its error exit does c.leave(); waitResponse does c.leave() at the
   single exit of its loop.  The desynchronisation detector of waitResponse ("a foreign
   correlation id while concurrency() = 1 is io.ErrNoProgress") reads the counter: with a
   foreign id at the head of the stream and concurrency() <> 1 the loop unlocks and starts
   over, waiting for another goroutine to consume the frame — when there is none, forever
   (Peek is served from the buffer, deadlines do not fire).  [conn_do_i] threads the counter
   through one call; [Spins] = the call never returns. *)
Inductive outcome := Returns (r : result) | Spins.

Definition foreign_head (id : Z) (s : list N) : bool :=
  negb (length s <? 8)%nat && negb (get_bes 4 (firstn 4 (skipn 4 s)) =? id).

Definition conn_do_i (sti : conn_state * Z) (o : op) (s : list N)
  : (conn_state * Z) * outcome * list N :=
  let '(st, n) := sti in
  let n1 := n + 1 in                                   (* doRequest: c.enter() *)
  if closed st then
    let '(st', r, s') := conn_do st o s in
    ((st', n1 - 1), Returns r, s')                      (* the write failed: c.leave() *)
  else if foreign_head (wrap32 (corr st + 1)) s && negb (n1 =? 1) then
    ((mkConn false (wrap32 (corr st + 1)) (cfg_topic st) (op_offset st o), n1), Spins, s)
  else
    let '(st', r, s') := conn_do st o s in
    ((st', n1 - 1), Returns r, s').                     (* the exit of waitResponse's loop: c.leave() *)

(* a run stops at the first call that never returns *)
Fixpoint conn_run_i (sti : conn_state * Z) (ops : list op) (s : list N) {struct ops}
  : (conn_state * Z) * list outcome * list N :=
  match ops with
  | [] => (sti, [], s)
  | o :: r =>
      match conn_do_i sti o s with
      | (sti1, Spins, s1) => (sti1, [Spins], s1)
      | (sti1, out, s1) =>
          let '(sti2, outs, s2) := conn_run_i sti1 r s1 in
          (sti2, out :: outs, s2)
      end
  end.

(* ---- version negotiation: conn.go negotiateVersion / loadVersions ----
   The version map is loaded lazily by the first operation that negotiates: an implicit
   ApiVersions exchange whose answer is cached ONLY when it succeeded; on an error (a Kafka error
   code keeps the Conn) nothing is cached and the next negotiating operation asks again. *)
Definition supported (a : api) : option (Z * list Z) :=      (* api key, versions offered *)
  match a with
  | AProduce => Some (0, [2; 3; 7])
  | AFetch | AFetchRead _ => Some (1, [2; 5; 10])
  | AMetadata => Some (3, [1; 6])
  | AJoinGroup => Some (11, [1; 2])
  | ASaslHandshake => Some (17, [0; 1])
  | ACreateTopics => Some (19, [0; 1; 2])
  | ADeleteTopics => Some (20, [0; 1])
  | _ => None
  end.
Definition fixed_version (a : api) : N :=
  match a with
  | AListOffsets | ABrokers | AController | AOffsetFetch | AListGroups => 1
  | AOffsetCommit => 2
  | _ => 0
  end%N.
(* apiVersionMap: api key -> MaxVersion; built by "v[key] = a" in list order (the last entry of
   a key wins); a missing key reads as the zero ApiVersion (MaxVersion 0) *)
Definition vtable := list (Z * Z).
Definition table_of (r : val) : vtable := map (fun e => (zfield 0 e, zfield 2 e)) (lof r).
Definition max_version (t : vtable) (key : Z) : Z :=
  match find (fun e => fst e =? key) (rev t) with Some e => snd e | None => 0 end.

Definition nconn : Type := (conn_state * option vtable)%type.

(* one operation of the public / group API, version negotiated by the Conn *)
Definition conn_nop (c : nconn) (a : api) (off : Z) (s : list N) : nconn * result * list N :=
  let '(st, vers) := c in
  match supported a with
  | None =>
      let '(st', r, s') := conn_do st (mkOp a (fixed_version a) off) s in ((st', vers), r, s')
  | Some (key, offered) =>
      (* loadVersions *)
      let loaded :=
        match vers with
        | Some t => (st, Some t, s, None)
        | None =>
            match conn_do st (mkOp AApiVersions 0 0) s with
            | (st1, ROk r, s1) => (st1, Some (table_of r), s1, None)        (* c.apiVersions.Store(v) *)
            | (st1, RErr e, s1) => (st1, None, s1, Some e)
            end
        end in
      match loaded with
      | (st1, vers1, s1, Some e) =>
          (* ReadBatchWith wraps it in a Batch: dontExpectEOF *)
          let e' := match a with AFetch | AFetchRead _ => dontExpectEOF e | _ => e end in
          ((st1, vers1), RErr e', s1)
      | (st1, None, s1, None) => ((st1, None), RErr EUnmodelled, s1)          (* not reachable *)
      | (st1, Some t, s1, None) =>
          let v := negotiate (max_version t key) offered in
          if v <? 0 then ((st1, Some t), RErr (EFmt 7), s1)     (* "no matching versions were found" *)
          else
            let '(st', r, s') := conn_do st1 (mkOp a (Z.to_N v) off) s1 in ((st', Some t), r, s')
      end
  end.

(* ---- which deadline bounds an exchange (conn.go readOperation / writeOperation / ReadBatchWith /
   ApiVersions): the connDeadline handed to doRequest / waitResponse is installed as BOTH the write
   deadline of the request and the read deadline of the response on the net.Conn.  ApiVersions —
   also run implicitly by loadVersions inside the first negotiating call — uses the read deadline,
   and FALLS BACK TO THE WRITE DEADLINE when no read deadline is set (a producer that only calls
   SetWriteDeadline).  None = nothing bounds the exchange: a silent peer blocks the call forever. ---- *)
Inductive side := SRead | SWrite.
Definition op_side (a : api) : side :=
  match a with
  | AProduce | AJoinGroup | AHeartbeat | ALeaveGroup | AOffsetCommit
  | ACreateTopics | ADeleteTopics | ASaslHandshake | ASaslAuthenticate => SWrite
  | _ => SRead
  end.
Definition deadline_of (rset wset : bool) (a : api) : option side :=
  match a with
  | AApiVersions => if rset then Some SRead else if wset then Some SWrite else None
  | _ => match op_side a with
         | SRead => if rset then Some SRead else None
         | SWrite => if wset then Some SWrite else None
         end
  end.
(* the exchange in which a silent peer is met: the implicit ApiVersions one when the operation
   negotiates and the versions are not loaded yet, the operation's own otherwise *)
Definition stalled_exchange (loaded : bool) (a : api) : api :=
  match supported a with
  | Some _ => if loaded then a else AApiVersions
  | None => a
  end.
