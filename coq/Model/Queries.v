(* Model/Queries.v — executable model of the offset / metadata queries of /repo
   (property C19).  Definitions only.

   conn.go            Conn.Seek, ReadOffsets, readOffset, ReadPartitions (readTopicMetadatav1/v6, makeBrokers)
   protocol/listoffsets/listoffsets.go   Request.Split, Response.Merge
   listoffset.go      Client.ListOffsets
   offsetfetch.go     Client.OffsetFetch
   offsetcommit.go    Client.OffsetCommit
   metadata.go        Client.Metadata
   client.go          Client.ConsumerOffsets

   Go int / int64 / int32 / int16 are Z (wraps written out where the code can wrap), strings are
   byte lists (list N), Go maps are association lists with unique keys in first-insertion order
   (a later assignment to an existing key replaces the value in place), errors are their kafka
   error code (Z, 0 = nil). *)
From Coq Require Import List NArith ZArith Bool.
From KV Require Import Lib.Bits.
Import ListNotations.
Open Scope Z_scope.

Definition str := list N.

Fixpoint str_eqb (a b : str) {struct a} : bool :=
  match a, b with
  | [], [] => true
  | x :: a', y :: b' => N.eqb x y && str_eqb a' b'
  | _, _ => false
  end.

(* Go's [<] on strings: bytewise lexicographic *)
Fixpoint str_ltb (a b : str) {struct a} : bool :=
  match a, b with
  | [], [] => false
  | [], _ :: _ => true
  | _ :: _, [] => false
  | x :: a', y :: b' => if N.ltb x y then true else if N.ltb y x then false else str_ltb a' b'
  end.

(* ------------------------------------------------------------------------- *)
(* Go maps keyed by a string                                                 *)

Fixpoint amap_get {V} (m : list (str * V)) (k : str) {struct m} : option V :=
  match m with
  | [] => None
  | (k', v) :: r => if str_eqb k' k then Some v else amap_get r k
  end.

Fixpoint amap_set {V} (m : list (str * V)) (k : str) (v : V) {struct m} : list (str * V) :=
  match m with
  | [] => [(k, v)]
  | (k', v') :: r => if str_eqb k' k then (k', v) :: r else (k', v') :: amap_set r k v
  end.

(* maps keyed by an integer *)
Fixpoint zmap_get {V} (m : list (Z * V)) (k : Z) {struct m} : option V :=
  match m with
  | [] => None
  | (k', v) :: r => if Z.eqb k' k then Some v else zmap_get r k
  end.

Fixpoint zmap_set {V} (m : list (Z * V)) (k : Z) (v : V) {struct m} : list (Z * V) :=
  match m with
  | [] => [(k, v)]
  | (k', v') :: r => if Z.eqb k' k then (k', v) :: r else (k', v') :: zmap_set r k v
  end.

(* stable insertion sort (sort.Slice is not stable: the correspondence compares
   canonicalised lists, the theorems speak of permutations and sortedness) *)
Fixpoint insert_by {A} (le : A -> A -> bool) (x : A) (l : list A) {struct l} : list A :=
  match l with
  | [] => [x]
  | y :: r => if le x y then x :: l else y :: insert_by le x r
  end.

Definition isort {A} (le : A -> A -> bool) (l : list A) : list A :=
  fold_right (insert_by le) [] l.

(* ------------------------------------------------------------------------- *)
(* conn.go: Conn.Seek                                                      *)

Definition SeekStart : Z := 0.
Definition SeekAbsolute : Z := 1.
Definition SeekEnd : Z := 2.
Definition SeekCurrent : Z := 3.
Definition SeekDontCheck : Z := 1073741824.  (* 1 << 30 *)
Definition FirstOffset : Z := -2.
Definition LastOffset : Z := -1.
Definition ErrOffsetOutOfRange : Z := 1.

(* what the partition's broker answers to ReadFirstOffset / ReadLastOffset *)
Inductive offsets_answer :=
| OffsOk (first last : Z)
| OffsErrFirst (code : Z)               (* the first request fails *)
| OffsErrLast (first : Z) (code : Z).   (* the first succeeds, the second fails *)

(* ReadOffsets: (first, last, err code, number of list-offsets requests sent) *)
Definition read_offsets (b : offsets_answer) : Z * Z * Z * N :=
  match b with
  | OffsOk f l => (f, l, 0, 2%N)
  | OffsErrFirst c => (0, 0, c, 1%N)
  | OffsErrLast _ c => (0, 0, c, 2%N)   (* first = 0: "don't leak the value on error" *)
  end.

Inductive seek_result :=
| SeekOk (o : Z)
| SeekBadWhence
| SeekErr (code : Z).    (* a kafka.Error: OffsetOutOfRange (1) or the broker's code; returned offset is 0 *)

Record seek_out := { so_res : seek_result; so_offset : Z; so_requests : N }.

(* FirstOffset / LastOffset held in c.offset are placeholders for "start" / "end" *)
Definition is_sentinel (cur : Z) : bool := (cur =? FirstOffset) || (cur =? LastOffset).

(* the position a placeholder stands for, once the broker's (first, last) are known *)
Definition resolve_current (cur first last : Z) : Z :=
  if cur =? FirstOffset then first else if cur =? LastOffset then last else cur.

(* cur = c.offset before the call; the result carries c.offset after it and the
   number of list-offsets requests that were sent to the broker *)
Definition seek (cur offset whence : Z) (b : offsets_answer) : seek_out :=
  let dont := Z.testbit whence 30 in
  let w := Z.ldiff whence SeekDontCheck in
  if negb ((w =? SeekStart) || (w =? SeekAbsolute) || (w =? SeekEnd) || (w =? SeekCurrent)) then
    {| so_res := SeekBadWhence; so_offset := cur; so_requests := 0 |}
  else if dont && (w =? SeekAbsolute) then
    {| so_res := SeekOk offset; so_offset := offset; so_requests := 0 |}
  else if dont && (w =? SeekCurrent) && negb (is_sentinel cur) then
    {| so_res := SeekOk (wrap64 (cur + offset)); so_offset := wrap64 (cur + offset); so_requests := 0 |}
  else if (w =? SeekAbsolute) && (offset =? cur) then
    {| so_res := SeekOk offset; so_offset := cur; so_requests := 0 |}
  else
    match read_offsets b with
    | (first, last, code, n) =>
      if negb (code =? 0) then {| so_res := SeekErr code; so_offset := cur; so_requests := n |}
      else
        let offset := if w =? SeekStart then wrap64 (first + offset)
                      else if w =? SeekEnd then wrap64 (last - offset)
                      else if w =? SeekCurrent then wrap64 (resolve_current cur first last + offset)
                      else offset in
        if (offset <? first) || (last <? offset)
        then {| so_res := SeekErr ErrOffsetOutOfRange; so_offset := cur; so_requests := n |}
        else {| so_res := SeekOk offset; so_offset := offset; so_requests := n |}
    end.

(* Conn.Offset *)
Definition conn_offset (cur : Z) : Z * Z :=
  if cur =? FirstOffset then (0, SeekStart)
  else if cur =? LastOffset then (0, SeekEnd) else (cur, SeekAbsolute).

(* ------------------------------------------------------------------------- *)
(* protocol/listoffsets                                                       *)

Record req_part := { qp_partition : Z; qp_epoch : Z; qp_ts : Z }.
Definition req_topic : Type := str * list req_part.
Record lo_request := { q_replica : Z; q_isolation : Z; q_topics : list req_topic }.

Record resp_part := { rp_partition : Z; rp_error : Z; rp_ts : Z; rp_offset : Z; rp_epoch : Z }.
Definition resp_topic : Type := str * list resp_part.
Record lo_response := { r_throttle : Z; r_topics : list resp_topic }.

(* Request.Split: one request per (topic, partition entry), in order *)
Definition split_topic (rep iso : Z) (t : req_topic) : list lo_request :=
  map (fun p => {| q_replica := rep; q_isolation := iso;
                   q_topics := [(fst t, [{| qp_partition := qp_partition p;
                                            qp_epoch := qp_epoch p;
                                            qp_ts := qp_ts p |}])] |}) (snd t).

Definition listoffsets_split (r : lo_request) : list lo_request :=
  flat_map (split_topic (q_replica r) (q_isolation r)) (q_topics r).

(* outcome of one sub-request as handed to Merge: a response or an error
   (errors are identified by a number chosen by the harness) *)
Inductive sub_result := SubOk (r : lo_response) | SubErr (e : Z).

Inductive merge_result := MergeOk (r : lo_response) | MergeErr (e : Z) | MergePanic.

(* timestamps[i]: (topic, partition) -> requested timestamp; a later entry of the
   same request overrides an earlier one *)
Definition ts_index (q : lo_request) : list (str * Z * Z) :=
  flat_map (fun t : req_topic => map (fun p => (fst t, qp_partition p, qp_ts p)) (snd t)) (q_topics q).

Fixpoint ts_lookup (idx : list (str * Z * Z)) (t : str) (p : Z) {struct idx} : option Z :=
  match idx with
  | [] => None
  | (t', p', ts) :: r =>
    match ts_lookup r t p with
    | Some x => Some x
    | None => if str_eqb t' t && (p' =? p) then Some ts else None
    end
  end.

Definition tmap : Type := list (str * list resp_part).

Definition tmap_parts (m : tmap) (t : str) : list resp_part :=
  match amap_get m t with Some l => l | None => [] end.

Definition tmap_append (m : tmap) (t : str) (l : list resp_part) : tmap :=
  amap_set m t (tmap_parts m t ++ l).

Definition fail_part (p : req_part) : resp_part :=
  {| rp_partition := qp_partition p; rp_error := -1; rp_ts := -1; rp_offset := -1; rp_epoch := -1 |}.

(* err != nil branch: every partition of the failed request gets an UNKNOWN entry *)
Definition merge_fail (m : tmap) (q : lo_request) : tmap :=
  fold_left (fun m (t : req_topic) => tmap_append m (fst t) (map fail_part (snd t))) (q_topics q) m.

Definition restore_ts (idx : list (str * Z * Z)) (t : str) (p : resp_part) : resp_part :=
  match ts_lookup idx t (rp_partition p) with
  | Some ts => {| rp_partition := rp_partition p; rp_error := rp_error p; rp_ts := ts;
                  rp_offset := rp_offset p; rp_epoch := rp_epoch p |}
  | None => p
  end.

Definition merge_ok (m : tmap) (idx : list (str * Z * Z)) (r : lo_response) : tmap :=
  fold_left (fun m (t : resp_topic) =>
               fold_left (fun m p => tmap_append m (fst t) [restore_ts idx (fst t) p]) (snd t) m)
            (r_topics r) m.

Record merge_state := { ms_topics : tmap; ms_throttle : Z; ms_errors : N }.

Definition merge_step (s : merge_state) (qr : lo_request * sub_result) : merge_state :=
  match snd qr with
  | SubErr _ =>
    {| ms_topics := merge_fail (ms_topics s) (fst qr); ms_throttle := ms_throttle s;
       ms_errors := (ms_errors s + 1)%N |}
  | SubOk r =>
    {| ms_topics := merge_ok (ms_topics s) (ts_index (fst qr)) r;
       ms_throttle := if ms_throttle s <? r_throttle r then r_throttle r else ms_throttle s;
       ms_errors := ms_errors s |}
  end.

Definition part_le (a b : resp_part) : bool :=
  if rp_partition a =? rp_partition b then rp_offset a <=? rp_offset b
  else rp_partition a <? rp_partition b.

Definition topic_le {V} (a b : str * V) : bool := negb (str_ltb (fst b) (fst a)).

Definition merge_finish (m : tmap) : list resp_topic :=
  map (fun t : resp_topic => (fst t, isort part_le (snd t))) (isort topic_le m).

(* results beyond the last request (len(results) > len(requests)): requests[i] and
   timestamps[i] are out of range, a run-time panic as soon as such a result is an
   error or carries a partition; otherwise only the throttle time is looked at *)
Definition merge_surplus_step (s : merge_state) (r : sub_result) : option merge_state :=
  match r with
  | SubErr _ => None
  | SubOk resp =>
    if forallb (fun t : resp_topic => match snd t with [] => true | _ => false end) (r_topics resp)
    then Some {| ms_topics := ms_topics s;
                 ms_throttle := if ms_throttle s <? r_throttle resp then r_throttle resp else ms_throttle s;
                 ms_errors := ms_errors s |}
    else None
  end.

(* Response.Merge on a fresh receiver (the merger returned by Split) *)
Definition listoffsets_merge (reqs : list lo_request) (results : list sub_result) : merge_result :=
  if (length reqs <? length results)%nat then
    match fold_left (fun os r => match os with None => None | Some s => merge_surplus_step s r end)
                    (skipn (length reqs) results)
                    (Some (fold_left merge_step (combine reqs results)
                                     {| ms_topics := []; ms_throttle := 0; ms_errors := 0 |})) with
    | None => MergePanic
    | Some s =>
      if (0 <? ms_errors s)%N && (ms_errors s =? N.of_nat (length results))%N then
        match results with
        | SubErr e :: _ => MergeErr e
        | _ => MergePanic
        end
      else MergeOk {| r_throttle := ms_throttle s; r_topics := merge_finish (ms_topics s) |}
    end
  else
    let s := fold_left merge_step (combine reqs results)
                       {| ms_topics := []; ms_throttle := 0; ms_errors := 0 |} in
    if (0 <? ms_errors s)%N && (ms_errors s =? N.of_nat (length results))%N then
      match results with
      | SubErr e :: _ => MergeErr e
      | _ => MergePanic    (* unreachable: all results are errors *)
      end
    else MergeOk {| r_throttle := ms_throttle s; r_topics := merge_finish (ms_topics s) |}.

(* transport.go (connPool.roundTrip, Splitter case; join; joined.await): the request is
   split, every message is sent (send = sendRequest + await of that promise: an answer or
   an error), the results are collected POSITIONALLY — results[i] belongs to messages[i],
   and a failed promise contributes its error as a result instead of aborting the call —
   and handed to Merge together with the messages. *)
Definition await_all (send : lo_request -> sub_result) (messages : list lo_request) : list sub_result :=
  map send messages.

Definition split_round_trip (send : lo_request -> sub_result) (r : lo_request) : merge_result :=
  let messages := listoffsets_split r in
  listoffsets_merge messages (await_all send messages).

(* protocol/listgroups, protocol/describegroups, protocol/describeconfigs: Response.Merge of
   the fan-out APIs (ListGroups: one request per broker; DescribeGroups: one per group, sent to
   its coordinator; DescribeConfigs: one per broker resource plus one for the topic resources).
   The results are visited in request order; the first failed one fails the whole call with its
   error, otherwise the items of all parts are appended in order (ListGroups labels the groups of
   result i with the broker of request i: see label_part). *)
Inductive part_result (A : Type) := PartOk (items : list A) | PartErr (e : Z).
Arguments PartOk {A} items.
Arguments PartErr {A} e.
Inductive fan_result (A : Type) := FanOk (items : list A) | FanErr (e : Z).
Arguments FanOk {A} items.
Arguments FanErr {A} e.

Fixpoint concat_merge_from {A} (results : list (part_result A)) (acc : list A) {struct results} : fan_result A :=
  match results with
  | [] => FanOk acc
  | PartOk l :: r => concat_merge_from r (acc ++ l)
  | PartErr e :: _ => FanErr e
  end.

Definition concat_merge {A} (results : list (part_result A)) : fan_result A := concat_merge_from results [].

Definition label_part {A B} (b : B) (r : part_result A) : part_result (A * B) :=
  match r with
  | PartOk l => PartOk (map (fun g => (g, b)) l)
  | PartErr e => PartErr e
  end.

(* ListGroups: requests[i] carries the broker id the groups of results[i] are attributed to *)
Definition listgroups_merge {A} (brokers : list Z) (results : list (part_result A)) : fan_result (A * Z) :=
  concat_merge (map (fun br => label_part (fst br) (snd br)) (combine brokers results)).

(* ------------------------------------------------------------------------- *)
(* conn.go: readOffset's parser of the list-offsets v1 response                *)

Inductive zres := ZOk (v : Z) | ZErr (code : Z).

Fixpoint scan_parts (ps : list resp_part) (acc : Z) {struct ps} : zres :=
  match ps with
  | [] => ZOk acc
  | p :: r => if rp_error p =? 0 then scan_parts r (rp_offset p) else ZErr (rp_error p)
  end.

Fixpoint scan_topics (ts : list resp_topic) (acc : Z) {struct ts} : zres :=
  match ts with
  | [] => ZOk acc
  | t :: r => match scan_parts (snd t) acc with
              | ZOk a => scan_topics r a
              | ZErr c => ZErr c
              end
  end.

Definition read_offset_resp (ts : list resp_topic) : zres := scan_topics ts 0.

(* ------------------------------------------------------------------------- *)
(* listoffset.go: Client.ListOffsets                                       *)

(* user request: map topic -> [](partition, timestamp), given as the list in the
   order the map was iterated *)
Definition lo_user_request : Type := list (str * list (Z * Z)).

Definition listoffsets_request (isolation : Z) (u : lo_user_request) : lo_request :=
  {| q_replica := -1; q_isolation := isolation;   (* IsolationLevel is an int8 already *)
     q_topics := map (fun t : str * list (Z * Z) =>
                        (fst t, map (fun r : Z * Z => {| qp_partition := wrap32 (fst r); qp_epoch := -1; qp_ts := snd r |}) (snd t))) u |}.

(* PartitionOffsets; po_nil: the Offsets map is nil (zero value) *)
Record part_offsets := { po_partition : Z; po_first : Z; po_last : Z;
                         po_offsets : list (Z * Z); po_nil : bool; po_error : Z }.

Definition tp_eqb (a b : str * Z) : bool := str_eqb (fst a) (fst b) && (snd a =? snd b).

Fixpoint tpmap_get {V} (m : list (str * Z * V)) (k : str * Z) {struct m} : option V :=
  match m with
  | [] => None
  | (k', v) :: r => if tp_eqb k' k then Some v else tpmap_get r k
  end.

Fixpoint tpmap_set {V} (m : list (str * Z * V)) (k : str * Z) (v : V) {struct m} : list (str * Z * V) :=
  match m with
  | [] => [(k, v)]
  | (k', v') :: r => if tp_eqb k' k then (k', v) :: r else (k', v') :: tpmap_set r k v
  end.

Definition po_fresh (p : Z) : part_offsets :=
  {| po_partition := p; po_first := -1; po_last := -1; po_offsets := []; po_nil := false; po_error := 0 |}.
Definition po_zero : part_offsets :=
  {| po_partition := 0; po_first := 0; po_last := 0; po_offsets := []; po_nil := true; po_error := 0 |}.

Definition po_request (po : part_offsets) (ts : Z) : part_offsets :=
  if ts =? FirstOffset then
    {| po_partition := po_partition po; po_first := 0; po_last := po_last po;
       po_offsets := po_offsets po; po_nil := po_nil po; po_error := po_error po |}
  else if ts =? LastOffset then
    {| po_partition := po_partition po; po_first := po_first po; po_last := 0;
       po_offsets := po_offsets po; po_nil := po_nil po; po_error := po_error po |}
  else po.

(* first loop: one PartitionOffsets per requested (topic, partition) *)
Definition lo_prepare (u : lo_user_request) : list (str * Z * part_offsets) :=
  fold_left (fun m (t : str * list (Z * Z)) =>
    fold_left (fun m (r : Z * Z) =>
      let key := (fst t, fst r) in
      let po := match tpmap_get m key with Some po => po | None => po_fresh (fst r) end in
      tpmap_set m key (po_request po (snd r))) (snd t) m) u [].

(* makeTime on a millisecond timestamp, observed as UnixMilli (0 = zero time.Time) *)
Definition make_time (t : Z) : Z := if t <=? 0 then 0 else t.

(* applying one response partition; None = panic (assignment to entry in nil map) *)
Definition po_apply (po : part_offsets) (p : resp_part) : option part_offsets :=
  let err := if rp_error p =? 0 then po_error po else rp_error p in
  if rp_ts p =? FirstOffset then
    Some {| po_partition := po_partition po; po_first := rp_offset p; po_last := po_last po;
            po_offsets := po_offsets po; po_nil := po_nil po; po_error := err |}
  else if rp_ts p =? LastOffset then
    Some {| po_partition := po_partition po; po_first := po_first po; po_last := rp_offset p;
            po_offsets := po_offsets po; po_nil := po_nil po; po_error := err |}
  else if po_nil po then None
  else
    Some {| po_partition := po_partition po; po_first := po_first po; po_last := po_last po;
            po_offsets := zmap_set (po_offsets po) (rp_offset p) (make_time (rp_ts p));
            po_nil := false; po_error := err |}.

Fixpoint lo_apply_parts (m : list (str * Z * part_offsets)) (t : str) (ps : list resp_part) {struct ps}
  : option (list (str * Z * part_offsets)) :=
  match ps with
  | [] => Some m
  | p :: r =>
    let key := (t, rp_partition p) in
    let po := match tpmap_get m key with Some po => po | None => po_zero end in
    match po_apply po p with
    | None => None
    | Some po' => lo_apply_parts (tpmap_set m key po') t r
    end
  end.

Fixpoint lo_apply_topics (m : list (str * Z * part_offsets)) (ts : list resp_topic) {struct ts}
  : option (list (str * Z * part_offsets)) :=
  match ts with
  | [] => Some m
  | t :: r => match lo_apply_parts m (fst t) (snd t) with
              | None => None
              | Some m' => lo_apply_topics m' r
              end
  end.

(* the result: throttle (ms) and the PartitionOffsets per (topic, partition); None = panic *)
Definition listoffsets_client (u : lo_user_request) (res : lo_response)
  : option (Z * list (str * Z * part_offsets)) :=
  match lo_apply_topics (lo_prepare u) (r_topics res) with
  | None => None
  | Some m => Some (r_throttle res, m)
  end.

(* ------------------------------------------------------------------------- *)
(* offsetfetch.go                                                             *)

Record of_resp_part := { ofp_partition : Z; ofp_offset : Z; ofp_metadata : str; ofp_error : Z }.
Record of_response := { ofr_throttle : Z; ofr_topics : list (str * list of_resp_part); ofr_error : Z }.

(* OffsetFetchPartition *)
Record of_api_part := { oa_partition : Z; oa_offset : Z; oa_metadata : str; oa_error : Z }.
Record of_api := { oa_throttle : Z; oa_topics : list (str * list of_api_part); oa_err : Z }.

(* the protocol request: None = nil topic list (all topics of the group) *)
Definition offsetfetch_request (u : list (str * list Z)) : option (list (str * list Z)) :=
  match u with
  | [] => None
  | _ => Some (map (fun t : str * list Z => (fst t, map wrap32 (snd t))) u)
  end.

Definition of_conv (p : of_resp_part) : of_api_part :=
  {| oa_partition := ofp_partition p; oa_offset := ofp_offset p;
     oa_metadata := ofp_metadata p; oa_error := ofp_error p |}.

Definition offsetfetch_map (r : of_response) : of_api :=
  {| oa_throttle := ofr_throttle r;
     oa_topics := fold_left (fun m (t : str * list of_resp_part) => amap_set m (fst t) (map of_conv (snd t)))
                            (ofr_topics r) [];
     oa_err := ofr_error r |}.

(* ------------------------------------------------------------------------- *)
(* offsetcommit.go                                                            *)

Record oc_commit := { occ_partition : Z; occ_offset : Z; occ_metadata : str }.
(* request as sent: generation id, retention, topics *)
Record oc_request := { ocq_generation : Z; ocq_retention : Z; ocq_topics : list (str * list oc_commit) }.

Definition offsetcommit_request (generation : Z) (u : list (str * list oc_commit)) : oc_request :=
  {| ocq_generation := wrap32 generation;
     ocq_retention := 86400000;
     ocq_topics := map (fun t : str * list oc_commit =>
                          (fst t, map (fun c => {| occ_partition := wrap32 (occ_partition c);
                                                   occ_offset := occ_offset c;
                                                   occ_metadata := occ_metadata c |}) (snd t))) u |}.

(* response partitions: (partition index, error code) *)
Record oc_response := { ocr_throttle : Z; ocr_topics : list (str * list (Z * Z)) }.
Record oc_api := { oca_throttle : Z; oca_topics : list (str * list (Z * Z)) }.

Definition offsetcommit_map (r : oc_response) : oc_api :=
  {| oca_throttle := ocr_throttle r;
     oca_topics := fold_left (fun m (t : str * list (Z * Z)) => amap_set m (fst t) (snd t)) (ocr_topics r) [] |}.

(* ------------------------------------------------------------------------- *)
(* metadata.go and conn.go ReadPartitions                                     *)

Record broker := { b_host : str; b_port : Z; b_id : Z; b_rack : str }.
Definition zero_broker : broker := {| b_host := []; b_port := 0; b_id := 0; b_rack := [] |}.

Record md_broker := { mb_node : Z; mb_host : str; mb_port : Z; mb_rack : str }.
Record md_part := { mp_error : Z; mp_index : Z; mp_leader : Z;
                    mp_replicas : list Z; mp_isr : list Z; mp_offline : list Z }.
Record md_topic := { mt_error : Z; mt_name : str; mt_internal : bool; mt_parts : list md_part }.
Record md_response := { md_throttle : Z; md_brokers : list md_broker; md_cluster : str;
                        md_controller : Z; md_topics : list md_topic }.

Record partition := { pt_topic : str; pt_id : Z; pt_leader : broker; pt_replicas : list broker;
                      pt_isr : list broker; pt_offline : list broker; pt_error : Z }.
Record api_topic := { at_name : str; at_internal : bool; at_parts : list partition; at_error : Z }.
Record md_api := { ma_throttle : Z; ma_cluster : str; ma_controller : broker;
                   ma_brokers : list broker; ma_topics : list api_topic }.

Definition mk_broker (b : md_broker) : broker :=
  {| b_host := mb_host b; b_port := mb_port b; b_id := mb_node b; b_rack := mb_rack b |}.

(* brokers map[int32]Broker: the last broker with a given node id wins *)
Definition broker_index (bs : list md_broker) : list (Z * broker) :=
  fold_left (fun m b => zmap_set m (mb_node b) (mk_broker b)) bs [].

(* brokers[id] of a Go map: the zero Broker when absent *)
Definition broker_of (idx : list (Z * broker)) (id : Z) : broker :=
  match zmap_get idx id with Some b => b | None => zero_broker end.

(* ret.Controller: assigned for every broker whose id is the controller id *)
Definition controller_of (bs : list md_broker) (ctrl : Z) : broker :=
  fold_left (fun c b => if mb_node b =? ctrl then mk_broker b else c) bs zero_broker.

Definition metadata_map (r : md_response) : md_api :=
  let idx := broker_index (md_brokers r) in
  {| ma_throttle := md_throttle r;
     ma_cluster := md_cluster r;
     ma_controller := controller_of (md_brokers r) (md_controller r);
     ma_brokers := map mk_broker (md_brokers r);
     ma_topics := map (fun t =>
       {| at_name := mt_name t; at_internal := mt_internal t;
          at_parts := map (fun p =>
            {| pt_topic := mt_name t; pt_id := mp_index p;
               pt_leader := broker_of idx (mp_leader p);
               pt_replicas := map (broker_of idx) (mp_replicas p);
               pt_isr := map (broker_of idx) (mp_isr p);
               pt_offline := [];
               pt_error := mp_error p |}) (mt_parts t);
          at_error := mt_error t |}) (md_topics r) |}.

(* conn.go makeBrokers: unknown ids become a placeholder carrying the id *)
Definition make_broker (idx : list (Z * broker)) (id : Z) : broker :=
  match zmap_get idx id with
  | Some b => b
  | None => {| b_host := []; b_port := 0; b_id := id; b_rack := [] |}
  end.

Inductive parts_result := PartsOk (l : list partition) | PartsErr (code : Z).

(* readTopicMetadatav1 / v6 (v6 = true fills OfflineReplicas) for a connection
   whose configured topic is conn_topic ("" = none) *)
Fixpoint read_topics (v6 : bool) (conn_topic : str) (idx : list (Z * broker))
         (ts : list md_topic) (acc : list partition) {struct ts} : parts_result :=
  match ts with
  | [] => PartsOk acc
  | t :: r =>
    if negb (mt_error t =? 0) && (str_eqb conn_topic [] || str_eqb (mt_name t) conn_topic)
    then PartsErr (mt_error t)
    else read_topics v6 conn_topic idx r
           (acc ++ map (fun p =>
              {| pt_topic := mt_name t; pt_id := mp_index p;
                 pt_leader := broker_of idx (mp_leader p);
                 pt_replicas := map (make_broker idx) (mp_replicas p);
                 pt_isr := map (make_broker idx) (mp_isr p);
                 pt_offline := if v6 then map (make_broker idx) (mp_offline p) else [];
                 pt_error := mp_error p |}) (mt_parts t))
  end.

Definition read_partitions (v6 : bool) (conn_topic : str) (r : md_response) : parts_result :=
  read_topics v6 conn_topic (broker_index (md_brokers r)) (md_topics r) [].

(* Conn.ReadPartitions(topics...): which topic array goes out.  The argument is None for a
   call without argument (nil variadic slice) and Some l for a non-nil slice l (possibly
   empty: cfg.Topics... of an empty config, l[:0]).  The result is the topic array of the
   metadata request: None = null array = "all topics" (the request writers encode a nil
   slice as null and an empty non-nil slice as a zero-length array = "no topic"). *)
Definition read_partitions_request (conn_topic : str) (arg : option (list str)) : option (list str) :=
  match (match arg with None => [] | Some l => l end) with
  | [] => match conn_topic with
          | [] => None                 (* "topics needs to be explicitly nil-ed out" *)
          | _ => Some [conn_topic]
          end
  | l => Some l
  end.

(* The broker's side (environment, served by the harness's peer from what is on the
   wire): null array -> every topic; a list -> one entry per distinct name, the cluster's
   topic or UNKNOWN_TOPIC_OR_PARTITION (3) without partitions; empty array -> none. *)
Fixpoint str_mem (x : str) (l : list str) {struct l} : bool :=
  match l with [] => false | y :: r => str_eqb y x || str_mem x r end.

Fixpoint str_nodup (seen : list str) (l : list str) {struct l} : list str :=
  match l with
  | [] => []
  | x :: r => if str_mem x seen then str_nodup seen r else x :: str_nodup (x :: seen) r
  end.

Definition cluster_topic (ts : list md_topic) (name : str) : md_topic :=
  match find (fun t => str_eqb (mt_name t) name) ts with
  | Some t => t
  | None => {| mt_error := 3; mt_name := name; mt_internal := false; mt_parts := [] |}
  end.

Definition broker_metadata_answer (cluster : md_response) (req : option (list str)) : md_response :=
  {| md_throttle := md_throttle cluster; md_brokers := md_brokers cluster; md_cluster := md_cluster cluster;
     md_controller := md_controller cluster;
     md_topics := match req with
                  | None => md_topics cluster
                  | Some names => map (cluster_topic (md_topics cluster)) (str_nodup [] names)
                  end |}.

(* the whole call against a broker holding [cluster] *)
Definition read_partitions_call (v6 : bool) (conn_topic : str) (arg : option (list str))
           (cluster : md_response) : parts_result :=
  read_partitions v6 conn_topic (broker_metadata_answer cluster (read_partitions_request conn_topic arg)).

(* client.go Client.roundTrip: which cluster a query goes to.  The Addr of the request
   takes precedence over the Addr of the client; with neither the call fails ("no address
   was given for the kafka cluster in the request or on the client") before any round trip.
   The transport is a function of the address (one cluster per address). *)
Definition effective_addr {A} (req_addr client_addr : option A) : option A :=
  match req_addr with
  | Some a => Some a
  | None => client_addr
  end.

Definition client_round_trip {A Q R} (transport : A -> Q -> R) (req_addr client_addr : option A) (q : Q)
  : option R :=
  match req_addr with
  | None => match client_addr with
            | None => None
            | Some a => Some (transport a q)
            end
  | Some a => Some (transport a q)
  end.

(* ------------------------------------------------------------------------- *)
(* client.go ConsumerOffsets                                                  *)

(* the OffsetFetch request built from the metadata answer: topic name asked for
   and the partition ids of metadata.Topics[0]; None = the metadata response lists no topic:
   the call fails with an error before any OffsetFetch is sent *)
Definition consumer_offsets_request (asked : str) (md : md_api) : option (str * list Z) :=
  match ma_topics md with
  | [] => None
  | t :: _ => Some (asked, map pt_id (at_parts t))
  end.

(* partition -> committed offset, from offsets.Topics[topic.Name] *)
Definition consumer_offsets_result (md : md_api) (ofr : of_api) : option (list (Z * Z)) :=
  match ma_topics md with
  | [] => None
  | t :: _ =>
    let parts := match amap_get (oa_topics ofr) (at_name t) with Some l => l | None => [] end in
    Some (fold_left (fun m p => zmap_set m (oa_partition p) (oa_offset p)) parts [])
  end.
