(* Model/DRF.v — C10: events, traces, lock semantics, happens-before, data race;
   instance-level protection and the semantic lockset condition; the type-level
   access facts extracted by harness/cmd/vskel, policies and [discipline_ok].
   Definitions only (proofs: Proofs/DRFSound.v, Proofs/DRFBridge.v). *)
From Coq Require Import List Arith Bool String Relations.
Import ListNotations.
Open Scope string_scope.

(* ------------------------------------------------------------------ traces *)
Definition thread := nat.
Definition lock := nat.     (* a mutex INSTANCE *)
Definition loc := nat.      (* a memory location: one field of one object *)
Definition chan := nat.

Inductive event :=
| Acq (l : lock) | Rel (l : lock)          (* sync.Mutex.Lock/Unlock, RWMutex.Lock/Unlock *)
| RAcq (l : lock) | RRel (l : lock)        (* RWMutex.RLock/RUnlock *)
| Rd (x : loc) | Wr (x : loc)              (* plain accesses *)
| Atomic (x : loc)                         (* sync/atomic operation (load, store or rmw) *)
| Send (c : chan) | Recv (c : chan) | Close (c : chan)
| Go (t : thread)                          (* go statement starting thread t *)
| Once (o : loc).                          (* return of sync.Once.Do on o *)

Definition trace := list (thread * event).
Definition ev (tr : trace) (i : nat) : option (thread * event) := nth_error tr i.

(* ---- lock semantics: writer holder and reader multiset per lock.  Owner discipline:
   a lock is released by the thread that acquired it. *)
Record lstate := mkL { wr : lock -> option thread; rd : lock -> list thread }.
Definition init : lstate := mkL (fun _ => None) (fun _ => []).
Definition upd {A} (f : lock -> A) (l : lock) (v : A) : lock -> A :=
  fun l' => if Nat.eqb l' l then v else f l'.
Fixpoint remove1 (t : thread) (ts : list thread) : list thread :=
  match ts with
  | [] => []
  | t' :: r => if Nat.eqb t t' then r else t' :: remove1 t r
  end.

Definition lock_step (s : lstate) (te : thread * event) : option lstate :=
  match snd te with
  | Acq l => match wr s l, rd s l with
             | None, [] => Some (mkL (upd (wr s) l (Some (fst te))) (rd s))
             | _, _ => None
             end
  | Rel l => match wr s l with
             | Some t' => if Nat.eqb (fst te) t' then Some (mkL (upd (wr s) l None) (rd s)) else None
             | None => None
             end
  | RAcq l => match wr s l with
              | None => Some (mkL (wr s) (upd (rd s) l (fst te :: rd s l)))
              | Some _ => None
              end
  | RRel l => if existsb (Nat.eqb (fst te)) (rd s l)
              then Some (mkL (wr s) (upd (rd s) l (remove1 (fst te) (rd s l))))
              else None
  | _ => Some s
  end.

(* lock state before event number n (None: the trace violated lock semantics earlier,
   or n is beyond the end) *)
Fixpoint state_at (s : lstate) (tr : trace) (n : nat) {struct n} : option lstate :=
  match n with
  | 0 => Some s
  | S n' => match tr with
            | [] => None
            | e :: tr' => match lock_step s e with
                          | Some s' => state_at s' tr' n'
                          | None => None
                          end
            end
  end.

Definition wf_locks (tr : trace) : Prop := exists s, state_at init tr (List.length tr) = Some s.
Definition holdsW (tr : trace) (i : nat) (t : thread) (l : lock) : Prop :=
  exists s, state_at init tr i = Some s /\ wr s l = Some t.
Definition holdsR (tr : trace) (i : nat) (t : thread) (l : lock) : Prop :=
  exists s, state_at init tr i = Some s /\ In t (rd s l).

(* ---- happens-before *)
Definition is_send (c : chan) (te : thread * event) : bool :=
  match snd te with Send c' => Nat.eqb c c' | _ => false end.
Definition is_recv (c : chan) (te : thread * event) : bool :=
  match snd te with Recv c' => Nat.eqb c c' | _ => false end.
(* number of events satisfying p strictly before position i *)
Definition rank (p : thread * event -> bool) (tr : trace) (i : nat) : nat :=
  List.length (filter p (firstn i tr)).

Inductive edge (tr : trace) : nat -> nat -> Prop :=
| e_po : forall i j t a b, i < j -> ev tr i = Some (t, a) -> ev tr j = Some (t, b) -> edge tr i j
| e_rel_acq : forall i j t t' l, i < j -> ev tr i = Some (t, Rel l) -> ev tr j = Some (t', Acq l) -> edge tr i j
| e_rel_racq : forall i j t t' l, i < j -> ev tr i = Some (t, Rel l) -> ev tr j = Some (t', RAcq l) -> edge tr i j
| e_rrel_acq : forall i j t t' l, i < j -> ev tr i = Some (t, RRel l) -> ev tr j = Some (t', Acq l) -> edge tr i j
  (* the k-th send on c is synchronised before the completion of the k-th receive *)
| e_send : forall i j t t' c, i < j -> ev tr i = Some (t, Send c) -> ev tr j = Some (t', Recv c) ->
    rank (is_send c) tr i = rank (is_recv c) tr j -> edge tr i j
  (* a receive with no unmatched send before it returned because the channel was closed *)
| e_close : forall i j t t' c, i < j -> ev tr i = Some (t, Close c) -> ev tr j = Some (t', Recv c) ->
    rank (is_send c) tr j <= rank (is_recv c) tr j -> edge tr i j
| e_go : forall i j t t' b, i < j -> ev tr i = Some (t, Go t') -> ev tr j = Some (t', b) -> edge tr i j
  (* sync/atomic operations are sequentially consistent; every earlier operation on x is
     taken to be observed by every later one (load/store are not distinguished) *)
| e_atomic : forall i j t t' x, i < j -> ev tr i = Some (t, Atomic x) -> ev tr j = Some (t', Atomic x) -> edge tr i j
| e_once : forall i j t t' o, i < j -> ev tr i = Some (t, Once o) -> ev tr j = Some (t', Once o) -> edge tr i j.

Definition hb (tr : trace) : nat -> nat -> Prop := clos_trans nat (edge tr).

(* ---- races *)
Definition acc_loc (a : event) : option loc :=
  match a with Rd x | Wr x | Atomic x => Some x | _ => None end.
Definition is_rd (a : event) : bool := match a with Rd _ => true | _ => false end.
Definition is_atomic (a : event) : bool := match a with Atomic _ => true | _ => false end.
(* two accesses to one location conflict unless both are plain reads or both atomic
   (a plain access mixed with an atomic one is a race as well) *)
Definition conflict (a b : event) : bool :=
  negb (is_rd a && is_rd b) && negb (is_atomic a && is_atomic b).

Definition race_on (tr : trace) (x : loc) : Prop :=
  exists i j t1 t2 a1 a2,
    i < j /\ ev tr i = Some (t1, a1) /\ ev tr j = Some (t2, a2) /\ t1 <> t2 /\
    acc_loc a1 = Some x /\ acc_loc a2 = Some x /\ conflict a1 a2 = true /\ ~ hb tr i j.

(* ---- instance-level protection and the semantic lockset condition *)
Inductive iprot :=
| IGuarded (l : lock)      (* every access while holding l exclusively *)
| IRGuarded (l : lock)     (* writes/atomics under Lock, plain reads under RLock or Lock *)
| IAtomic                  (* only sync/atomic operations *)
| IOther.                  (* no claim *)

Definition respects (pol : loc -> iprot) (tr : trace) : Prop :=
  forall i t a x, ev tr i = Some (t, a) -> acc_loc a = Some x ->
    match pol x with
    | IGuarded l => holdsW tr i t l
    | IRGuarded l => holdsW tr i t l \/ (is_rd a = true /\ holdsR tr i t l)
    | IAtomic => is_atomic a = true
    | IOther => True
    end.

(* --------------------------------------------- extracted facts and policies *)
Inductive akind :=
| KRead | KWrite
| KAtomic      (* argument of a sync/atomic function, or method of an atomic.* typed field *)
| KAddrArg     (* &x.f passed directly as a call argument / pointer-receiver method call
                  on a struct-valued field of a foreign type: treated as a write performed
                  during the call (the callee is assumed not to retain the pointer) *)
| KUnknown     (* anything else (address stored or returned, method value, ...) *)
| KWriteThrough. (* x.f.g = .. / *x.f = .. with f a pointer- or interface-typed field whose pointee
                  is not a listed type, also through a local copy p := x.f: the object BEHIND
                  the field is modified (a write as far as locking goes) *)
Inductive lmode := MW | MR.

Record access_fact := mkAcc {
  a_type : string; a_field : string; a_kind : akind;
  a_func : string;                       (* enclosing function, "T.m", "f", "T.m$1" for literals *)
  a_locks : list (string * lmode);       (* must-hold lockset, lock names "T.field" *)
  a_fresh : bool;                        (* object freshly allocated in this function, not yet escaped *)
  a_pos : string                         (* file:line, diagnostics only *)
}.

Inductive prot :=
| GuardedBy (l : string)
| RGuardedBy (l : string)
| AtomicOnly
| WriteOnceBeforePublish     (* written only on fresh objects in constructor functions *)
| HandedOff (c : string)     (* trusted: ownership passes through channel c *)
| Confined                   (* trusted: touched by one goroutine at a time by construction *)
| SelfSynchronised           (* trusted: sync.* value / value of a type with its own discipline *)
| LockTransferred (l : string) (* trusted: guarded by l, but l is acquired in one function and
                                released through a pointer elsewhere, which vskel cannot follow *)
| CallerOwned                (* a pointer / interface / func supplied by the caller (Transport.TLS,
                                Dialer.TLS, Transport.SASL, Resolver, Balancer, Logger, ...): the
                                library only reads the field and never writes through it (checked:
                                only KRead accesses; a KWriteThrough, e.g. tlsConfig.ServerName = ..
                                without a Clone, fails) *)
| ImmutableAfterPublish.     (* an atomic.Value / atomic.Pointer: accessed only through its atomic
                                methods, and the object handed to Store/Swap is never written
                                through the storing function's local afterwards (vskel records such
                                a write as a KWrite of the cell) *)

Definition policy := list (string * string * prot).

Fixpoint lookup (p : policy) (ty fd : string) : option prot :=
  match p with
  | [] => None
  | (ty', fd', pr) :: r => if (String.eqb ty ty' && String.eqb fd fd')%bool then Some pr else lookup r ty fd
  end.

Definition lmode_eqb (a b : lmode) : bool :=
  match a, b with MW, MW | MR, MR => true | _, _ => false end.
Definition has_lock (l : string) (m : lmode) (ls : list (string * lmode)) : bool :=
  existsb (fun e => String.eqb l (fst e) && lmode_eqb m (snd e))%bool ls.

Definition access_ok (pr : prot) (f : access_fact) : bool :=
  if a_fresh f then true else
  match pr with
  | GuardedBy l =>
      match a_kind f with
      | KRead | KWrite | KAddrArg | KWriteThrough => has_lock l MW (a_locks f)
      | KAtomic | KUnknown => false
      end
  | RGuardedBy l =>
      match a_kind f with
      | KRead => has_lock l MW (a_locks f) || has_lock l MR (a_locks f)
      | KWrite | KAddrArg | KWriteThrough => has_lock l MW (a_locks f)
      | KAtomic | KUnknown => false
      end
  | AtomicOnly | ImmutableAfterPublish => match a_kind f with KAtomic => true | _ => false end
  | WriteOnceBeforePublish | CallerOwned => match a_kind f with KRead => true | _ => false end
  | HandedOff _ | Confined | SelfSynchronised | LockTransferred _ => true
  end.

Definition fact_ok (pol : policy) (f : access_fact) : bool :=
  match lookup pol (a_type f) (a_field f) with
  | Some pr => access_ok pr f
  | None => false                      (* a field without a policy entry fails *)
  end.

Definition discipline_ok (facts : list access_fact) (pol : policy) : bool :=
  forallb (fact_ok pol) facts.

(* the facts that fail, for diagnostics (Compute / the check script) *)
Definition offenders (facts : list access_fact) (pol : policy) : list access_fact :=
  filter (fun f => negb (fact_ok pol f)) facts.

(* ---- tie between facts and traces (assumed of the translator, exercised by -race runs) *)
Definition kind_matches (k : akind) (a : event) : bool :=
  match a with
  | Rd _ => match k with KAtomic => false | _ => true end
  | Wr _ => match k with KWrite | KAddrArg | KUnknown | KWriteThrough => true | _ => false end
  | Atomic _ => match k with KAtomic | KUnknown => true | _ => false end
  | _ => true
  end.

(* Every access event of the trace is an execution of a non-fresh extracted site on a
   location of that site's (type, field); whenever the site's static lockset contains
   lock name l, the thread holds, in the recorded mode, the instance [lock_inst x l]
   (the one instance of l that belongs to location x's object). *)
Definition conforms (facts : list access_fact) (field_of : loc -> string * string)
    (lock_inst : loc -> string -> lock) (tr : trace) : Prop :=
  forall i t a x, ev tr i = Some (t, a) -> acc_loc a = Some x ->
    exists f, In f facts /\ a_fresh f = false /\
      (a_type f, a_field f) = field_of x /\ kind_matches (a_kind f) a = true /\
      forall l m, In (l, m) (a_locks f) ->
        match m with
        | MW => holdsW tr i t (lock_inst x l)
        | MR => holdsR tr i t (lock_inst x l)
        end.

Definition ipol (pol : policy) (field_of : loc -> string * string)
    (lock_inst : loc -> string -> lock) (x : loc) : iprot :=
  match lookup pol (fst (field_of x)) (snd (field_of x)) with
  | Some (GuardedBy l) => IGuarded (lock_inst x l)
  | Some (RGuardedBy l) => IRGuarded (lock_inst x l)
  | Some AtomicOnly | Some ImmutableAfterPublish => IAtomic
  | _ => IOther
  end.

(* ---- other extracted data *)
Inductive ckind := CSend | CRecv | CClose.
Record chan_fact := mkChan { c_type : string; c_field : string; c_kind : ckind; c_func : string; c_pos : string }.
Record go_fact := mkGo { g_spawner : string; g_body : string; g_pos : string }.
Record unknown_fact := mkUnk { u_func : string; u_what : string; u_text : string }.

(* calls of interest (harness/cmd/vskel callsOfInterest), sync-method calls on fields of
   listed types ("T.f.Method"), channel operations on such fields ("close(T.f)", "send(T.f)",
   "recv(T.f)"), uses of a function of interest as a value, calls through func-typed fields
   ("T.f()") and interface-typed fields ("T.f.Method") of listed types, Lock/Unlock calls
   ("lock(T.f)", "unlock(T.f)", "rlock", "runlock"; "unlock(?x)" through an alias x),
   go statements on function literals ("go:F$n"), make(chan T, n) ("makechan(T,n)") *)
Inductive chow := HCall | HGo | HDefer | HValue.
Record call_fact := mkCall {
  k_caller : string; k_callee : string; k_how : chow;
  k_locks : list (string * lmode);     (* must-hold lockset at the call *)
  k_written : list string;             (* fields "T.f" written earlier in the caller on every path *)
  k_after : list string;               (* calls of interest executed earlier on every path (of the caller or its callers) *)
  k_maybe : list string;               (* calls of interest possibly executed earlier in the same function body *)
  k_in_go : bool;                      (* the caller is (inside) the operand of a go statement *)
  k_pos : string
}.

Definition str_in (s : string) (l : list string) : bool := existsb (String.eqb s) l.
Definition pair_eqb (a b : string * string) : bool :=
  (String.eqb (fst a) (fst b) && String.eqb (snd a) (snd b))%bool.
Definition unk_eqb (a b : unknown_fact) : bool :=
  (String.eqb (u_func a) (u_func b) && String.eqb (u_what a) (u_what b) && String.eqb (u_text a) (u_text b))%bool.

(* every field of the listed types has a policy entry, and the policy names no field that
   no longer exists *)
Definition fields_covered (fields : list (string * string)) (pol : policy) : bool :=
  forallb (fun tf => match lookup pol (fst tf) (snd tf) with Some _ => true | None => false end) fields
  && forallb (fun e => existsb (pair_eqb (fst (fst e), snd (fst e))) fields) pol.

(* every construct the translator could not classify has been reviewed *)
Definition unknowns_reviewed (unk reviewed : list unknown_fact) : bool :=
  forallb (fun u => existsb (unk_eqb u) reviewed) unk.

(* known exceptions: access sites (type, field, function) excluded from the discipline *)
Definition is_exception (exc : list (string * string * string)) (f : access_fact) : bool :=
  existsb (fun e => String.eqb (a_type f) (fst (fst e)) && String.eqb (a_field f) (snd (fst e))
                    && String.eqb (a_func f) (snd e))%bool exc.
Definition without (exc : list (string * string * string)) (facts : list access_fact) : list access_fact :=
  filter (fun f => negb (is_exception exc f)) facts.

(* every exported method of the listed types was analysed *)
Definition exported_closed (listed_types : list string) (types_seen : list string)
    (exported : list (string * string)) (functions : list string) : bool :=
  forallb (fun t => str_in t types_seen) listed_types
  && forallb (fun tm => str_in (fst tm ++ "." ++ snd tm) functions) exported.
