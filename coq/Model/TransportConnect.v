(* Model/TransportConnect.v — the connection life cycle of one connGroup of /repo/transport.go
   (grabConnOrConnect and its connect helper goroutine, grabConn, releaseConn, removeConn via the
   idle timer, closeIdleConns, the release at the end of conn.run's loop): where can a connection
   be once it exists?  Definitions only; one label = one critical section of g.mutex, one select
   branch of the helper, or an environment decision.

   A connection that was set up is, at any time, in exactly one of these places:
     TSetup w   connGroup.connect is still running in the helper goroutine started by
                grabConnOrConnect (dial + ApiVersions + SASL, bounded by DialTimeout and NOT by the
                requester's context); w = the requester is still waiting in its select
     TBusy      handed to a requester: conn.run is serving (or about to serve) a request
     TPooled    in g.idleConns (its idle timer armed)
     TClosed    c.close() was called: conn.run's request channel is closed, its deferred pc.Close()
                closes the socket and the goroutine ends
     TFailed    set-up failed, no connection came into being
   A connection in TBusy leaves it by the end of its request (TRelease), a connection error (TBroken) or
   the request's I/O deadline (TDeadline): every request handed to a connection carries a deadline.
   There is no other place: the helper's  case <-ctx.Done(): if !g.releaseConn(c) { c.close() }
   is what keeps a connection whose set-up completes after its requester left AND after the pool was
   closed from being neither pooled nor closed (its conn.run goroutine would wait for requests
   forever, the socket would stay open). *)
From Coq Require Import List Arith Bool.
Import ListNotations.

Inductive tcst := TSetup (waiting : bool) | TBusy | TPooled | TClosed | TFailed.
Record tcstate := mkTc { tc_closed : bool;            (* g.closed, set by closeIdleConns *)
                         tc_conns : list tcst }.

Inductive tclabel :=
| TConnect                 (* grabConnOrConnect: no idle connection; go func() { g.connect(...) ... } *)
| TGrab (i : nat)          (* grabConn / grabConnTo: idle connection i is taken out of the pool *)
| TLeave (i : nat)         (* environment: the requester's context ends while helper i is still connecting *)
| TSetupOk (i : nat)       (* connect returned a connection: select { connChan <- c | <-ctx.Done() } *)
| TSetupFail (i : nat)     (* connect returned an error *)
| TRelease (i : nat)       (* conn.run finished a request: if !g.releaseConn(c) { break } *)
| TBroken (i : nat)        (* conn.run leaves its loop on a connection error *)
| TDeadline (i : nat)      (* the I/O deadline of the request being served fires: pc.RoundTrip fails, conn.run breaks *)
| TIdleTimeout (i : nat)   (* the idle timer: if g.removeConn(c) { c.close() } *)
| TClosePool.              (* closeIdleConns: take every idle connection, closed = true, close them *)

Fixpoint tc_upd (i : nat) (x : tcst) (l : list tcst) {struct l} : list tcst :=
  match l, i with
  | [], _ => []
  | _ :: t, O => x :: t
  | h :: t, S j => h :: tc_upd j x t
  end.
(* g.releaseConn(c): false when the group is closed, else the connection is pooled *)
Definition tc_release (s : tcstate) : tcst := if tc_closed s then TClosed else TPooled.
Definition tc_set (i : nat) (x : tcst) (s : tcstate) : tcstate := mkTc (tc_closed s) (tc_upd i x (tc_conns s)).

Definition tc_step (s : tcstate) (l : tclabel) : option tcstate :=
  match l with
  | TConnect => Some (mkTc (tc_closed s) (tc_conns s ++ [TSetup true]))
  | TGrab i => match nth_error (tc_conns s) i with Some TPooled => Some (tc_set i TBusy s) | _ => None end
  | TLeave i => match nth_error (tc_conns s) i with Some (TSetup true) => Some (tc_set i (TSetup false) s) | _ => None end
  | TSetupOk i =>
    match nth_error (tc_conns s) i with
    | Some (TSetup true) => Some (tc_set i TBusy s)                 (* connChan <- c *)
    | Some (TSetup false) => Some (tc_set i (tc_release s) s)       (* if !g.releaseConn(c) { c.close() } *)
    | _ => None end
  | TSetupFail i => match nth_error (tc_conns s) i with Some (TSetup _) => Some (tc_set i TFailed s) | _ => None end
  | TRelease i => match nth_error (tc_conns s) i with Some TBusy => Some (tc_set i (tc_release s) s) | _ => None end
  | TBroken i => match nth_error (tc_conns s) i with Some TBusy => Some (tc_set i TClosed s) | _ => None end
  (* OBLIGATION behind this label (not visible to the skeleton translator, exercised on the implementation by
     the refresh-silent scenarios of harness/cmd/c09r): the context stored in the connRequest is the one whose
     deadline bounds the request — conn.roundTrip sets the connection's I/O deadline from cr.ctx.Deadline()
     ONLY.  sendRequest passes the caller's context; connPool.discover must pass the per-refresh context
     built with context.WithTimeout(ctx, p.metadataTTL) and not the pool's own context, which has no
     deadline: otherwise a refresh the broker never answers keeps its connection in TBusy for ever — it
     is not idle, so closeIdleConns (TClosePool) does not reach it — and every refresh period adds one. *)
  | TDeadline i => match nth_error (tc_conns s) i with Some TBusy => Some (tc_set i TClosed s) | _ => None end
  | TIdleTimeout i => match nth_error (tc_conns s) i with Some TPooled => Some (tc_set i TClosed s) | _ => None end
  | TClosePool => Some (mkTc true (map (fun c => match c with TPooled => TClosed | x => x end) (tc_conns s)))
  end.

Definition tc_init : tcstate := mkTc false [].

Definition tc_active (c : tcst) : bool := match c with TSetup _ | TBusy => true | _ => false end.
Definition tc_open (c : tcst) : bool := match c with TBusy | TPooled => true | TSetup _ => true | _ => false end.
(* the seeded shape, for the non-vacuity example: a set-up finishing after requester and pool are gone *)
Definition tc_late_setup : list tclabel := [TConnect; TLeave 0; TClosePool; TSetupOk 0].
