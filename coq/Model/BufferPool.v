(* Model/BufferPool.v — the package-level pool of decompression buffers of /repo/buffer.go
   (bufferPool, acquireBuffer, releaseBuffer) as used by messageSetReader.decompressed
   (message_reader.go newMessageSetReader acquires, batch.go Batch.close releases).
   Atomic-step LTS; definitions only.  An "owner" is one messageSetReader (one Batch). *)
From Coq Require Import List Arith Bool.
Import ListNotations.

Record bstate := mkB {
  bfree : list nat;             (* the pool: buffers available to the next acquire, newest first *)
  bheld : list (nat * nat);     (* (owner, buffer) of live readers *)
  bnext : nat                   (* next never-used buffer (sync.Pool.New) *)
}.

Definition binit := mkB [] [] 0.

Inductive blabel :=
| Acquire (o : nat)                  (* acquireBuffer() by a new reader o *)
| Release (o : nat)                  (* releaseBuffer(o.decompressed), o.decompressed = nil: once per reader *)
| ReleaseAgain (o : nat) (b : nat).  (* NOT in the code: a second Put of a buffer its reader gave back already *)

Fixpoint holds (o : nat) (l : list (nat * nat)) {struct l} : option nat :=
  match l with
  | [] => None
  | (o', b) :: l' => if Nat.eqb o' o then Some b else holds o l'
  end.

Fixpoint drop_owner (o : nat) (l : list (nat * nat)) {struct l} : list (nat * nat) :=
  match l with
  | [] => []
  | (o', b) :: l' => if Nat.eqb o' o then l' else (o', b) :: drop_owner o l'
  end.

Definition bstep (s : bstate) (l : blabel) : option bstate :=
  match l with
  | Acquire o =>
    match holds o (bheld s), bfree s with
    | Some _, _ => None
    | None, b :: f => Some (mkB f ((o, b) :: bheld s) (bnext s))
    | None, [] => Some (mkB [] ((o, bnext s) :: bheld s) (S (bnext s)))
    end
  | Release o =>
    match holds o (bheld s) with
    | Some b => Some (mkB (b :: bfree s) (drop_owner o (bheld s)) (bnext s))
    | None => None
    end
  | ReleaseAgain o b => Some (mkB (b :: bfree s) (bheld s) (bnext s))
  end.

Fixpoint brun (s : bstate) (ls : list blabel) {struct ls} : option bstate :=
  match ls with
  | [] => Some s
  | l :: ls' => match bstep s l with Some s' => brun s' ls' | None => None end
  end.

Definition disciplined (l : blabel) : bool :=
  match l with ReleaseAgain _ _ => false | _ => true end.
