(* Model/Schema.v — executable model of the schema-directed codec of /repo/protocol
   (encode.go, decode.go, request.go, response.go).  Definitions only.

   A [ty] is what structEncodeFuncOf/structDecodeFuncOf select for ONE api version
   (the translator harness/cmd/vgen does the version selection from the struct
   tags); [flex] is the message's "flexible" flag.  Go run-time failures are explicit
   outcomes: Panic (negative or out-of-range make), Oom (allocation above the memory
   budget), never totalised away.  (Before the repair recorded as F8 in
   known_findings.json the decoder could also slice with a negative bound and spin
   in wire-counted loops after an error; the model follows the repaired code.) *)
From Coq Require Import List NArith ZArith Bool.
From KV Require Import Lib.Bits Lib.Bytes Lib.Varint.
Import ListNotations.

Inductive ty : Type :=
| TBool
| TInt (w : nat)                      (* int8/16/32/64: w = 1, 2, 4, 8 *)
| TFloat64
| TString (nullable : bool)
| TBytes (nullable : bool)
| TArray (nullable : bool) (esize : N) (elem : ty)   (* esize = Go in-memory size of an element *)
| TStruct (fields : list ty) (tagged : list (Z * ty))
| TMarker                             (* a zero-size `_ struct{}` field *)
| TRecords (raw : bool).              (* protocol.RecordSet / RawRecordSet: delegated to C05 *)

Inductive value : Type :=
| VBool (b : bool)
| VInt (z : Z)
| VFloat (bits : N)
| VString (s : list N)                (* a Go string cannot be nil *)
| VBytes (b : option (list N))        (* None = nil slice *)
| VArray (a : option (list value)) (pad : N)  (* elements, then [pad] zero-valued elements *)
| VStruct (fs : list value) (ts : list value)
| VUnit
| VRecords (raw : list N).

Definition lenZ {A} (l : list A) : Z := Z.of_nat (length l).

(* ------------------------------------------------------------------ encoding *)
Definition enc_i16 (z : Z) : list N := put_bes 2 z.
Definition enc_i32 (z : Z) : list N := put_bes 4 z.

Definition is_marker (t : ty) : bool := match t with TMarker => true | _ => false end.

Fixpoint encode (flex : bool) (t : ty) (v : value) {struct t} : option (list N) :=
  match t, v with
  | TBool, VBool b => Some [if b then 1%N else 0%N]
  | TInt w, VInt z => Some (put_bes w z)
  | TFloat64, VFloat bits => Some (put_be 8 bits)
  | TString nullable, VString s =>
      if flex then
        if nullable && (match s with [] => true | _ => false end) then Some (put_uvarint 0)
        else Some (put_uvarint (N.of_nat (length s) + 1) ++ s)
      else
        if nullable && (match s with [] => true | _ => false end) then Some (enc_i16 (-1))
        else Some (enc_i16 (lenZ s) ++ s)            (* int16(len(s)) wraps in put_bes *)
  | TBytes nullable, VBytes b =>
      let bs := match b with None => [] | Some l => l end in
      if flex then
        if nullable && (match b with None => true | _ => false end) then Some (put_uvarint 0)
        else Some (put_uvarint (N.of_nat (length bs) + 1) ++ bs)
      else
        if nullable && (match b with None => true | _ => false end) then Some (enc_i32 (-1))
        else Some (enc_i32 (lenZ bs) ++ bs)
  | TArray nullable _ elem, VArray a pad =>
      if negb (pad =? 0)%N then None else
      let es := match a with None => [] | Some l => l end in
      let body :=
        (fix go (l : list value) : option (list N) :=
           match l with
           | [] => Some []
           | x :: r => match encode flex elem x, go r with
                       | Some bx, Some br => Some (bx ++ br)
                       | _, _ => None
                       end
           end) es in
      match body with
      | None => None
      | Some bb =>
        if flex then
          if nullable && (match a with None => true | _ => false end) then Some (put_uvarint 0)
          else Some (put_uvarint (N.of_nat (length es) + 1) ++ bb)
        else
          if nullable && (match a with None => true | _ => false end) then Some (enc_i32 (-1))
          else Some (enc_i32 (lenZ es) ++ bb)
      end
  | TStruct fields tagged, VStruct fs ts =>
      let regular :=
        (fix go (tl : list ty) (vl : list value) : option (list N) :=
           match tl, vl with
           | [], [] => Some []
           | ft :: tr, fv :: vr =>
               match encode flex ft fv, go tr vr with
               | Some bx, Some br => Some (bx ++ br)
               | _, _ => None
               end
           | _, _ => None
           end) fields fs in
      let tags :=
        (fix go (tl : list (Z * ty)) (vl : list value) : option (N * list N) :=
           match tl, vl with
           | [], [] => Some (0%N, [])
           | (id, ft) :: tr, fv :: vr =>
               match go tr vr with
               | None => None
               | Some (cnt, br) =>
                 if is_marker ft then Some (cnt, br)      (* typ.Size() == 0: skipped *)
                 else match encode flex ft fv with
                      | None => None
                      | Some bx =>
                        Some ((cnt + 1)%N,
                              put_uvarint (u64 id) ++ put_uvarint (N.of_nat (length bx)) ++ bx ++ br)
                      end
               end
           | _, _ => None
           end) tagged ts in
      match regular, tags with
      | Some br, Some (cnt, bt) =>
          if flex then Some (br ++ put_uvarint cnt ++ bt) else Some br
      | _, _ => None
      end
  | TMarker, VUnit => Some []
  | TRecords _, VRecords raw => Some raw
  | _, _ => None
  end.

(* zero value of a Go type *)
Fixpoint zero (t : ty) {struct t} : value :=
  match t with
  | TBool => VBool false
  | TInt _ => VInt 0
  | TFloat64 => VFloat 0
  | TString _ => VString []
  | TBytes _ => VBytes None
  | TArray _ _ _ => VArray None 0
  | TStruct fields tagged =>
      VStruct ((fix go (l : list ty) : list value :=
                  match l with [] => [] | x :: r => zero x :: go r end) fields)
              ((fix go (l : list (Z * ty)) : list value :=
                  match l with [] => [] | (_, x) :: r => zero x :: go r end) tagged)
  | TMarker => VUnit
  | TRecords _ => VRecords []
  end.

(* ------------------------------------------------------------------ decoding *)
Inductive derr := EEof | EMalformed.

Record dstate := { d_in : list N; d_remain : Z; d_alloc : N }.

(* [Err e ra al]: the sticky decoder error is set; [ra] is d.remain after the
   discardAll that setError performs (0 unless the input itself ran out). *)
Inductive res (A : Type) : Type :=
| Ok (a : A) (s : dstate)
| Err (e : derr) (remain_after : Z) (alloc : N)
| Panic
| Oom
| OutOfFuel.
Arguments Ok {A}. Arguments Err {A}. Arguments Panic {A}. Arguments Oom {A}.
Arguments OutOfFuel {A}.

Definition bind {A B} (r : res A) (f : A -> dstate -> res B) : res B :=
  match r with
  | Ok a s => f a s
  | Err e ra al => Err e ra al
  | Panic => Panic | Oom => Oom | OutOfFuel => OutOfFuel
  end.

Record cfg := { budget : N }.
Definition max_alloc : N := 281474976710656.   (* 2^48: runtime maxAlloc on linux/amd64 *)

(* remain after setError's discardAll *)
Definition after_err (s : dstate) : Z :=
  if (s.(d_remain) <=? 0)%Z then s.(d_remain)
  else if (Z.of_nat (length s.(d_in)) <? s.(d_remain))%Z
       then (s.(d_remain) - Z.of_nat (length s.(d_in)))%Z else 0%Z.

Definition fail {A} (e : derr) (s : dstate) : res A := Err e (after_err s) s.(d_alloc).

(* io.ReadFull(d, b) with len(b) = k, then setError.  All comparisons are made on Z
   so that no wire-controlled number is ever converted to a unary nat. *)
Definition read_z (k : Z) (s : dstate) : res (list N) :=
  if (k <=? 0)%Z then Ok [] s
  else if (s.(d_remain) <=? 0)%Z then Err EEof s.(d_remain) s.(d_alloc)   (* d.Read: remain <= 0 => io.EOF *)
  else
    let m := Z.min k s.(d_remain) in
    if (Z.of_nat (length s.(d_in)) <? m)%Z then
      (* the stream ends first *)
      Err EEof (s.(d_remain) - Z.of_nat (length s.(d_in)))%Z s.(d_alloc)
    else if (m <? k)%Z then
      (* the frame ends first: remain reaches 0, setError, nothing left to discard *)
      Err EEof 0 s.(d_alloc)
    else Ok (firstn (Z.to_nat k) s.(d_in))
            {| d_in := skipn (Z.to_nat k) s.(d_in); d_remain := s.(d_remain) - k; d_alloc := s.(d_alloc) |}.
Definition read_n (k : nat) (s : dstate) : res (list N) := read_z (Z.of_nat k) s.

(* make([]T, n) with elements of [esize] bytes *)
Definition alloc (c : cfg) (n : Z) (esize : N) (s : dstate) : res unit :=
  if (n <? 0)%Z then Panic
  else let bytes := (Z.to_N n * esize)%N in
       if (max_alloc <? bytes)%N then Panic
       else if (c.(budget) <? s.(d_alloc) + bytes)%N then Oom
       else Ok tt {| d_in := s.(d_in); d_remain := s.(d_remain); d_alloc := s.(d_alloc) + bytes |}.

(* d.read(n): a length that is negative or exceeds what remains of the frame is
   rejected before anything is allocated; then make([]byte, n) and ReadFull *)
Definition read_alloc (c : cfg) (n : Z) (s : dstate) : res (list N) :=
  if (n <? 0)%Z || (s.(d_remain) <? n)%Z then fail EEof s
  else bind (alloc c n 1 s) (fun _ s => read_z n s).

Definition read_int (w : nat) (s : dstate) : res Z :=
  bind (read_n w s) (fun bs s => Ok (get_bes w bs) s).

(* readUnsignedVarInt *)
Fixpoint uvarint_loop (n : nat) (x shift : N) (s : dstate) {struct n} : res N :=
  match n with
  | O => fail EMalformed s
  | S n' =>
    bind (read_n 1 s) (fun bs s =>
      let b := match bs with [b] => b | _ => 0%N end in
      if (b <? 128)%N then Ok (N.lor x ((b * 2 ^ shift) mod M64)) s
      else uvarint_loop n' (N.lor x (((b mod 128) * 2 ^ shift) mod M64)) (shift + 7) s)
  end.
Definition read_uvarint (s : dstate) : res N :=
  let n := if (s.(d_remain) <? 11)%Z then Z.to_nat s.(d_remain) else 11%nat in
  uvarint_loop n 0 0 s.

(* int(x) for a uint64 x *)
Definition int_of_u64 (x : N) : Z := s64 x.

Definition tagged_lookup {A} (id : Z) (l : list (Z * A)) : option (nat * A) :=
  (fix go (l : list (Z * A)) (i : nat) : option (nat * A) :=
     match l with
     | [] => None
     | (k, a) :: r => match go r (S i) with          (* the map keeps the LAST entry of a key *)
                      | Some x => Some x
                      | None => if (k =? id)%Z then Some (i, a) else None
                      end
     end) l O.

Fixpoint set_nth {A} (l : list A) (i : nat) (a : A) {struct l} : list A :=
  match l, i with
  | [], _ => []
  | _ :: r, O => a :: r
  | x :: r, S j => x :: set_nth r j a
  end.

Section Decode.
Variable c : cfg.
Variable flex : bool.

(* the element loop of decodeArray / decodeCompactArray:
   for i := 0; i < n && d.remain > 0; i++ { decodeElem } ; fuel = a list at least
   as long as the input (every iteration that returns Ok consumed a byte when the
   schema has no zero-length elements). *)
Fixpoint elems_loop (dec : dstate -> res value) (fuel : list N) (n : N) (s : dstate)
  {struct fuel} : res (list value * N) :=
  if (n =? 0)%N then Ok ([], 0%N) s
  else if (s.(d_remain) <=? 0)%Z then Ok ([], n) s        (* the rest stays zero-valued *)
  else match fuel with
       | [] => OutOfFuel
       | _ :: fuel' =>
         match dec s with
         | Ok v s' =>
             bind (elems_loop dec fuel' (n - 1) s') (fun r s'' => Ok (v :: fst r, snd r) s'')
         | Err e ra al => Err e ra al          (* for i < n && d.remain > 0 && d.err == nil *)
         | Panic => Panic | Oom => Oom | OutOfFuel => OutOfFuel
         end
       end.

Definition skip_header_tags_step (s : dstate) : res unit :=
  bind (read_uvarint s) (fun _ s =>
  bind (read_uvarint s) (fun size s =>
  bind (read_alloc c (int_of_u64 size) s) (fun _ s => Ok tt s))).

Fixpoint decode (t : ty) (s : dstate) {struct t} : res value :=
  match t with
  | TBool => bind (read_n 1 s) (fun bs s => Ok (VBool (negb (get_be bs 0 =? 0)%N)) s)
  | TInt w => bind (read_int w s) (fun z s => Ok (VInt z) s)
  | TFloat64 => bind (read_n 8 s) (fun bs s => Ok (VFloat (get_be bs 0)) s)
  | TString _ =>
      if flex then
        bind (read_uvarint s) (fun n s =>
          if (n <? 1)%N then Ok (VString []) s
          else bind (read_alloc c (int_of_u64 (n - 1)) s) (fun bs s => Ok (VString bs) s))
      else
        bind (read_int 2 s) (fun n s =>
          if (n <? 0)%Z then Ok (VString []) s
          else bind (read_alloc c n s) (fun bs s => Ok (VString bs) s))
  | TBytes _ =>
      if flex then
        bind (read_uvarint s) (fun n s =>
          if (n <? 1)%N then Ok (VBytes None) s
          else bind (read_alloc c (int_of_u64 (n - 1)) s) (fun bs s => Ok (VBytes (Some bs)) s))
      else
        bind (read_int 4 s) (fun n s =>
          if (n <? 0)%Z then Ok (VBytes None) s
          else bind (read_alloc c n s) (fun bs s => Ok (VBytes (Some bs)) s))
  | TArray _ esize elem =>
      let body (n : Z) (s : dstate) : res value :=
        bind (alloc c n esize s) (fun _ s =>
        bind (elems_loop (decode elem) (0%N :: s.(d_in)) (Z.to_N n) s) (fun r s =>
          Ok (VArray (Some (fst r)) (snd r)) s)) in
      if flex then
        bind (read_uvarint s) (fun n s =>
          if (n <? 1)%N then Ok (VArray None 0) s
          else if (s.(d_remain) <? 0)%Z || (s.(d_remain) <? Z.of_N (n - 1))%Z then fail EEof s
          else body (Z.of_N (n - 1)) s)
      else
        bind (read_int 4 s) (fun n s =>
          if (n <? 0)%Z then Ok (VArray None 0) s
          else if (s.(d_remain) <? n)%Z then fail EEof s
          else body n s)
  | TStruct fields tagged =>
      let regular :=
        (fix go (tl : list ty) (s : dstate) : res (list value) :=
           match tl with
           | [] => Ok [] s
           | ft :: tr => bind (decode ft s) (fun v s =>
                         bind (go tr s) (fun vs s => Ok (v :: vs) s))
           end) fields in
      let zeros :=
        (fix go (l : list (Z * ty)) : list value :=
           match l with [] => [] | (_, x) :: r => zero x :: go r end) tagged in
      (* decode the tagged field with this id, if the map has it *)
      let dec_tag (id : Z) (s : dstate) : option (nat * res value) :=
        (fix go (l : list (Z * ty)) (i : nat) : option (nat * res value) :=
           match l with
           | [] => None
           | (k, ft) :: r =>
               match go r (S i) with
               | Some x => Some x
               | None => if (k =? id)%Z then Some (i, decode ft s) else None
               end
           end) tagged O in
      bind (regular s) (fun fs s =>
        if negb flex then Ok (VStruct fs zeros) s
        else
          bind (read_uvarint s) (fun cnt s =>
            let n := int_of_u64 cnt in
            (fix loop (fuel : list N) (n : Z) (ts : list value) (s : dstate) {struct fuel}
               : res value :=
               if (n <=? 0)%Z then Ok (VStruct fs ts) s
               else match fuel with
                    | [] => OutOfFuel
                    | _ :: fuel' =>
                      let step : res (list value) :=
                        bind (read_uvarint s) (fun tagid s =>
                        bind (read_uvarint s) (fun size s =>
                          match dec_tag (int_of_u64 tagid) s with
                          | Some (i, r) => bind r (fun v s => Ok (set_nth ts i v) s)
                          | None => bind (read_alloc c (int_of_u64 size) s) (fun _ s => Ok ts s)
                          end)) in
                      match step with
                      | Ok ts' s' => loop fuel' (n - 1)%Z ts' s'
                      | Err e ra al => Err e ra al      (* for i < n && d.err == nil *)
                      | Panic => Panic | Oom => Oom | OutOfFuel => OutOfFuel
                      end
                    end) (0%N :: 0%N :: s.(d_in)) n zeros s))
  | TMarker =>
      (* structDecodeFuncOf(struct{}): no fields; in a flexible message it still reads a tag buffer *)
      if negb flex then Ok VUnit s
      else
        bind (read_uvarint s) (fun cnt s =>
          (fix loop (fuel : list N) (n : Z) (s : dstate) {struct fuel} : res value :=
             if (n <=? 0)%Z then Ok VUnit s
             else match fuel with
                  | [] => OutOfFuel
                  | _ :: fuel' =>
                    match skip_header_tags_step s with
                    | Ok _ s' => loop fuel' (n - 1)%Z s'
                    | Err e ra al => Err e ra al
                    | Panic => Panic | Oom => Oom | OutOfFuel => OutOfFuel
                    end
                  end) (0%N :: 0%N :: s.(d_in)) (int_of_u64 cnt) s)
  | TRecords _ =>
      (* delegated to C05: the message-level model only handles the absent/empty set,
         a 4-byte size followed by that many bytes taken verbatim *)
      bind (read_int 4 s) (fun n s =>
        if (n <? 0)%Z then Ok (VRecords (put_bes 4 n)) s
        else bind (read_alloc c n s) (fun bs s => Ok (VRecords (put_bes 4 n ++ bs)) s))
  end.

(* the tag buffer of a flexible request/response header: values thrown away *)
Fixpoint header_tags (fuel : list N) (n : Z) (s : dstate) {struct fuel} : res unit :=
  if (n <=? 0)%Z then Ok tt s
  else match fuel with
       | [] => OutOfFuel
       | _ :: fuel' =>
         match skip_header_tags_step s with
         | Ok _ s' => header_tags fuel' (n - 1)%Z s'
         | Err e ra al => Err e ra al          (* for i < taggedCount && d.err == nil *)
         | Panic => Panic | Oom => Oom | OutOfFuel => OutOfFuel
         end
       end.

(* d.discardAll() at the end of ReadResponse/ReadRequest (the reader is a
   protocol.Conn / bufio.Reader, i.e. a discarder) *)
Definition discard_all (s : dstate) : res unit :=
  if (s.(d_remain) <=? 0)%Z then Ok tt s
  else if (Z.of_nat (length s.(d_in)) <? s.(d_remain))%Z
       then Err EEof (s.(d_remain) - Z.of_nat (length s.(d_in)))%Z s.(d_alloc)
       else Ok tt {| d_in := skipn (Z.to_nat s.(d_remain)) s.(d_in); d_remain := 0; d_alloc := s.(d_alloc) |}.

(* protocol.ReadResponse: (correlation id, message, rest of the stream) *)
Definition read_response (t : ty) (input : list N) : res (Z * value) :=
  bind (read_int 4 {| d_in := input; d_remain := 4; d_alloc := 0 |}) (fun size s =>
  let s := {| d_in := s.(d_in); d_remain := size; d_alloc := s.(d_alloc) |} in
  bind (read_int 4 s) (fun corr s =>
  bind (if flex
        then bind (read_uvarint s) (fun cnt s => header_tags (0%N :: 0%N :: s.(d_in)) (int_of_u64 cnt) s)
        else Ok tt s) (fun _ s =>
  bind (decode t s) (fun v s =>
  bind (discard_all s) (fun _ s => Ok (corr, v) s))))).

(* protocol.ReadRequest: (api key, version, correlation id, client id, message);
   [schema_of] selects the message type from the header. *)
Definition read_request_header (input : list N) : res (Z * Z * Z * list N) :=
  bind (read_int 4 {| d_in := input; d_remain := 4; d_alloc := 0 |}) (fun size s =>
  let s := {| d_in := s.(d_in); d_remain := size; d_alloc := s.(d_alloc) |} in
  bind (read_int 2 s) (fun key s =>
  bind (read_int 2 s) (fun ver s =>
  bind (read_int 4 s) (fun corr s =>
  bind (read_int 2 s) (fun n s =>
    if (n <? 0)%Z then Ok (key, ver, corr, []) s
    else bind (read_alloc c n s) (fun cid s => Ok (key, ver, corr, cid) s)))))).

End Decode.

(* ------------------------------------------------------------------ framing (write side) *)
Definition frame (body : list N) : list N := put_be 4 (N.of_nat (length body) mod M32) ++ body.

Definition write_response (flex : bool) (t : ty) (corr : Z) (v : value) : option (list N) :=
  match encode flex t v with
  | None => None
  | Some b => Some (frame (enc_i32 corr ++ (if flex then put_uvarint 0 else []) ++ b))
  end.

Definition write_request (flex : bool) (t : ty) (key ver corr : Z) (client : list N) (v : value)
  : option (list N) :=
  match encode flex t v with
  | None => None
  | Some b =>
    let cid := if flex
               then (match client with
                     | [] => enc_i16 (-1)
                     | _ => enc_i16 (lenZ client) ++ client
                     end) ++ put_uvarint 0
               else enc_i16 (lenZ client) ++ client in
    Some (frame (enc_i16 key ++ enc_i16 ver ++ enc_i32 corr ++ cid ++ b))
  end.

(* a message schema as the translator emits it *)
Record msg_schema := {
  ms_api : Z; ms_response : bool; ms_version : Z; ms_flex : bool; ms_ty : ty
}.

(* protocol.ReadRequest; [lookup key version] = (flexible, type) of the registered request *)
Definition read_request (c : cfg) (lookup : Z -> Z -> option (bool * ty)) (input : list N)
  : res (Z * Z * Z * list N * value) :=
  bind (read_request_header c input) (fun h s =>
    match h with
    | (key, ver, corr, cid) =>
      match lookup key ver with
      | None => fail EMalformed s                      (* unsupported api key / version *)
      | Some (flex, t) =>
        bind (if flex
              then bind (read_uvarint s) (fun cnt s => header_tags c (0%N :: 0%N :: s.(d_in)) (int_of_u64 cnt) s)
              else Ok tt s) (fun _ s =>
        bind (decode c flex t s) (fun v s =>
        bind (discard_all s) (fun _ s => Ok (key, ver, corr, cid, v) s)))
      end
    end).

Definition lookup_schema (l : list msg_schema) (response : bool) (key ver : Z) : option (bool * ty) :=
  match find (fun m => (m.(ms_api) =? key)%Z && (m.(ms_version) =? ver)%Z && Bool.eqb m.(ms_response) response) l with
  | Some m => Some (m.(ms_flex), m.(ms_ty))
  | None => None
  end.
