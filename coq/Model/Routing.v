(* Model/Routing.v — executable model of the request routing of /repo/transport.go and of
   the Broker()/Split() methods in /repo/protocol/*  (definitions only, no proofs).

   Conventions.  Topic / group names are byte strings [list N] compared like Go strings
   (bytewise lexicographic).  int16/int32 values are [Z].  Go maps are association lists
   with unique keys ([mset] replaces), so "last write wins" as in Go; iteration order of a
   Go map is unspecified and never observable through the projections we compare.
   A broker's (Rack, Host, Port) triple is one opaque token [b_addr : N] (0 = the Go zero
   value ("", "", 0)).  Go zero values returned by lookups of missing map keys are
   explicit ([zero_broker]); index-out-of-range panics are the outcome [Panic]. *)
From Coq Require Import List NArith ZArith Bool.
Import ListNotations.
Open Scope Z_scope.

(* ------------------------------------------------------------------ *)
(* protocol/protocol.go:35   func (k ApiKey) SelectVersion(minVersion, maxVersion int16) int16
   cmin/cmax = k.MinVersion()/k.MaxVersion() (the client's range), bmin/bmax = the range the
   broker advertised.  [bmin] is not looked at by the code. *)
Definition select_version (cmin cmax bmin bmax : Z) : Z :=
  if cmin >? bmax then cmin
  else if cmax <? bmax then cmax
  else bmax.

(* ------------------------------------------------------------------ *)
(* names *)
Definition name := list N.

Fixpoint name_cmp (a b : name) {struct a} : comparison :=
  match a, b with
  | [], [] => Eq
  | [], _ :: _ => Lt
  | _ :: _, [] => Gt
  | x :: a', y :: b' =>
      match N.compare x y with
      | Eq => name_cmp a' b'
      | c => c
      end
  end.
Definition name_ltb (a b : name) : bool := match name_cmp a b with Lt => true | _ => false end.
Definition name_eqb (a b : name) : bool := match name_cmp a b with Eq => true | _ => false end.

(* ------------------------------------------------------------------ *)
(* Go maps *)
Section Maps.
  Context {K V : Type}.
  Variable keqb : K -> K -> bool.
  Fixpoint mget (m : list (K * V)) (k : K) : option V :=
    match m with
    | [] => None
    | (k', v) :: m' => if keqb k k' then Some v else mget m' k
    end.
  Fixpoint mdel (m : list (K * V)) (k : K) : list (K * V) :=
    match m with
    | [] => []
    | (k', v) :: m' => if keqb k k' then mdel m' k else (k', v) :: mdel m' k
    end.
  Definition mset (m : list (K * V)) (k : K) (v : V) : list (K * V) := (k, v) :: mdel m k.
  Definition mhas (m : list (K * V)) (k : K) : bool :=
    match mget m k with Some _ => true | None => false end.
End Maps.

(* ------------------------------------------------------------------ *)
(* protocol/cluster.go, protocol/protocol.go: Cluster, Broker, Topic, Partition *)
Record broker := { b_id : Z; b_addr : N }.
Record partition := { p_id : Z; p_err : Z; p_leader : Z }.
Record topic := { t_name : name; t_err : Z; t_parts : list (Z * partition) }.
Record cluster := { c_controller : Z; c_brokers : list (Z * broker); c_topics : list (name * topic) }.

Definition zero_broker : broker := {| b_id := 0; b_addr := 0 |}.     (* protocol.Broker{} *)
Definition no_broker : broker := {| b_id := -1; b_addr := 0 |}.      (* protocol.Broker{ID: -1} *)
Definition empty_cluster : cluster := {| c_controller := 0; c_brokers := []; c_topics := [] |}.
Definition broker_eqb (a b : broker) : bool := (b_id a =? b_id b) && N.eqb (b_addr a) (b_addr b).

Definition get_broker (c : cluster) (id : Z) : option broker := mget Z.eqb (c_brokers c) id.
(* cluster.Brokers[id] with the Go zero value for a missing key *)
Definition get_broker_or_zero (c : cluster) (id : Z) : broker :=
  match get_broker c id with Some b => b | None => zero_broker end.
Definition get_topic (c : cluster) (n : name) : option topic := mget name_eqb (c_topics c) n.

(* ------------------------------------------------------------------ *)
(* routing outcomes *)
Inductive rerr :=
| ENoTopic (t : name)                  (* protocol.ErrNoTopic *)
| ENoPartition (t : name) (p : Z)      (* protocol.ErrNoPartition *)
| ENoLeader (t : name) (p : Z)         (* protocol.ErrNoLeader *)
| EMismatch (b cur : Z).               (* "mismatching leaders (%d!=%d)" *)

Inductive outcome (A : Type) :=
| Ok (a : A)
| Err (e : rerr)
| Panic.
Arguments Ok {A} a.
Arguments Err {A} e.
Arguments Panic {A}.

(* the topics/partitions a request names, in request order *)
Definition tps := list (name * list Z).

(* protocol/produce/produce.go:22, protocol/fetch/fetch.go:28, protocol/rawproduce: the inner
   loop over t.Partitions; [cur] is the local variable [broker]. *)
Fixpoint route_parts (c : cluster) (tn : name) (tp : topic) (ps : list Z) (cur : broker)
  {struct ps} : outcome broker :=
  match ps with
  | [] => Ok cur
  | p :: ps' =>
      match mget Z.eqb (t_parts tp) p with
      | None => Err (ENoPartition tn p)
      | Some part =>
          match get_broker c (p_leader part) with
          | None => Err (ENoLeader tn p)
          | Some b =>
              if b_id cur <? 0 then route_parts c tn tp ps' b
              else if negb (b_id b =? b_id cur) then Err (EMismatch (b_id b) (b_id cur))
              else route_parts c tn tp ps' cur
          end
      end
  end.

Fixpoint route_topics (c : cluster) (ts : tps) (cur : broker) {struct ts} : outcome broker :=
  match ts with
  | [] => Ok cur
  | (tn, ps) :: ts' =>
      match get_topic c tn with
      | None => Err (ENoTopic tn)
      | Some tp =>
          match route_parts c tn tp ps cur with
          | Ok cur' => route_topics c ts' cur'
          | o => o
          end
      end
  end.

Definition route_leader (c : cluster) (ts : tps) : outcome broker := route_topics c ts no_broker.

(* protocol/listoffsets/listoffsets.go:37  Request.Broker: looks only at
   r.Topics[0].Partitions[0]; ErrNoTopic when the topic is not in the layout; scans the VALUES
   of the topic's Partitions for p.ID == partition (ErrNoPartition when none); returns
   cluster.Brokers[p.Leader], or ErrNoLeader when that broker is absent. *)
Definition route_listoffsets (c : cluster) (ts : tps) : outcome broker :=
  match ts with
  | (tn, p :: _) :: _ =>
      match get_topic c tn with
      | None => Err (ENoTopic tn)
      | Some tp =>
          match find (fun kv => p_id (snd kv) =? p) (t_parts tp) with
          | Some kv =>
              match get_broker c (p_leader (snd kv)) with
              | Some b => Ok b
              | None => Err (ENoLeader tn p)
              end
          | None => Err (ENoPartition tn p)
          end
      end
  | _ => Panic
  end.

(* listoffsets.go:52 Split: one request per named partition, in order *)
Definition split_listoffsets (ts : tps) : list tps :=
  flat_map (fun tp : name * list Z => map (fun p => [(fst tp, [p])]) (snd tp)) ts.

(* createtopics.go:21, deletetopics.go:16, createpartitions, alterconfigs, electleaders, ...:
   return cluster.Brokers[cluster.Controller], nil *)
Definition route_controller (c : cluster) : outcome broker :=
  Ok (get_broker_or_zero c (c_controller c)).

(* listgroups.go:19: cluster.Brokers[r.brokerID], nil *)
Definition route_broker_id (c : cluster) (id : Z) : outcome broker := Ok (get_broker_or_zero c id).
(* listgroups.go:23 Split: one request per broker of the layout, carrying broker.ID *)
Definition split_listgroups (c : cluster) : list Z := map (fun kv => b_id (snd kv)) (c_brokers c).

(* API keys used below *)
Definition K_Produce : Z := 0.
Definition K_Fetch : Z := 1.
Definition K_ListOffsets : Z := 2.
Definition K_Metadata : Z := 3.
Definition K_FindCoordinator : Z := 10.
Definition K_ListGroups : Z := 16.
Definition K_CreateTopics : Z := 19.

Inductive request_kind :=
| RProduce (ts : tps)
| RFetch (ts : tps)
| RListOffsets (ts : tps)          (* one message, as returned by Split (or not) *)
| RController (api : Z)            (* create-topics, delete-topics, create-partitions, ... *)
| RListGroups (bid : Z)            (* one message as returned by Split *)
| RGroup (api : Z) (g : name)      (* protocol.GroupMessage *)
| RTxn (api : Z) (t : name)        (* protocol.TransactionalMessage *)
| ROther (api : Z).                (* neither: metadata, find-coordinator, api-versions, ... *)

Definition api_of (r : request_kind) : Z :=
  match r with
  | RProduce _ => K_Produce
  | RFetch _ => K_Fetch
  | RListOffsets _ => K_ListOffsets
  | RController api => api
  | RListGroups _ => K_ListGroups
  | RGroup api _ => api
  | RTxn api _ => api
  | ROther api => api
  end.

(* the BrokerMessage kinds: what m.Broker(state.layout) returns *)
Definition route (c : cluster) (r : request_kind) : option (outcome broker) :=
  match r with
  | RProduce ts => Some (route_leader c ts)
  | RFetch ts => Some (route_leader c ts)
  | RListOffsets ts => Some (route_listoffsets c ts)
  | RController _ => Some (route_controller c)
  | RListGroups id => Some (route_broker_id c id)
  | _ => None
  end.

(* ------------------------------------------------------------------ *)
(* transport.go:671 connPool.sendRequest *)
Inductive conn_target :=
| TBroker (id : Z)      (* p.conns[id]: the connection group of that broker *)
| TControl.             (* p.ctrl: the bootstrap address, i.e. "any broker" *)

(* the answer to the find-coordinator request (only these two fields matter) *)
Record fc_answer := { fc_err : Z; fc_node : Z }.

Inductive reject_reason :=
| RejRoute (e : rerr)           (* Broker() returned an error *)
| RejBrokerNotAvailable         (* grabBrokerConn: no connection group for that id *)
| RejCoordinatorLookup          (* the find-coordinator exchange itself failed *)
| RejCoordinatorError (code : Z). (* the find-coordinator response carries an error code *)

(* findcoordinator.Request.KeyType: CoordinatorKeyTypeConsumer / CoordinatorKeyTypeTransaction *)
Definition KT_Group : Z := 0.
Definition KT_Txn : Z := 1.

(* what goes on the wire *)
Inductive wire_msg :=
| WReq (t : conn_target) (api : Z)      (* a request of API key [api] on that connection *)
| WFind (ktype : Z) (key : name).       (* findcoordinator.Request{Key, KeyType}; it is neither a
                                           Broker- nor a Group-message: the control connection *)

(* what went on the wire for one message, in order, then how it ended *)
Inductive send_result :=
| Sent (trace : list wire_msg)
| Rejected (trace : list wire_msg) (why : reject_reason)
| SendPanic.

(* brokerID >= 0 -> grabBrokerConn, else grabClusterConn *)
Definition grab (conns : list (Z * broker)) (id : Z) : option conn_target :=
  if id >=? 0 then (if mhas Z.eqb conns id then Some (TBroker id) else None)
  else Some TControl.

Definition send_to (conns : list (Z * broker)) (pre : list wire_msg) (id api : Z) : send_result :=
  match grab conns id with
  | Some t => Sent (pre ++ [WReq t api])
  | None => Rejected pre RejBrokerNotAvailable
  end.

(* [coord ktype key]: how the cluster answers a find-coordinator request for that key type and
   key: None = the exchange failed (connection error), Some a = the response.  Group and
   transaction coordinators of the same string are in general different brokers. *)
Definition coord_fn := Z -> name -> option fc_answer.

(* the find-coordinator exchange of sendRequest: a non-zero ErrorCode rejects the request with
   that Kafka error; otherwise brokerID = the NodeID field of the response. *)
Definition via_coordinator (conns : list (Z * broker)) (coord : coord_fn) (ktype : Z) (key : name)
           (api : Z) : send_result :=
  let pre := [WFind ktype key] in
  match coord ktype key with
  | None => Rejected pre RejCoordinatorLookup
  | Some a =>
      if negb (fc_err a =? 0) then Rejected pre (RejCoordinatorError (fc_err a))
      else send_to conns pre (fc_node a) api
  end.

Definition send_request (c : cluster) (conns : list (Z * broker)) (r : request_kind)
           (coord : coord_fn) : send_result :=
  match route c r with
  | Some (Err e) => Rejected [] (RejRoute e)
  | Some Panic => SendPanic
  | Some (Ok b) => send_to conns [] (b_id b) (api_of r)
  | None =>
      match r with
      | RGroup api g => via_coordinator conns coord KT_Group g api     (* Key: m.Group() *)
      | RTxn api t => via_coordinator conns coord KT_Txn t api         (* Key: m.Transaction(), KeyType: 1 *)
      | _ => send_to conns [] (-1) (api_of r)
      end
  end.

(* protocol/findcoordinator: KeyType is `min=v1`: at version 0 it is not on the wire and the
   broker answers for the group coordinator *)
Definition coord_at_version (fcver : Z) (coord : coord_fn) : coord_fn :=
  fun ktype key => coord (if fcver <? 1 then KT_Group else ktype) key.
Definition ktype_at_version (fcver ktype : Z) : Z := if fcver <? 1 then KT_Group else ktype.

(* ------------------------------------------------------------------ *)
(* version negotiation: transport.go:1206 (connect) and protocol/conn.go RoundTrip *)
Definition lookup_range (tbl : list (Z * (Z * Z))) (k : Z) : Z * Z :=
  match mget Z.eqb tbl k with Some r => r | None => (0, 0) end.

(* for _, r := range res.ApiKeys { ver[apiKey] = apiKey.SelectVersion(r.MinVersion, r.MaxVersion) } *)
Definition negotiate (client : list (Z * (Z * Z))) (advertised : list (Z * (Z * Z))) : list (Z * Z) :=
  fold_left (fun m e =>
               let k := fst e in
               let cr := lookup_range client k in
               mset Z.eqb m k (select_version (fst cr) (snd cr) (fst (snd e)) (snd (snd e))))
            advertised [].

(* apiVersion := versions[msg.ApiKey()]  (0 for a key the broker did not advertise) *)
Definition conn_version (neg : list (Z * Z)) (k : Z) : Z :=
  match mget Z.eqb neg k with Some v => v | None => 0 end.

(* ------------------------------------------------------------------ *)
(* metadata responses (protocol/metadata), projected *)
Record md_broker := { mb_id : Z; mb_addr : N }.
(* ReplicaNodes / IsrNodes / OfflineReplicas ride along: routing does not look at them, the cache
   must hand them back unchanged *)
Record md_part := { mp_idx : Z; mp_err : Z; mp_leader : Z;
                    mp_replicas : list Z; mp_isr : list Z; mp_offline : list Z }.
Record md_topic := { mt_name : name; mt_err : Z; mt_internal : bool; mt_parts : list md_part }.
Record metadata := { md_controller : Z; md_brokers : list md_broker; md_topics : list md_topic }.

(* sort.Slice on at most 12 elements is a stable insertion sort; on longer slices it is
   pdqsort (unstable) which agrees with this on slices with distinct keys. *)
Fixpoint insert_by {A : Type} (lt : A -> A -> bool) (x : A) (l : list A) {struct l} : list A :=
  match l with
  | [] => [x]
  | y :: l' => if lt x y then x :: l else y :: insert_by lt x l'
  end.
Definition isort {A : Type} (lt : A -> A -> bool) (l : list A) : list A :=
  fold_left (fun acc x => insert_by lt x acc) l [].

Definition broker_lt (a b : md_broker) : bool := mb_id a <? mb_id b.
Definition topic_lt (a b : md_topic) : bool := name_ltb (mt_name a) (mt_name b).
Definition part_lt (a b : md_part) : bool := mp_idx a <? mp_idx b.

(* update: sortMetadataBrokers / sortMetadataTopics / sortMetadataPartitions *)
Definition normalize_topic (t : md_topic) : md_topic :=
  {| mt_name := mt_name t; mt_err := mt_err t; mt_internal := mt_internal t;
     mt_parts := isort part_lt (mt_parts t) |}.
Definition normalize (m : metadata) : metadata :=
  {| md_controller := md_controller m;
     md_brokers := isort broker_lt (md_brokers m);
     md_topics := map normalize_topic (isort topic_lt (md_topics m)) |}.

(* transport.go:808 makePartitions, :778 makeLayout *)
Definition make_partitions (ps : list md_part) : list (Z * partition) :=
  fold_left (fun m p => mset Z.eqb m (mp_idx p)
                          {| p_id := mp_idx p; p_err := mp_err p; p_leader := mp_leader p |}) ps [].

Definition make_layout (m : metadata) : cluster :=
  {| c_controller := md_controller m;
     c_brokers := fold_left (fun acc b => mset Z.eqb acc (mb_id b) {| b_id := mb_id b; b_addr := mb_addr b |})
                            (md_brokers m) [];
     c_topics := fold_left (fun acc t =>
                              if mt_internal t then acc
                              else mset name_eqb acc (mt_name t)
                                        {| t_name := mt_name t; t_err := mt_err t;
                                           t_parts := make_partitions (mt_parts t) |})
                           (md_topics m) [] |}.

(* ------------------------------------------------------------------ *)
(* sort.Search as written (sort/search.go): binary search for the smallest index in [0,n)
   at which f is true.  [fuel] = n bounds the loop (j - i shrinks every iteration). *)
Fixpoint search_loop (fuel : nat) (f : nat -> bool) (i j : nat) {struct fuel} : nat :=
  match fuel with
  | O => i
  | S k =>
      if Nat.ltb i j then
        let h := Nat.div2 (i + j) in
        if f h then search_loop k f i h else search_loop k f (S h) j
      else i
  end.
Definition sort_search (n : nat) (f : nat -> bool) : nat := search_loop n f 0 n.

Definition unknown_topic (n : name) : md_topic :=
  {| mt_name := n; mt_err := 3; mt_internal := false; mt_parts := [] |}.   (* UnknownTopicOrPartition = 3 *)
Definition dummy_topic : md_topic := unknown_topic [].

(* transport.go:753 findMetadataTopic *)
Definition find_metadata_topic (topics : list md_topic) (n : name) : option md_topic :=
  let i := sort_search (length topics)
                       (fun i => negb (name_ltb (mt_name (nth i topics dummy_topic)) n)) in
  if Nat.ltb i (length topics) && name_eqb (mt_name (nth i topics dummy_topic)) n
  then Some (nth i topics dummy_topic) else None.

(* transport.go:731 filterMetadataResponse; [req] = req.TopicNames (None = nil) *)
Definition filter_metadata (req : option (list name)) (res : metadata) : metadata :=
  match req with
  | None => res
  | Some names =>
      {| md_controller := md_controller res;
         md_brokers := md_brokers res;
         md_topics := map (fun n => match find_metadata_topic (md_topics res) n with
                                    | Some t => t
                                    | None => unknown_topic n
                                    end) names |}
  end.

(* ------------------------------------------------------------------ *)
(* transport.go:306 connPoolState + connPool.conns; :503 update *)
Record pool := {
  ps_meta : option metadata;          (* state.metadata (normalised) *)
  ps_err : option N;                  (* state.err (an opaque token) *)
  ps_layout : cluster;                (* state.layout *)
  ps_conns : list (Z * broker);       (* p.conns: one connection group per broker id *)
  ps_ready : bool                     (* p.ready triggered *)
}.
Definition pool_init : pool :=
  {| ps_meta := None; ps_err := None; ps_layout := empty_cluster; ps_conns := []; ps_ready := false |}.

Definition update (p : pool) (m : option metadata) (err : option N) : pool :=
  let m' := option_map normalize m in
  let layout := match m' with Some x => make_layout x | None => empty_cluster end in
  match err with
  | Some e =>
      match ps_meta p with
      | Some _ => p                                   (* keep the previous view *)
      | None => {| ps_meta := ps_meta p; ps_err := Some e; ps_layout := ps_layout p;
                   ps_conns := ps_conns p; ps_ready := true |}
      end
  | None =>
      let old := c_brokers (ps_layout p) in
      let new := c_brokers layout in
      let changed := filter (fun kv => match mget Z.eqb old (fst kv) with
                                       | None => false
                                       | Some b1 => negb (broker_eqb b1 (snd kv))
                                       end) new in
      let added := filter (fun kv => negb (mhas Z.eqb old (fst kv))) new in
      let gone := filter (fun kv => negb (mhas Z.eqb new (fst kv))) old in
      let conns1 := fold_left (fun cs kv => mdel Z.eqb cs (fst kv)) (changed ++ gone) (ps_conns p) in
      let conns2 := fold_left (fun cs kv => mset Z.eqb cs (fst kv) (snd kv)) (added ++ changed) conns1 in
      {| ps_meta := m'; ps_err := None; ps_layout := layout; ps_conns := conns2; ps_ready := true |}
  end.

(* ------------------------------------------------------------------ *)
(* protocol/describegroups: Split makes one request per group ("they'll need to go to different
   coordinators"); a describe-groups message is a GroupMessage routed by Group() = r.Groups[0]
   (index panic on an empty list), whatever else it names *)
Definition K_DescribeGroups : Z := 15.
Definition split_describegroups (gs : list name) : list (list name) := map (fun g => [g]) gs.
Definition describegroups_request (part : list name) : option request_kind :=
  match part with
  | g :: _ => Some (RGroup K_DescribeGroups g)
  | [] => None
  end.

(* transport.go:339 roundTrip, as far as routing goes *)
Inductive rt_request :=
| QMetadata (names : option (list name)) (auto : bool)   (* *meta.Request *)
| QListOffsets (ts : tps)                                (* Splitter *)
| QListGroups                                            (* Splitter *)
| QDescribeGroups (gs : list name)                       (* Splitter and GroupMessage *)
| QOne (r : request_kind).                               (* everything else *)

Inductive rt_result :=
| RTBlocked                          (* <-p.ready not yet triggered *)
| RTCacheErr (e : N)                 (* state.err *)
| RTCache (m : metadata)             (* served from the cache *)
| RTSend (l : list send_result)      (* one entry per message put on the wire *)
| RTPanic.

Definition has_unknown (m : metadata) : bool := existsb (fun t => mt_err t =? 3) (md_topics m).

(* [fc] answers the find-coordinator exchanges of this round trip *)
Definition round_trip (p : pool) (q : rt_request) (fc : coord_fn) : rt_result :=
  if negb (ps_ready p) then RTBlocked else
  let c := ps_layout p in
  match q with
  | QMetadata names auto =>
      match ps_err p with
      | Some e => RTCacheErr e
      | None =>
          match ps_meta p with
          | None => RTPanic                      (* nil dereference in filterMetadataResponse *)
          | Some md =>
              let cached := filter_metadata names md in
              if auto && has_unknown cached
              then RTSend [send_request c (ps_conns p) (ROther K_Metadata) fc]
              else RTCache cached
          end
      end
  | QListOffsets ts =>
      RTSend (map (fun t => send_request c (ps_conns p) (RListOffsets t) fc) (split_listoffsets ts))
  | QListGroups =>
      RTSend (map (fun id => send_request c (ps_conns p) (RListGroups id) fc) (split_listgroups c))
  | QDescribeGroups gs =>
      RTSend (map (fun part => match describegroups_request part with
                               | Some r => send_request c (ps_conns p) r fc
                               | None => SendPanic
                               end) (split_describegroups gs))
  | QOne r => RTSend [send_request c (ps_conns p) r fc]
  end.

(* a successful create-topics round trip, and a forwarded auto-create metadata request,
   are followed by refreshMetadata (a wake-up of discover) *)
Definition forces_refresh (q : rt_request) (res : rt_result) : bool :=
  match q, res with
  | QOne (RController api), RTSend [Sent _] => api =? K_CreateTopics
  | QMetadata _ true, RTSend [Sent _] => true
  | _, _ => false
  end.

(* ---- the pool as a labelled transition system ---- *)
Inductive label :=
| LRefresh (m : option metadata) (err : option N)     (* discover finished one exchange: update *)
| LRequest (q : rt_request) (fc : coord_fn).  (* a round trip starts (grabState) *)

Definition pool_step (p : pool) (l : label) : pool * option rt_result :=
  match l with
  | LRefresh m e => (update p m e, None)
  | LRequest q fc => (p, Some (round_trip p q fc))
  end.

Fixpoint pool_run (p : pool) (ls : list label) {struct ls} : pool * list rt_result :=
  match ls with
  | [] => (p, [])
  | l :: ls' =>
      let '(p1, o) := pool_step p l in
      let '(p2, os) := pool_run p1 ls' in
      (p2, match o with Some r => r :: os | None => os end)
  end.

(* ---- discover (transport.go:589): the refresh loop with its failure branches ---- *)
(* error values the loop distinguishes (everything else is "some i/o error") *)
Definition E_canceled : N := 1.     (* context.Canceled: ctx.Err() once the pool is closed *)
Definition E_deadline : N := 2.     (* context.DeadlineExceeded: the per-request WithTimeout(ctx, metadataTTL) fired *)

Inductive refresh_result :=
| FAnswered (m : metadata)   (* res.await returned a *meta.Response, err == nil *)
| FFailed (e : N)            (* res.await returned err: an i/o error, E_deadline when the request was
                                not answered within metadataTTL, E_canceled when the pool was closed *)
| FNoConn (e : N).           (* grabClusterConn failed (dial / ApiVersions / SASL) *)

Inductive dphase :=
| DFetching (notify : bool)      (* metadata request in flight; [notify]: a refreshMetadata waits for it *)
| DWaiting                       (* in the select: timer (a random time below MetadataTTL), wake, done *)
| DStopped.                      (* the goroutine returned: no refresh ever again *)

Inductive dlabel :=
| DTimer                         (* <-timer.C *)
| DWake                          (* notify = <-wake   (refreshMetadata) *)
| DCancel                        (* the pool's context is cancelled (last unref) *)
| DExit                          (* <-done in the select *)
| DDone (r : refresh_result).    (* the exchange finished; update applied; notify triggered *)

Record dstate := {
  d_phase : dphase;
  d_pool : pool;
  d_ctx_err : option N           (* ctx.Err() of the pool's context: None until cancelled *)
}.
Definition discover_init : dstate :=
  {| d_phase := DFetching false; d_pool := pool_init; d_ctx_err := None |}.

(* errors.Is(err, target) with a possibly nil target *)
Definition err_is (err : N) (target : option N) : bool :=
  match target with Some t => N.eqb err t | None => false end.

Definition discover_step (s : dstate) (l : dlabel) : option dstate :=
  let goto ph p := Some {| d_phase := ph; d_pool := p; d_ctx_err := d_ctx_err s |} in
  match d_phase s, l with
  | DStopped, _ => None
  | _, DCancel => Some {| d_phase := d_phase s; d_pool := d_pool s; d_ctx_err := Some E_canceled |}
  | DWaiting, DTimer => goto (DFetching false) (d_pool s)
  | DWaiting, DWake => goto (DFetching true) (d_pool s)
  | DWaiting, DExit => match d_ctx_err s with Some _ => goto DStopped (d_pool s) | None => None end
  | DFetching _, DDone (FAnswered m) => goto DWaiting (update (d_pool s) (Some m) None)
  | DFetching _, DDone (FNoConn e) => goto DWaiting (update (d_pool s) None (Some e))
  | DFetching _, DDone (FFailed e) =>
      (* if err != nil && errors.Is(err, ctx.Err()) { return } *)
      if err_is e (d_ctx_err s) then goto DStopped (d_pool s)
      else goto DWaiting (update (d_pool s) None (Some e))
  | _, _ => None
  end.

Fixpoint discover_run (s : dstate) (ls : list dlabel) {struct ls} : option dstate :=
  match ls with
  | [] => Some s
  | l :: ls' => match discover_step s l with Some s' => discover_run s' ls' | None => None end
  end.

(* one turn of the loop: woken by the timer or by refreshMetadata, then the exchange ends with [r] *)
Definition refresh_turn (woken : bool) (r : refresh_result) : list dlabel :=
  [if woken then DWake else DTimer; DDone r].
Definition is_failure (r : refresh_result) : bool :=
  match r with FAnswered _ => false | _ => true end.

(* ------------------------------------------------------------------ *)
(* which routing interface the request type of each API key implements in /repo/protocol/*
   (BrokerMessage / GroupMessage / TransactionalMessage, tested in this order by sendRequest) *)
Inductive msg_class := CBroker | CGroup | CTxn | CPlain.
Definition broker_message_apis : list Z := [0; 1; 2; 16; 19; 20; 29; 30; 31; 32; 33; 37; 43; 44; 45; 46; 48; 49; 50; 51].
Definition group_message_apis : list Z := [8; 9; 11; 12; 13; 14; 15; 28; 42; 47].
Definition txn_message_apis : list Z := [22; 24; 25; 26].
Definition splitter_apis : list Z := [2; 15; 16; 32].
Definition message_class (api : Z) : msg_class :=
  if existsb (Z.eqb api) broker_message_apis then CBroker
  else if existsb (Z.eqb api) group_message_apis then CGroup
  else if existsb (Z.eqb api) txn_message_apis then CTxn
  else CPlain.
Definition is_splitter (api : Z) : bool := existsb (Z.eqb api) splitter_apis.

(* the request kind under which a message of API key [api] about coordinator key [key] is sent *)
Definition keyed_request (api : Z) (key : name) : request_kind :=
  match message_class api with
  | CGroup => RGroup api key
  | CTxn => RTxn api key
  | _ => ROther api
  end.

(* ------------------------------------------------------------------ *)
(* protocol/produce/produce.go Prepare(apiVersion), called by protocol.Conn.RoundTrip with the
   version negotiated for the connection: the record format the request is encoded with when
   the program left RecordSet.Version to the library (message sets, magic 1, before Produce v3;
   record batches, magic 2, from v3 on) *)
Definition produce_record_version (api_version : Z) : Z := if api_version <? 3 then 1 else 2.

(* ------------------------------------------------------------------ *)
(* the reference count of a pool (transport.go: Transport.grabPool, connPool.ref / unref,
   Transport.RoundTrip's `defer p.unref()`, CloseIdleConnections).  One pool's life:
   grabPool returns it on three paths -- found under the read lock (ref), found by the re-check
   under the write lock (ref), created (refc: 2 = one for the registry t.pools, one for the
   caller; discover is started); every RoundTrip ends with unref; CloseIdleConnections unrefs
   every registered pool and unregisters it.  The unref that reaches 0 cancels the pool's
   context, which is what stops discover (DCancel / DExit above). *)
Inductive grab_path := GFast | GRecheck | GCreate.
Inductive rlabel :=
| RGrab (path : grab_path)     (* a RoundTrip obtains the pool *)
| RDone                        (* a RoundTrip returns: p.unref() *)
| RCloseIdle.                  (* CloseIdleConnections *)
Record rpool := {
  rp_created : bool;
  rp_registered : bool;        (* t.pools[k] == this pool *)
  rp_refs : Z;                 (* p.refc *)
  rp_users : Z;                (* RoundTrips in progress on this pool *)
  rp_cancelled : bool          (* p.cancel() was called: discover ends *)
}.
Definition rpool_init : rpool :=
  {| rp_created := false; rp_registered := false; rp_refs := 0; rp_users := 0; rp_cancelled := false |}.

Definition rp_unref (s : rpool) : rpool :=
  {| rp_created := rp_created s; rp_registered := rp_registered s; rp_refs := rp_refs s - 1;
     rp_users := rp_users s; rp_cancelled := rp_cancelled s || (rp_refs s - 1 =? 0) |}.

Definition rp_step (s : rpool) (l : rlabel) : option rpool :=
  match l with
  | RGrab GCreate =>
      if rp_created s then None
      else Some {| rp_created := true; rp_registered := true; rp_refs := 2; rp_users := 1; rp_cancelled := false |}
  | RGrab _ =>      (* GFast, GRecheck: p.ref() *)
      if rp_registered s
      then Some {| rp_created := rp_created s; rp_registered := true; rp_refs := rp_refs s + 1;
                   rp_users := rp_users s + 1; rp_cancelled := rp_cancelled s |}
      else None
  | RDone =>
      if rp_users s >? 0
      then Some (rp_unref {| rp_created := rp_created s; rp_registered := rp_registered s; rp_refs := rp_refs s;
                             rp_users := rp_users s - 1; rp_cancelled := rp_cancelled s |})
      else None
  | RCloseIdle =>
      if rp_registered s
      then Some (rp_unref {| rp_created := rp_created s; rp_registered := false; rp_refs := rp_refs s;
                             rp_users := rp_users s; rp_cancelled := rp_cancelled s |})
      else None
  end.

Fixpoint rp_run (s : rpool) (ls : list rlabel) {struct ls} : option rpool :=
  match ls with
  | [] => Some s
  | l :: ls' => match rp_step s l with Some s' => rp_run s' ls' | None => None end
  end.

(* ------------------------------------------------------------------ *)
(* metadata.go Client.Metadata: the cached (filtered) response turned into the public view.
   brokers[id] is a Go map filled in list order (last entry of an id wins); a missing id gives
   the zero Broker. *)
Definition zero_md_broker : md_broker := {| mb_id := 0; mb_addr := 0 |}.
Definition cm_lookup (bs : list md_broker) (id : Z) : md_broker :=
  fold_left (fun acc b => if mb_id b =? id then b else acc) bs zero_md_broker.
Record cm_partition := {
  cp_id : Z; cp_err : Z; cp_leader : md_broker; cp_replicas : list md_broker; cp_isr : list md_broker }.
Record cm_topic := { ct_name : name; ct_internal : bool; ct_err : Z; ct_parts : list cm_partition }.
Record cm_response := { cm_controller : md_broker; cm_brokers : list md_broker; cm_topics : list cm_topic }.

Definition client_partition (bs : list md_broker) (p : md_part) : cm_partition :=
  {| cp_id := mp_idx p; cp_err := mp_err p; cp_leader := cm_lookup bs (mp_leader p);
     cp_replicas := map (cm_lookup bs) (mp_replicas p); cp_isr := map (cm_lookup bs) (mp_isr p) |}.
Definition client_topic (bs : list md_broker) (t : md_topic) : cm_topic :=
  {| ct_name := mt_name t; ct_internal := mt_internal t; ct_err := mt_err t;
     ct_parts := map (client_partition bs) (mt_parts t) |}.
(* ret.Controller is assigned inside the broker loop: the last broker whose id is the controller's *)
Definition client_metadata (m : metadata) : cm_response :=
  {| cm_controller := fold_left (fun acc b => if mb_id b =? md_controller m then b else acc) (md_brokers m) zero_md_broker;
     cm_brokers := md_brokers m;
     cm_topics := map (client_topic (md_brokers m)) (md_topics m) |}.

(* ------------------------------------------------------------------ *)
(* transport.go connGroup.connect: the requests that set a connection up.  ApiVersions goes first
   (version 0: nothing is negotiated yet), SetVersions installs the negotiated table, and only then
   the SASL exchange runs through pc.RoundTrip: SaslHandshake at the negotiated version of key 17;
   saslauthenticate.Request.Required selects the legacy raw token exchange (no request header)
   exactly when that version is 0, else SaslAuthenticate requests at the negotiated version of 36. *)
Definition K_ApiVersions : Z := 18.
Definition K_SaslHandshake : Z := 17.
Definition K_SaslAuthenticate : Z := 36.
Inductive setup_msg :=
| SReq (api ver : Z)     (* a framed request of that API key at that version *)
| SRawToken.             (* the bare length-prefixed SASL token of the v0 handshake *)
Definition connection_setup (sasl : bool) (neg : list (Z * Z)) : list setup_msg :=
  SReq K_ApiVersions 0 ::
  (if sasl
   then [SReq K_SaslHandshake (conn_version neg K_SaslHandshake);
         if conn_version neg K_SaslHandshake =? 0 then SRawToken
         else SReq K_SaslAuthenticate (conn_version neg K_SaslAuthenticate)]
   else []).
