(* Model/GroupBalancers.v — executable model of /repo/groupbalancer.go (definitions only).
   Strings (member ids, topics, racks) are byte lists [list N]; Go's string [<] is the
   bytewise lexicographic order.  Partition ids are Z (Go int).  Counts and indices are
   nat (Go int, no overflow: counts < 2^31).  Go maps are association lists whose
   iteration order is never used except where it is an explicit parameter.
   Slice-bound violations ([s[:k]] with k > len(s): a panic beyond cap, a read of stale
   elements otherwise) and index panics are the explicit outcome [None]. *)
From Coq Require Import List NArith ZArith Bool Arith.
Import ListNotations.

Definition bytes := list N.

Fixpoint bytes_eqb (a b : bytes) {struct a} : bool :=
  match a, b with
  | [], [] => true
  | x :: a', y :: b' => N.eqb x y && bytes_eqb a' b'
  | _, _ => false
  end.

(* Go: a < b on strings *)
Fixpoint bytes_ltb (a b : bytes) {struct a} : bool :=
  match a, b with
  | [], [] => false
  | [], _ :: _ => true
  | _ :: _, [] => false
  | x :: a', y :: b' =>
      if N.ltb x y then true else if N.eqb x y then bytes_ltb a' b' else false
  end.

Record member := mkMember { m_id : bytes; m_topics : list bytes; m_userdata : bytes }.
Record partition := mkPartition { p_topic : bytes; p_id : Z; p_rack : bytes }.

(* ---- Go map[string][]V as an association list (keys in insertion order) ---- *)
Definition amap (V : Type) := list (bytes * list V).

(* m[k] = append(m[k], vs...)  (creates the key, even for empty vs) *)
Fixpoint aappend {V} (k : bytes) (vs : list V) (m : amap V) {struct m} : amap V :=
  match m with
  | [] => [(k, vs)]
  | (k', l) :: r => if bytes_eqb k k' then (k', l ++ vs) :: r else (k', l) :: aappend k vs r
  end.

(* m[k]  (nil when absent) *)
Fixpoint aget {V} (k : bytes) (m : amap V) {struct m} : list V :=
  match m with
  | [] => []
  | (k', l) :: r => if bytes_eqb k k' then l else aget k r
  end.

Fixpoint amem {V} (k : bytes) (m : amap V) {struct m} : bool :=
  match m with
  | [] => false
  | (k', _) :: r => if bytes_eqb k k' then true else amem k r
  end.

(* delete(m, k) *)
Fixpoint aremove {V} (k : bytes) (m : amap V) {struct m} : amap V :=
  match m with
  | [] => []
  | (k', l) :: r => if bytes_eqb k k' then r else (k', l) :: aremove k r
  end.

(* m[k] = vs for an existing key *)
Fixpoint aset {V} (k : bytes) (vs : list V) (m : amap V) {struct m} : amap V :=
  match m with
  | [] => [(k, vs)]
  | (k', l) :: r => if bytes_eqb k k' then (k', vs) :: r else (k', l) :: aset k vs r
  end.

(* ---- findMembersByTopic ---- *)
(* for _, member := range members { for _, topic := range member.Topics {
     membersByTopic[topic] = append(membersByTopic[topic], member) } } *)
Definition group_by_topic (ms : list member) : amap member :=
  fold_left (fun acc m => fold_left (fun acc t => aappend t [m] acc) (m_topics m) acc) ms [].

(* sort.Slice(members, func(i, j) { return members[i].ID < members[j].ID }): modelled as a
   (stable) insertion sort; sort.Slice is not stable, the two agree on distinct ids *)
Fixpoint insert_member (m : member) (l : list member) {struct l} : list member :=
  match l with
  | [] => [m]
  | x :: t => if bytes_ltb (m_id x) (m_id m) then x :: insert_member m t else m :: l
  end.
Definition sort_members (l : list member) : list member := fold_right insert_member [] l.

Definition find_members_by_topic (ms : list member) : amap member :=
  map (fun e => (fst e, sort_members (snd e))) (group_by_topic ms).

(* findPartitions *)
Definition find_partitions (topic : bytes) (ps : list partition) : list Z :=
  map p_id (filter (fun p => bytes_eqb (p_topic p) topic) ps).

(* ---- output: (member id, topic, partitions); the Go result is
        groupAssignments[id][topic] = partitions ---- *)
Definition triple := (bytes * bytes * list Z)%type.

(* for partitionIndex, partition := range partitions { if keep(partitionIndex) { append } } *)
Fixpoint select_from (keep : nat -> bool) (j : nat) (l : list Z) {struct l} : list Z :=
  match l with
  | [] => []
  | p :: t => if keep j then p :: select_from keep (S j) t else select_from keep (S j) t
  end.

(* for memberIndex, member := range members *)
Fixpoint mapi_from {A B} (f : nat -> A -> B) (i : nat) (l : list A) {struct l} : list B :=
  match l with
  | [] => []
  | a :: t => f i a :: mapi_from f (S i) t
  end.

(* ---- RangeGroupBalancer.AssignGroups ---- *)
Definition range_topic (topic : bytes) (mems : list member) (parts : list Z) : list triple :=
  let pc := length parts in
  let mc := length mems in
  mapi_from (fun i m =>
    let lo := i * pc / mc in
    let hi := S i * pc / mc in
    (m_id m, topic, select_from (fun j => (lo <=? j) && (j <? hi)) 0 parts)) 0 mems.

Definition range_assign (ms : list member) (ps : list partition) : list triple :=
  flat_map (fun e => range_topic (fst e) (snd e) (find_partitions (fst e) ps))
           (find_members_by_topic ms).

(* ---- RoundRobinGroupBalancer.AssignGroups ---- *)
Definition rr_topic (topic : bytes) (mems : list member) (parts : list Z) : list triple :=
  let mc := length mems in
  mapi_from (fun i m =>
    (m_id m, topic, select_from (fun j => j mod mc =? i) 0 parts)) 0 mems.

Definition rr_assign (ms : list member) (ps : list partition) : list triple :=
  flat_map (fun e => rr_topic (fst e) (snd e) (find_partitions (fst e) ps))
           (find_members_by_topic ms).

(* the observable: groupAssignments[id][topic] *)
Definition assigned (a : list triple) (id topic : bytes) : list Z :=
  flat_map (fun tr => if bytes_eqb (fst (fst tr)) id && bytes_eqb (snd (fst tr)) topic
                      then snd tr else []) a.

(* ---- RackAffinityGroupBalancer ---- *)
Definition partitions_by_topic (ps : list partition) : amap partition :=
  fold_left (fun acc p => aappend (p_topic p) [p] acc) ps [].

Definition zoned_partitions (parts : list partition) : amap Z :=
  fold_left (fun acc p => aappend (p_rack p) [p_id p] acc) parts [].
Definition zoned_consumers (mems : list member) : amap bytes :=
  fold_left (fun acc m => aappend (m_userdata m) [m_id m] acc) mems [].
Definition zones_of (parts : list partition) : list bytes := map fst (zoned_partitions parts).

(* s[:k], s[k:] *)
Definition take_opt {A} (k : nat) (l : list A) : option (list A * list A) :=
  if k <=? length l then Some (firstn k l, skipn k l) else None.

(* for _, consumer := range consumers {
     assignments[consumer] = append(assignments[consumer], parts[:partsPerMember]...)
     parts = parts[partsPerMember:] } *)
Fixpoint deal (cs : list bytes) (ppm : nat) (parts : list Z) (asg : amap Z) {struct cs}
  : option (amap Z * list Z) :=
  match cs with
  | [] => Some (asg, parts)
  | c :: cs' =>
      match take_opt ppm parts with
      | None => None
      | Some (hd, tl) => deal cs' ppm tl (aappend c hd asg)
      end
  end.

(* for i := 0; i < leftover; i++ {
     assignments[consumers[i]] = append(assignments[consumers[i]], parts[i]) } *)
Fixpoint deal_extra (n : nat) (cs : list bytes) (parts : list Z) (asg : amap Z) {struct n}
  : option (amap Z) :=
  match n with
  | O => Some asg
  | S n' =>
      match cs, parts with
      | c :: cs', p :: ps' => deal_extra n' cs' ps' (aappend c [p] asg)
      | _, _ => None
      end
  end.

Record rstate := mkRstate { r_zp : amap Z; r_asg : amap Z; r_rem : nat }.

(* one iteration of "for zone, parts := range zonedPartitions" *)
Definition zone_step (zc : amap bytes) (target : nat) (st : rstate) (zone : bytes)
  : option rstate :=
  if negb (amem zone (r_zp st)) then Some st else
  let parts := aget zone (r_zp st) in
  let consumers := aget zone zc in
  match consumers with
  | [] => Some st
  | _ :: _ =>
    let ppm := Nat.min (length parts / length consumers) target in
    match deal consumers ppm parts (r_asg st) with
    | None => None
    | Some (asg1, parts1) =>
      let leftover0 := length parts1 in
      let leftover := if ppm =? target
                      then Nat.min (Nat.min leftover0 (r_rem st)) (length consumers)
                      else leftover0 in
      let rem' := if ppm =? target then r_rem st - leftover else r_rem st in
      match deal_extra leftover consumers parts1 asg1 with
      | None => None
      | Some asg2 =>
        match take_opt leftover parts1 with
        | None => None
        | Some (_, parts2) =>
          Some {| r_zp := match parts2 with
                          | [] => aremove zone (r_zp st)
                          | _ :: _ => aset zone parts2 (r_zp st)
                          end;
                  r_asg := asg2; r_rem := rem' |}
        end
      end
    end
  end.

Fixpoint zone_loop (zc : amap bytes) (target : nat) (st : rstate) (order : list bytes)
  {struct order} : option rstate :=
  match order with
  | [] => Some st
  | z :: rest => match zone_step zc target st z with
                 | None => None
                 | Some st' => zone_loop zc target st' rest
                 end
  end.

(* for _, member := range members { ... remaining[:delta] ... } ; delta is a Go int
   that may be negative (then nothing happens) *)
Fixpoint hand_out (mems : list member) (target : nat) (asg : amap Z) (remaining : list Z)
  (rem : nat) {struct mems} : option (amap Z) :=
  match mems with
  | [] => Some asg
  | m :: mems' =>
      let n := length (aget (m_id m) asg) in
      let bump := (n <=? target) && (0 <? rem) in
      let rem' := if bump then rem - 1 else rem in
      let delta := if n <=? target then (target - n) + (if bump then 1 else 0) else 0 in
      if 0 <? delta then
        match take_opt delta remaining with
        | None => None
        | Some (hd, tl) => hand_out mems' target (aappend (m_id m) hd asg) tl rem'
        end
      else hand_out mems' target asg remaining rem'
  end.

(* assignTopic; [zone_order] is the order in which the first "range zonedPartitions"
   visits the zones, [rest_order] the order of the second one (zones deleted in the
   first loop contribute nothing) *)
Definition rack_assign_topic (zone_order rest_order : list bytes)
  (mems : list member) (parts : list partition) : option (amap Z) :=
  match mems with
  | [] => None  (* integer divide by zero *)
  | _ :: _ =>
    let zp0 := zoned_partitions parts in
    let zc := zoned_consumers mems in
    let target := length parts / length mems in
    let rem0 := length parts mod length mems in
    match zone_loop zc target {| r_zp := zp0; r_asg := []; r_rem := rem0 |} zone_order with
    | None => None
    | Some st =>
      let remaining := flat_map (fun z => aget z (r_zp st)) rest_order in
      hand_out mems target (r_asg st) remaining (r_rem st)
    end
  end.

Fixpoint rack_topics (zo ro : bytes -> list bytes) (pbt : amap partition)
  (mbt : amap member) {struct mbt} : option (list triple) :=
  match mbt with
  | [] => Some []
  | (t, mems) :: rest =>
      match rack_assign_topic (zo t) (ro t) mems (aget t pbt) with
      | None => None
      | Some r =>
        match rack_topics zo ro pbt rest with
        | None => None
        | Some a => Some (map (fun e => (fst e, t, snd e)) r ++ a)
        end
      end
  end.

Definition rack_assign (zo ro : bytes -> list bytes) (ms : list member) (ps : list partition)
  : option (list triple) :=
  rack_topics zo ro (partitions_by_topic ps) (group_by_topic ms).

(* the canonical iteration order (insertion order), used by the driver as one witness *)
Definition rack_assign_canonical (ms : list member) (ps : list partition) : option (list triple) :=
  let pbt := partitions_by_topic ps in
  rack_assign (fun t => zones_of (aget t pbt)) (fun t => zones_of (aget t pbt)) ms ps.

(* ---- the group leader's glue: extractTopics (reader.go) and
        ConsumerGroup.assignTopicPartitions (consumergroup.go) ---- *)
(* for _, member := range members { for _, topic := range member.Topics {
     if seen { continue }; topics = append(topics, topic); visited[topic] = {} } } *)
Definition add_topics (acc : list bytes) (l : list bytes) : list bytes :=
  fold_left (fun acc t => if existsb (bytes_eqb t) acc then acc else acc ++ [t]) l acc.
Definition extract_topics_raw (ms : list member) : list bytes :=
  fold_left (fun acc m => add_topics acc (m_topics m)) ms [].

(* sort.Strings on distinct strings *)
Fixpoint insert_bytes (x : bytes) (l : list bytes) {struct l} : list bytes :=
  match l with
  | [] => [x]
  | y :: t => if bytes_ltb y x then y :: insert_bytes x t else x :: l
  end.
Definition sort_bytes (l : list bytes) : list bytes := fold_right insert_bytes [] l.

Definition extract_topics (ms : list member) : list bytes := sort_bytes (extract_topics_raw ms).

(* the broker's answer to a metadata request: the partitions of exactly the requested
   topics (in the cluster's order); what conn.readPartitions(topics...) returns *)
Definition read_partitions (cluster : list partition) (topics : list bytes) : list partition :=
  filter (fun p => existsb (bytes_eqb (p_topic p)) topics) cluster.

(* the broker: a metadata request naming a topic it does not have fails as a whole with
   UnknownTopicOrPartition ([None]); a topic exists iff the cluster lists a partition of it *)
Definition topic_exists (cluster : list partition) (t : bytes) : bool :=
  existsb (fun p => bytes_eqb (p_topic p) t) cluster.
Definition broker_read (cluster : list partition) (topics : list bytes) : option (list partition) :=
  if forallb (topic_exists cluster) topics then Some (read_partitions cluster topics) else None.

(* the fallback loop of assignTopicPartitions: one request per topic, unknown ones skipped *)
Definition read_each (cluster : list partition) (topics : list bytes) : list partition :=
  flat_map (fun t => match broker_read cluster [t] with Some ps => ps | None => [] end) topics.

(* assignTopicPartitions: partitions, err := conn.readPartitions(extractTopics(members)...);
   on UnknownTopicOrPartition with more than one topic, ask for each topic on its own;
   with one topic the (nil) result of the failed read is kept *)
Definition leader_partitions (ms : list member) (cluster : list partition) : list partition :=
  let topics := extract_topics ms in
  match broker_read cluster topics with
  | Some ps => ps
  | None => if 1 <? length topics then read_each cluster topics else []
  end.
(* the metadata requests the leader sends, in order *)
Definition leader_requests (ms : list member) (cluster : list partition) : list (list bytes) :=
  let topics := extract_topics ms in
  match broker_read cluster topics with
  | Some _ => [topics]
  | None => topics :: (if 1 <? length topics then map (fun t => [t]) topics else [])
  end.
Definition leader_range (ms : list member) (cluster : list partition) : list triple :=
  range_assign ms (leader_partitions ms cluster).
Definition leader_rr (ms : list member) (cluster : list partition) : list triple :=
  rr_assign ms (leader_partitions ms cluster).
Definition leader_rack (zo ro : bytes -> list bytes) (ms : list member) (cluster : list partition)
  : option (list triple) :=
  rack_assign zo ro ms (leader_partitions ms cluster).

(* ---- the leader's SyncGroup request: makeSyncGroupRequestV0 (consumergroup.go) ----
   for memberID, topics := range memberAssignments {
     topics32 := make(map[string][]int32)
     for topic, partitions := range topics { topics32[topic] = int32(partitions[i])... }
     GroupAssignments = append(..., {memberID, groupAssignment{Topics: topics32}.bytes()}) }
   The decoded request: one entry per key of the outer map, holding that member's
   (topic, int32 partitions) entries.  (Map iteration orders are not observable after
   sorting; an empty partition list and an absent topic key are identified.) *)
Definition int32_of (z : Z) : Z := ((z + 2147483648) mod 4294967296 - 2147483648)%Z.

Fixpoint dedup_bytes (l : list bytes) {struct l} : list bytes :=
  match l with
  | [] => []
  | x :: t => if existsb (bytes_eqb x) t then dedup_bytes t else x :: dedup_bytes t
  end.

Definition sync_member_ids (a : list triple) : list bytes :=
  dedup_bytes (map (fun tr => fst (fst tr)) a).
Definition sync_entry (a : list triple) (id : bytes) : list (bytes * list Z) :=
  map (fun tr => (snd (fst tr), map int32_of (snd tr)))
      (filter (fun tr => bytes_eqb (fst (fst tr)) id) a).
Definition sync_request (a : list triple) : list (bytes * list (bytes * list Z)) :=
  map (fun id => (id, sync_entry a id)) (sync_member_ids a).

(* the request read back as (member, topic, partitions) *)
Definition wire_triples (w : list (bytes * list (bytes * list Z))) : list triple :=
  flat_map (fun e => map (fun tp => (fst e, fst tp, snd tp)) (snd e)) w.
