(* Model/MsgSetReader.v — L1 (bytes) of C02: the messageSetReader of /repo/message_reader.go
   with the size-accounted primitive readers of /repo/read.go and /repo/discard.go, and the
   Batch of /repo/batch.go on top of it.  Definitions only.

   A stream is (available bytes, remain): [remain] is the number of bytes the response
   header promised (Go's `sz`/`r.remain`), the byte list is what the connection actually
   delivers before it fails (shorter than remain = the connection was cut).
   Go errors are the enum [err]; Go panics are the explicit outcome [MPanic].
   Decompression is the Section variable [decomp] (code 1..4 -> bytes -> option bytes). *)
From Coq Require Import List NArith ZArith Bool.
From KV Require Import Lib.Bits Lib.Bytes Lib.Varint.
Import ListNotations.
Open Scope Z_scope.

Inductive err :=
| EShort      (* errShortRead *)
| EIO         (* a transport error other than a bare io.EOF: io.ErrUnexpectedEOF, closed pipe, time-out *)
| ERawEOF     (* a bare io.EOF from the transport (Peek/Discard at the end of the stream): Batch.readMessage
                 hands it to the caller as it is while Batch.err becomes io.ErrUnexpectedEOF *)
| EBadMagic   (* "unsupported magic byte" *)
| ECodec      (* errUnknownCodec (a decompression failure is an EIO) *)
| ENegBatch   (* "batch remain < 0" *)
| ETimedOut   (* kafka.RequestTimedOut *)
| EEOF        (* io.EOF as the end-of-batch marker *)
| EKafka (code : Z)  (* any other kafka.Error carried by the fetch response *)
| EFuel.      (* model artefact: recursion fuel exhausted (never in a proved run) *)

Definition len (l : list N) : Z := Z.of_nat (length l).
Definition ztake (n : Z) (l : list N) : list N := firstn (Z.to_nat n) l.
Definition zdrop (n : Z) (l : list N) : list N := skipn (Z.to_nat n) l.

(* ------------------------------------------------------------------ primitive readers *)
Definition rd : Type := (list N * Z)%type.
Inductive pres (A : Type) : Type :=
| POk (a : A) (s : rd)
| PErr (e : err) (s : rd).
Arguments POk {A}. Arguments PErr {A}.

(* read.go peekRead: n > sz -> errShortRead; Peek(n) fails when the connection ends *)
Definition p_fixed (w : nat) (s : rd) : pres (list N) :=
  let '(i, sz) := s in
  if sz <? Z.of_nat w then PErr EShort s
  else if len i <? Z.of_nat w then PErr ERawEOF s
  else POk (firstn w i) (skipn w i, sz - Z.of_nat w).

Definition p_int (w : nat) (s : rd) : pres Z :=
  match p_fixed w s with
  | POk bs s' => POk (get_bes w bs) s'
  | PErr e s' => PErr e s'
  end.

(* discard.go discardN *)
Definition p_discard (n : Z) (s : rd) : pres unit :=
  let '(i, sz) := s in
  if n <=? sz then
    if n <? 0 then PErr EIO s                                  (* bufio.ErrNegativeCount *)
    else if len i <? n then PErr ERawEOF ([], sz - len i)
    else POk tt (zdrop n i, sz - n)
  else
    if sz <? 0 then PErr EIO s
    else if len i <? sz then PErr ERawEOF ([], sz - len i)
    else PErr EShort (zdrop sz i, 0).

(* read.go readVarInt: scans at most sz bytes for one < 0x80; x |= (b&0x7f) << s with Go's
   shift semantics (a shift of 64 or more gives 0), no bound on the number of bytes. *)
Fixpoint varint_scan (i : list N) (lim : nat) (shift : N) (acc : N) {struct i}
  : option (N * list N * nat) :=
  match lim with
  | O => None
  | S lim' =>
    match i with
    | [] => None
    | b :: t =>
      if (b <? 128)%N then Some (((acc + b * 2 ^ shift) mod M64)%N, t, lim')
      else varint_scan t lim' (shift + 7)%N ((acc + (b mod 128) * 2 ^ shift) mod M64)%N
    end
  end.

Definition s64_of_u (x : N) : Z := unzigzag x.

Definition p_varint (s : rd) : pres Z :=
  let '(i, sz) := s in
  let lim := Z.to_nat sz in
  match varint_scan i lim 0%N 0%N with
  | Some (x, t, lim') => POk (s64_of_u x) (t, Z.of_nat lim')
  | None =>
    if len i <? sz then PErr EShort ([], sz - len i)   (* Peek(1) -> io.EOF -> errShortRead *)
    else PErr EShort (zdrop sz i, 0)
  end.

(* read.go readNewBytes *)
Definition p_newbytes (n : Z) (s : rd) : pres (list N) :=
  let '(i, sz) := s in
  if n <=? 0 then POk [] s
  else
    let n' := if sz <? n then sz else n in
    if len i <? n' then PErr (if len i =? 0 then ERawEOF else EIO) ([], sz - len i)
    else if sz <? n then PErr EShort (zdrop n' i, sz - n')
    else POk (ztake n i) (zdrop n i, sz - n).

(* read.go readBytesWith + readNewBytes (the key / value callbacks of Batch.ReadMessage) *)
Definition p_bytes32 (s : rd) : pres (list N) :=
  match p_int 4 s with
  | PErr e s' => PErr e s'
  | POk n s' => if snd s' <? n then PErr EShort s' else p_newbytes n s'
  end.

(* discard.go discardBytes *)
Definition p_discard_bytes32 (s : rd) : pres unit :=
  match p_int 4 s with
  | PErr e s' => PErr e s'
  | POk n s' =>
    if snd s' <? n then PErr EShort s'
    else if n <? 0 then POk tt s' else p_discard n s'
  end.

(* ------------------------------------------------------------------ the reader stack *)
Record hdr := mkHdr {
  h_first : Z; h_length : Z; h_magic : Z;
  h_attr : Z;      (* v1.attributes for magic 0/1, v2.attributes for magic 2 *)
  h_ts : Z;        (* v1.timestamp (0 for magic 0) / v2.firstTimestamp *)
  h_lod : Z;       (* v2.lastOffsetDelta *)
  h_count : Z      (* v2.count *)
}.
Definition hdr0 : hdr := mkHdr 0 0 0 0 0 0 0.

Record frame := mkFrame {
  f_in : list N; f_remain : Z; f_base : Z; f_count : Z; f_hdr : hdr
}.

(* head = r.readerStack, tail = the parent chain; [] = a nil readerStack *)
(* m_elast: emptyLastOffset, the last offset of the latest record-less v2 batch (-1 = none) *)
Record msr := mkMsr { m_stack : list frame; m_empty : bool; m_lrem : Z; m_elast : Z }.

Inductive mres (A : Type) : Type :=
| MOk (a : A) (m : msr)
| MErr (e : err) (m : msr)
| MPanic.
Arguments MOk {A}. Arguments MErr {A}. Arguments MPanic {A}.

Definition M (A : Type) : Type := msr -> mres A.
Definition ret {A} (a : A) : M A := fun m => MOk a m.
Definition fail {A} (e : err) : M A := fun m => MErr e m.
Definition bind {A B} (a : M A) (f : A -> M B) : M B :=
  fun m => match a m with
           | MOk x m' => f x m'
           | MErr e m' => MErr e m'
           | MPanic => MPanic
           end.
Notation "x <- a ;; b" := (bind a (fun x => b)) (at level 61, a at next level, right associativity).
Notation "a ;;; b" := (bind a (fun _ => b)) (at level 61, right associativity).

Definition set_stack (m : msr) (st : list frame) : msr := mkMsr st (m_empty m) (m_lrem m) (m_elast m).
Definition set_rd (f : frame) (s : rd) : frame :=
  mkFrame (fst s) (snd s) (f_base f) (f_count f) (f_hdr f).

(* run a primitive reader on the top frame; a nil readerStack is a nil dereference *)
Definition lift {A} (p : rd -> pres A) : M A :=
  fun m => match m_stack m with
           | [] => MPanic
           | f :: ps =>
             match p (f_in f, f_remain f) with
             | POk a s => MOk a (set_stack m (set_rd f s :: ps))
             | PErr e s => MErr e (set_stack m (set_rd f s :: ps))
             end
           end.

Definition top : M frame :=
  fun m => match m_stack m with [] => MPanic | f :: _ => MOk f m end.
Definition upd_top (g : frame -> frame) : M unit :=
  fun m => match m_stack m with [] => MPanic | f :: ps => MOk tt (set_stack m (g f :: ps)) end.
Definition set_lrem (v : Z) : M unit := fun m => MOk tt (mkMsr (m_stack m) (m_empty m) v (m_elast m)).
Definition set_elast (v : Z) : M unit := fun m => MOk tt (mkMsr (m_stack m) (m_empty m) (m_lrem m) v).
Definition get_lrem : M Z := fun m => MOk (m_lrem m) m.

(* readNextHeader; the header and count fields are written only when the whole header was
   read (after a failure nothing reads them again: Batch.err is set) *)
Definition read_next_header : M unit :=
  first <- lift (p_int 8) ;;
  length <- lift (p_int 4) ;;
  crc_or_epoch <- lift (p_int 4) ;;
  magic <- lift (p_int 1) ;;
  if magic =? 0 then
    attr <- lift (p_int 1) ;;
    upd_top (fun f => mkFrame (f_in f) (f_remain f) (f_base f) 1 (mkHdr first length 0 attr 0 0 0)) ;;;
    set_lrem 1
  else if magic =? 1 then
    attr <- lift (p_int 1) ;;
    ts <- lift (p_int 8) ;;
    upd_top (fun f => mkFrame (f_in f) (f_remain f) (f_base f) 1 (mkHdr first length 1 attr ts 0 0)) ;;;
    set_lrem 1
  else if magic =? 2 then
    crc <- lift (p_int 4) ;;
    attr <- lift (p_int 2) ;;
    lod <- lift (p_int 4) ;;
    ts <- lift (p_int 8) ;;
    maxts <- lift (p_int 8) ;;
    pid <- lift (p_int 8) ;;
    pepoch <- lift (p_int 2) ;;
    bseq <- lift (p_int 4) ;;
    count <- lift (p_int 4) ;;
    upd_top (fun f => mkFrame (f_in f) (f_remain f) (f_base f) count (mkHdr first length 2 attr ts lod count)) ;;;
    set_lrem (length - 49) ;;;   (* int(r.header.length) - 49, computed in int *)
    (if count =? 0 then set_elast (wrap64 (first + lod)) else ret tt)
  else fail EBadMagic.

(* readHeader: nothing while messages of the current set remain; otherwise read headers until
   one is not a record-less v2 batch *)
Fixpoint read_header_loop (fuel : nat) {struct fuel} : M unit :=
  match fuel with
  | O => fail EFuel
  | S fuel' =>
    read_next_header ;;;
    f <- top ;;
    if negb (h_magic (f_hdr f) =? 2) || negb (f_count f =? 0) then ret tt
    else read_header_loop fuel'
  end.

Definition read_header (fuel : nat) : M unit :=
  f <- top ;;
  if 0 <? f_count f then ret tt else read_header_loop fuel.

(* messagesHeader.compression: None = no codec *)
Definition codec_of (h : hdr) : M (option Z) :=
  if (h_magic h =? 0) || (h_magic h =? 1) || (h_magic h =? 2) then
    let code := Z.land (h_attr h) 7 in
    if code =? 0 then ret None
    else if (1 <=? code) && (code <=? 4) then ret (Some code)
    else fail ECodec
  else fail EBadMagic.

(* unwindStack *)
Fixpoint unwind (st : list frame) {struct st} : list frame :=
  match st with
  | f :: ((_ :: _) as ps) =>
    if (f_count f =? 0) && (f_remain f =? 0) then unwind ps else st
  | _ => st
  end.

Definition mark_read : M unit :=
  fun m => match m_stack m with
           | [] => MPanic
           | f :: ps =>
             if f_count f =? 0 then MPanic      (* panic("markRead: negative count") *)
             else MOk tt (set_stack m (unwind (mkFrame (f_in f) (f_remain f) (f_base f) (f_count f - 1) (f_hdr f) :: ps)))
           end.

Section Decomp.
Variable decomp : Z -> list N -> option (list N).

(* the codec reader over an io.LimitedReader of n bytes, fully read *)
Definition p_decompress (code : Z) (n : Z) (s : rd) : pres (list N) :=
  let '(i, sz) := s in
  if n <? 0 then PErr EIO s
  else if len i <? n then PErr EIO ([], sz - len i)
  else match decomp code (ztake n i) with
       | Some d => POk d (zdrop n i, sz - n)
       | None => PErr EIO (zdrop n i, sz - n)
       end.

(* extractOffset: the offset of the last inner message *)
Fixpoint extract_last (fuel : nat) (s : rd) (last : Z) {struct fuel} : option Z + err :=
  match fuel with
  | O => inr EFuel
  | S fuel' =>
    if snd s <=? 0 then inl (Some last)
    else match p_int 8 s with
         | PErr e _ => inr e
         | POk off s1 =>
           match p_int 4 s1 with
           | PErr e _ => inr e
           | POk sz s2 =>
             match p_discard sz s2 with
             | PErr e _ => inr e
             | POk _ s3 => extract_last fuel' s3 off
             end
           end
         end
  end.

Definition extract_offset (base : Z) (d : list N) : M Z :=
  match extract_last (S (length d)) (d, len d) 0 with
  | inl (Some last) => ret (wrap64 (base - last))
  | inl None => fail EFuel
  | inr e => fail e
  end.

(* readMessageV1, the body of one loop iteration once a header is current; [again] is the
   next iteration (`continue`) *)
Definition v1_body (again : M (Z * Z * list N * list N)) (min : Z) : M (Z * Z * list N * list N) :=
  f1 <- top ;;
  let h := f_hdr f1 in
  c <- codec_of h ;;
  match c with
  | Some code =>
    lift (p_discard 4) ;;;
    n <- lift (p_int 4) ;;
    f2 <- top ;;
    (if f_remain f2 <? n then fail EShort else ret tt) ;;;
    d <- lift (p_decompress code n) ;;
    base <- extract_offset (h_first h) d ;;
    mark_read ;;;
    (fun m2 => MOk tt (set_stack m2 (mkFrame d (len d) base 0 hdr0 :: m_stack m2))) ;;;
    again
  | None =>
    let offset := wrap64 (h_first h + f_base f1) in
    if offset <? min then
      lift p_discard_bytes32 ;;;
      lift p_discard_bytes32 ;;;
      mark_read ;;;
      again
    else
      k <- lift p_bytes32 ;;
      v <- lift p_bytes32 ;;
      mark_read ;;;
      ret (offset, (if h_magic h =? 2 then 0 else h_ts h), k, v)
  end.

(* readMessageV1: (offset, timestamp, key, value) *)
Fixpoint read_v1 (fuel : nat) (min : Z) {struct fuel} : M (Z * Z * list N * list N) :=
  fun m =>
  match fuel with
  | O => MErr EFuel m
  | S fuel' =>
    match m_stack m with
    | [] => MErr EShort m
    | f :: ps =>
      if f_remain f =? 0 then read_v1 fuel' min (set_stack m ps)
      else (read_header fuel' ;;; v1_body (read_v1 fuel' min) min) m
    end
  end.

(* record headers of a v2 record *)
Fixpoint read_rec_headers (n : nat) {struct n} : M (list (list N * list N)) :=
  match n with
  | O => ret []
  | S n' =>
    kl <- lift p_varint ;;
    k <- lift (p_newbytes kl) ;;
    vl <- lift p_varint ;;
    v <- lift (p_newbytes vl) ;;
    rest <- read_rec_headers n' ;;
    ret ((k, v) :: rest)
  end.

(* readMessageV2, second half: one record from the current frame *)
Definition read_v2_record : M (Z * Z * Z * list N * list N * list (list N * list N)) :=
  f0 <- top ;;
  length <- lift p_varint ;;
  f1 <- top ;;
  let length_of_length := f_remain f0 - f_remain f1 in
  attrs <- lift (p_int 1) ;;
  tsd <- lift p_varint ;;
  od <- lift p_varint ;;
  k <- (kl <- lift p_varint ;; lift (p_newbytes kl)) ;;
  v <- (vl <- lift p_varint ;; lift (p_newbytes vl)) ;;
  hc <- lift p_varint ;;
  f2 <- top ;;
  hs <- read_rec_headers (Z.to_nat (Z.min hc (f_remain f2 + 1))) ;;
  f3 <- top ;;
  let h3 := f_hdr f3 in
  lr <- get_lrem ;;
  set_lrem (lr - (length + length_of_length)) ;;;
  mark_read ;;;
  ret (wrap64 (h_first h3 + od), wrap64 (h_first h3 + h_lod h3), wrap64 (h_ts h3 + tsd), k, v, hs).

(* readMessageV2, first half: when no record of the set was read yet and the set is
   compressed, decompress it and push the result on the stack *)
Definition read_v2_prepare (f : frame) : M unit :=
  let h := f_hdr f in
  if f_count f =? h_count h then
    c <- codec_of h ;;
    match c with
    | None => ret tt
    | Some code =>
      let batch_remain := wrap32 (h_length h - 49) in
      if f_remain f <? batch_remain then fail EShort
      else if batch_remain <? 0 then fail ENegBatch
      else
        d <- lift (p_decompress code batch_remain) ;;
        set_lrem (len d) ;;;     (* the records are accounted for by their uncompressed size *)
        (fun m => match m_stack m with
                  | [] => MPanic
                  | p :: ps =>
                    MOk tt (set_stack m (mkFrame d (len d) (-1) (f_count p) h
                                         :: mkFrame (f_in p) (f_remain p) (f_base p) 0 (f_hdr p) :: ps))
                  end)
    end
  else ret tt.

(* readMessageV2: (offset, lastOffset, timestamp, key, value, headers) *)
Definition read_v2 (fuel : nat) : M (Z * Z * Z * list N * list N * list (list N * list N)) :=
  read_header fuel ;;;
  f <- top ;;
  read_v2_prepare f ;;;
  read_v2_record.

(* a decoded message as Batch.ReadMessage returns it (nil and empty key/value coincide) *)
Record msg := mkMsg {
  g_off : Z; g_ts : Z; g_key : list N; g_val : list N; g_hdrs : list (list N * list N)
}.

(* messageSetReader.readMessage: (message, lastOffset) *)
Definition msr_read (fuel : nat) (min : Z) : M (msg * Z) :=
  fun m =>
  if m_empty m then MErr ETimedOut m else
  (read_header fuel ;;;
   f <- top ;;
   let magic := h_magic (f_hdr f) in
   if (magic =? 0) || (magic =? 1) then
     r <- read_v1 fuel min ;;
     let '(o, ts, k, v) := r in ret (mkMsg o ts k v [], -1)
   else if magic =? 2 then
     r <- read_v2 fuel ;;
     let '(o, lo, ts, k, v, hs) := r in ret (mkMsg o ts k v hs, lo)
   else fail EBadMagic) m.

(* messageSetReader.discard on the root frame; None = it succeeded *)
Fixpoint root (st : list frame) {struct st} : option frame :=
  match st with
  | [] => None
  | [f] => Some f
  | _ :: ps => root ps
  end.

Definition msr_discard (m : msr) : option err :=
  if m_empty m then None else
  match root (m_stack m) with
  | None => None
  | Some f =>
    match p_discard (f_remain f) (f_in f, f_remain f) with
    | POk _ _ => None
    | PErr e _ => Some e
    end
  end.

(* ------------------------------------------------------------------ Batch (batch.go) *)
Record batch := mkBatch {
  b_msgs : option msr;        (* nil when the fetch failed before a message set existed *)
  b_has_conn : bool;          (* batch.conn != nil *)
  b_conn_off : Z;             (* conn.offset while the batch is open *)
  b_off : Z;                  (* batch.offset *)
  b_last : Z;                 (* batch.lastOffset (-1 until a message was read) *)
  b_err : option err;
  b_late : bool               (* time.Now().After(deadline) at the end of the batch *)
}.

Inductive bres : Type :=
| BMsg (g : msg) (b : batch)
| BErr (e : err) (b : batch)
| BPanic.

Definition set_b (b : batch) (ms : option msr) (off last : Z) (e : option err) : batch :=
  mkBatch ms (b_has_conn b) (b_conn_off b) off last e (b_late b).

(* Batch.readMessage *)
Definition batch_read1 (fuel : nat) (b : batch) : bres :=
  match b_err b with
  | Some e => BErr e b
  | None =>
    match b_msgs b with
    | None => BPanic
    | Some m =>
      match msr_read fuel (b_off b) m with
      | MPanic => BPanic
      | MOk (g, lo) m' =>
        (* never backwards; past the batch's last offset once its last record was read *)
        let off1 := if b_off b <=? g_off g then g_off g + 1 else b_off b in
        let off2 := if (m_lrem m' =? 0) && (off1 <=? lo) then lo + 1 else off1 in
        BMsg g (set_b b (Some m') off2 lo None)
      | MErr EShort m' =>
        match msr_discard m' with
        | Some e => BErr e (set_b b (Some m') (b_off b) (b_last b) (Some EIO))
        | None =>
          let e := if b_late b then ETimedOut else EEOF in
          let lo := if (m_lrem m' =? 0) && (m_elast m' <? b_last b) then b_last b else m_elast m' in
          let off := if negb (b_late b) && (b_off b <=? lo) then lo + 1 else b_off b in
          BErr e (set_b b (Some m') off (b_last b) (Some e))
        end
      | MErr ERawEOF m' => BErr ERawEOF (set_b b (Some m') (b_off b) (b_last b) (Some EIO))
      | MErr e m' => BErr e (set_b b (Some m') (b_off b) (b_last b) (Some e))
      end
    end
  end.

(* Batch.ReadMessage: the loop that skips messages below conn.offset *)
Fixpoint batch_read (fuel : nat) (b : batch) {struct fuel} : bres :=
  match fuel with
  | O => BErr EFuel b
  | S fuel' =>
    match batch_read1 (S fuel') b with
    | BMsg g b' =>
      if b_has_conn b' && (g_off g <? b_conn_off b') then batch_read fuel' b' else BMsg g b'
    | r => r
    end
  end.

(* Conn.ReadBatchWith once the fetch response header was read without error *)
Definition new_msr (i : list N) (remain : Z) : mres unit :=
  read_next_header (mkMsr [mkFrame i remain 0 0 hdr0] false 0 (-1)).

Definition new_batch (offset hwm : Z) (i : list N) (remain : Z) (late : bool) : batch :=
  if hwm =? offset then
    (* the empty reader never reads: the message set the broker may have sent is skipped *)
    match p_discard remain (i, remain) with
    | POk _ _ => mkBatch (Some (mkMsr [] true 0 0)) true offset offset (-1) None late
    | PErr _ _ => mkBatch (Some (mkMsr [] true 0 0)) true offset offset (-1) (Some EIO) late
    end
  else match new_msr i remain with
       | MOk _ m => mkBatch (Some m) true offset offset (-1) None late
       | MErr EShort m =>
         (* checkTimeoutErr, then dontExpectEOF turns io.EOF into io.ErrUnexpectedEOF *)
         mkBatch (Some m) true offset offset (-1) (Some (if late then ETimedOut else EIO)) late
       | MErr ERawEOF m => mkBatch (Some m) true offset offset (-1) (Some EIO) late
       | MErr e m => mkBatch (Some m) true offset offset (-1) (Some e) late
       | MPanic => mkBatch None true offset offset (-1) (Some EFuel) late
       end.

(* read the batch to its end as reader.read does: messages, the final error, batch.offset
   (= conn.offset after Batch.close) *)
Fixpoint batch_run (fuel : nat) (b : batch) (acc : list msg) {struct fuel}
  : option (list msg * err * Z) :=
  match fuel with
  | O => Some (rev acc, EFuel, b_off b)
  | S fuel' =>
    match batch_read (S fuel') b with
    | BPanic => None
    | BErr e b' => Some (rev acc, e, b_off b')
    | BMsg g b' => batch_run fuel' b' (g :: acc)
    end
  end.

(* does Batch.close close the connection?  (a non-nil error that is neither a kafka.Error
   nor io.ErrShortBuffer) *)
Definition closes_conn (e : err) : bool :=
  match e with
  | EEOF | ETimedOut | EKafka _ => false
  | _ => true
  end.

(* Batch.close: the rest of the response is skipped; when that fails and the batch carried no
   error (or io.EOF) the failure becomes the batch's error.  Result: Conn.offset, whether the
   connection gets closed *)
Definition batch_close (b : batch) : Z * bool :=
  let derr := match b_msgs b with Some m => msr_discard m | None => None end in
  let e := match derr, b_err b with
           | Some _, None => Some EIO
           | Some _, Some EEOF => Some EIO
           | _, e0 => e0
           end in
  (b_off b, match e with Some e1 => closes_conn e1 | None => false end).

Definition fetch_run (fuel : nat) (offset hwm : Z) (i : list N) (remain : Z) (late : bool)
  : option (list msg * err * Z) :=
  batch_run fuel (new_batch offset hwm i remain late) [].

(* the same run, keeping the batch it ends in, then Batch.Close: messages, the error of the last
   ReadMessage, Conn.offset after Close, what Close returns (io.EOF is not reported), whether the
   library closes the connection *)
Fixpoint batch_run_b (fuel : nat) (b : batch) (acc : list msg) {struct fuel}
  : option (list msg * err * batch) :=
  match fuel with
  | O => Some (rev acc, EFuel, b)
  | S fuel' =>
    match batch_read (S fuel') b with
    | BPanic => None
    | BErr e b' => Some (rev acc, e, b')
    | BMsg g b' => batch_run_b fuel' b' (g :: acc)
    end
  end.

Definition batch_close_err (b : batch) : option err :=
  let derr := match b_msgs b with Some m => msr_discard m | None => None end in
  match derr, b_err b with
  | Some _, None => Some EIO
  | Some _, Some EEOF => Some EIO
  | _, Some EEOF => None
  | _, e0 => e0
  end.

Definition fetch_close (fuel : nat) (offset hwm : Z) (i : list N) (remain : Z) (late : bool)
  : option (list msg * err * Z * option err * bool) :=
  match batch_run_b fuel (new_batch offset hwm i remain late) [] with
  | None => None
  | Some (ms, e, b) =>
    let '(off, closed) := batch_close b in
    Some (ms, e, off, batch_close_err b, closed)
  end.

(* ---- the partition header of a fetch response (read.go readFetchResponseHeaderV2/V5/V10) ----
   v2 carries the high watermark only; v5 and v10 add the last stable offset, the log start
   offset and the aborted transactions.  The high watermark handed to the Batch — the value
   Conn.ReadBatchWith compares with the fetch offset ("nothing to read") and Batch.HighWaterMark
   reports — is the high_watermark field for EVERY version: never the last stable offset (an
   open transaction keeps it below the high watermark while read_uncommitted fetches return
   records up to the high watermark). *)
Record fetch_hdr := mkFH {
  fh_hwm : Z;                         (* high_watermark *)
  fh_lso : Z;                         (* last_stable_offset (v4+) *)
  fh_log_start : Z;                   (* log_start_offset (v5+) *)
  fh_aborted : list (Z * Z)           (* aborted transactions: producer id, first offset (v4+) *)
}.
Definition hwm_of_header (version : Z) (h : fetch_hdr) : Z :=
  if version <? 4 then fh_hwm h          (* v2: the only offset of the header *)
  else if version <? 10 then fh_hwm h    (* v5 *)
  else fh_hwm h.                         (* v10 *)

Definition fetch_close_hdr (fuel : nat) (version offset : Z) (h : fetch_hdr) (i : list N) (remain : Z) (late : bool) :=
  fetch_close fuel offset (hwm_of_header version h) i remain late.

(* ---- the io.Reader style entry points: Batch.Read / Conn.Read ----
   Batch.Read(b) reads ONE message (no skipping of messages below the position: that loop is
   in ReadMessage only) and copies its value into b.  When the value does not fit, the call
   fails with io.ErrShortBuffer, the batch is unusable, and batch.offset is ROLLED BACK: the
   short-buffer read is a no-op on the position, so a new batch on the same Conn (Conn.Read
   retried with a larger buffer) starts at the message that was not handed out. *)
Inductive rdres := RVal (v : list N) | RShort | REnd (e : err).

(* the reads of one batch, one buffer length per call; the batch the calls end in; whether they
   ended with io.ErrShortBuffer *)
Fixpoint batch_reads (fuel : nat) (b : batch) (bufs : list Z) {struct bufs} : list rdres * batch * bool :=
  match bufs with
  | [] => ([], b, false)
  | n :: t =>
    match batch_read1 fuel b with
    | BMsg g b' =>
      if n <? len (g_val g) then
        (* the message was consumed from the response, the position was not *)
        ([RShort], set_b b' (b_msgs b') (b_off b) (b_last b) (b_err b'), true)
      else let '(rs, b2, sh) := batch_reads fuel b' t in (RVal (g_val g) :: rs, b2, sh)
    | BErr e b' => ([REnd e], b', false)
    | BPanic => ([REnd EFuel], b, false)
    end
  end.

(* Batch.Close after these reads: Conn.offset, what Close returns, whether the library closes the
   connection.  After io.ErrShortBuffer: the error of skipping the rest of the response wins
   (the connection is lost); otherwise Close returns io.ErrShortBuffer and the connection is kept *)
Inductive ccls := CNil | CShortBuf | CErr (e : err).
Definition reads_close (b : batch) (short : bool) : Z * ccls * bool :=
  if short then
    match (match b_msgs b with Some m => msr_discard m | None => None end) with
    | Some _ => (b_off b, CErr EIO, true)
    | None => (b_off b, CShortBuf, false)
    end
  else
    (b_off b, match batch_close_err b with None => CNil | Some e => CErr e end, snd (batch_close b)).

End Decomp.
