(* Model/ConnWriters.v — executable model of the hand-written request codec of kafka.Conn.
   Definitions only.  Byte = N < 256, a buffer is a list of bytes.

   Mirrors, function by function,
     /repo/sizeof.go      sizeofString, sizeofNullableString, sizeofBytes, sizeofArray,
                          sizeofInt32Array, sizeofStringArray                     [sizeof_..]
     /repo/write.go       writeBuffer.writeInt8..64, writeString, writeNullableString,
                          writeBytes, writeNonNullBytes, writeBool, writeArrayLen, writeArray,
                          writeStringArray, writeInt32Array                        [w_..]
                          writeFetchRequestV2/V5/V10, writeListOffsetRequestV1,
                          writeProduceRequestV2/V3/V7, compressMessageSet,
                          writeRecordBatch, writeMessage, writeRecord (the last three are
                          the definitions of Model/Records.v, reused)
     /repo/recordbatch.go recordBatchSize, compressRecordBatch (size), recordBatch.writeTo
     /repo/protocol.go    requestHeader.size / writeTo
     /repo/conn.go        Conn.writeRequest, Conn.ApiVersions (the request), emptyToNullable,
                          the fetchMinSize / MaxBytes arithmetic of ReadBatchWith
     /repo/time.go        timestamp, milliseconds
     and the size() / writeTo() pair of every request struct Conn sends: metadata.go
     (topicMetadataRequestV1/V6), findcoordinator.go, joingroup.go, syncgroup.go,
     heartbeat.go, leavegroup.go, offsetcommit.go, offsetfetch.go, listgroups.go,
     createtopics.go, deletetopics.go, saslhandshake.go, saslauthenticate.go.

   The size pre-computation ([creq_size], the size() methods and the hand-written sums
   "h.Size = (h.size() - 4) + ...") and the byte emission ([creq_body], the writeTo()
   methods) are separate functions, as in the Go code; nothing here makes them agree.

   Integers.  Go computes every size in int32, i.e. modulo 2^32, using only +, - and
   multiplication by constants; the sizes below are computed as mathematical integers and
   reduced once, by [wrap32], where the Go code stores the result (h.Size, recordBatch.size,
   the message-set size).  The only way a size reaches the wire is writeInt32, modelled by
   [put_bes 4], which reduces modulo 2^32 again, so the emitted bytes are those of the Go
   code for all inputs (reduction modulo 2^32 commutes with plus, minus and times).  int16(len(s)) and
   int32(len(b)) conversions are the truncation done by [put_bes 2] / [put_bes 4].

   Time.  A time.Time is [TZero] (IsZero()) or [TUnix ns] with ns = UnixNano(); the writers
   use a time only through timestamp(t) (time.go), which is 0 for the zero time and
   UnixNano()/1e6 (truncating division) otherwise. *)
From Coq Require Import List NArith ZArith Bool.
From KV Require Import Lib.Bits Lib.Bytes Lib.Varint Lib.Crc Spec.RecordFormat Model.Records.
Import ListNotations.
Open Scope Z_scope.

Definition gostr := list N.                       (* a Go string: never nil *)

(* ------------------------------------------------------------------ time.go *)
Inductive gtime := TZero | TUnix (ns : Z).
Definition timestamp (t : gtime) : Z :=
  match t with TZero => 0 | TUnix ns => Z.quot ns 1000000 end.
(* the nanosecond count the definitions of Model/Records.v take (they apply ts_ms = ns/1e6) *)
Definition ns_of (t : gtime) : Z := match t with TZero => 0 | TUnix ns => ns end.

(* milliseconds(d time.Duration) int32: clamp to [minTimeout, maxTimeout], then d / 1ms *)
Definition max_timeout : Z := 2147483647 * 1000000.
Definition min_timeout : Z := -2147483648 * 1000000.
Definition milliseconds (d : Z) : Z :=
  let d := if max_timeout <? d then max_timeout else if d <? min_timeout then min_timeout else d in
  Z.quot d 1000000.

(* ------------------------------------------------------------------ write.go: writeBuffer *)
Definition w_int8 (z : Z) : list N := put_bes 1 z.
Definition w_int16 (z : Z) : list N := put_bes 2 z.
Definition w_int32 (z : Z) : list N := put_bes 4 z.
Definition w_int64 (z : Z) : list N := put_bes 8 z.
Definition w_string (s : gostr) : list N := w_int16 (zlen s) ++ s.           (* writeString *)
Definition w_nullable_string (s : option gostr) : list N :=                  (* writeNullableString *)
  match s with None => w_int16 (-1) | Some s => w_string s end.
Definition w_bytes (b : obytes) : list N :=                                  (* writeBytes: nil => -1 *)
  match b with Some l => w_int32 (zlen l) ++ l | None => w_int32 (-1) end.
Definition w_non_null_bytes (b : obytes) : list N :=                         (* writeNonNullBytes: nil => length 0 *)
  w_int32 (blen b) ++ match b with Some l => l | None => [] end.
Definition w_bool (b : bool) : list N := w_int8 (if b then 1 else 0).
Definition w_array_len (n : Z) : list N := w_int32 n.
Definition w_array {A : Type} (f : A -> list N) (l : list A) : list N :=     (* writeArray(len(l), ...) *)
  w_array_len (zlen l) ++ concat (map f l).
Definition w_string_array (a : list gostr) : list N := w_array w_string a.
Definition w_int32_array (a : list Z) : list N := w_array w_int32 a.

(* ------------------------------------------------------------------ sizeof.go *)
Definition sizeof_string (s : gostr) : Z := 2 + zlen s.
Definition sizeof_nullable_string (s : option gostr) : Z :=
  match s with None => 2 | Some s => sizeof_string s end.
Definition sizeof_bytes (b : obytes) : Z := 4 + blen b.                      (* len(nil) = 0 *)
Definition sizeof_array {A : Type} (f : A -> Z) (l : list A) : Z := 4 + zsum (map f l).
Definition sizeof_int32_array (a : list Z) : Z := 4 + 4 * zlen a.
Definition sizeof_string_array (a : list gostr) : Z := sizeof_array sizeof_string a.

(* ------------------------------------------------------------------ protocol.go: requestHeader *)
Record req_header := { h_size : Z; h_key : Z; h_ver : Z; h_corr : Z; h_client : gostr }.
Definition header_size (h : req_header) : Z := 4 + 2 + 2 + 4 + sizeof_string (h_client h).
Definition header_write (h : req_header) : list N :=
  w_int32 (h_size h) ++ w_int16 (h_key h) ++ w_int16 (h_ver h) ++ w_int32 (h_corr h) ++
  w_string (h_client h).

(* ------------------------------------------------------------------ messages *)
(* kafka.Message as the produce writers see it *)
Record cmsg := { c_off : Z; c_time : gtime; c_key : obytes; c_val : obytes; c_hdrs : list header }.
Definition irec_of (m : cmsg) : irec :=
  {| i_off := c_off m; i_ns := ns_of (c_time m); i_key := c_key m; i_val := c_val m;
     i_hdrs := c_hdrs m |}.

(* codec = nil, or codec.Code() together with what the codec made of the uncompressed
   message set / records (opaque here) *)
Definition compression := option (Z * list N).

(* --- message set v1: writeProduceRequestV2, messageSetSize, compressMessageSet --- *)
(* the messages written: the given ones, or the one wrapper Message{Value: compressed} *)
Definition v2_msgs (cz : compression) (ms : list cmsg) : list cmsg :=
  match cz with
  | None => ms
  | Some (_, c) => [{| c_off := 0; c_time := TZero; c_key := None; c_val := Some c; c_hdrs := [] |}]
  end.
Definition v2_attributes (cz : compression) : Z := match cz with None => 0 | Some (code, _) => code end.
Definition message_set_size_of (ms : list cmsg) : Z :=                        (* messageSetSize *)
  message_set_size (map (fun m => (c_key m, c_val m)) ms).
Definition message_set_write (attrs : Z) (ms : list cmsg) : list N :=         (* for _, msg := range msgs { writeMessage } *)
  concat (map (fun m => write_message (c_off m) attrs (timestamp (c_time m)) (c_key m) (c_val m)) ms).

(* what compressMessageSet hands to the codec: offsets 0, 1, 2, ..., attributes 0, the message's time *)
Definition v2_compress_input (ms : list cmsg) : list N :=
  concat (mapi_from (fun i m => write_message i 0 (timestamp (c_time m)) (c_key m) (c_val m)) 0 ms).

(* --- record batch v2: recordbatch.go --- *)
Definition record_batch_header_size : Z := 8 + 4 + 4 + 1 + 4 + 2 + 4 + 8 + 8 + 8 + 2 + 4 + 4.
(* recordBatchSize(msgs...) with baseTime = msgs[0].Time *)
Definition record_batch_size (m0 : cmsg) (rest : list cmsg) : Z :=
  let base := ns_of (c_time m0) in
  record_batch_header_size +
  zsum (mapi_from (fun i m => let msz := record_size base i (irec_of m) in msz + var_int_len msz) 0 (m0 :: rest)).
(* newRecordBatch: r.size, r.attributes *)
Definition rb_size (cz : compression) (m0 : cmsg) (rest : list cmsg) : Z :=
  wrap32 (match cz with
          | None => record_batch_size m0 rest
          | Some (_, c) => record_batch_header_size + zlen c
          end).
Definition rb_attributes (cz : compression) : Z := match cz with None => 0 | Some (code, _) => code end.
(* the records: for i, msg := range msgs { writeRecord(0, msgs[0].Time, i, msg) } — written to the
   output (recordBatch.writeTo) or handed to the codec (compressRecordBatch) *)
Definition rb_records (m0 : cmsg) (rest : list cmsg) : list N :=
  concat (mapi_from (fun i m => write_record (ns_of (c_time m0)) i (irec_of m)) 0 (m0 :: rest)).
Definition last_msg (m0 : cmsg) (rest : list cmsg) : cmsg := last rest m0.
(* recordBatch.writeTo: the int32 size, then writeRecordBatch *)
Definition rb_write (cz : compression) (m0 : cmsg) (rest : list cmsg) : list N :=
  let size := rb_size cz m0 rest in
  let payload := match cz with None => rb_records m0 rest | Some (_, c) => c end in
  w_int32 size ++
  write_record_batch (rb_attributes cz) size (zlen (m0 :: rest))
    (ns_of (c_time m0)) (ns_of (c_time (last_msg m0 rest))) payload.

(* ------------------------------------------------------------------ the requests *)
Inductive produce_ver := PV2 | PV3 | PV7.
Inductive fetch_ver := FV2 | FV5 | FV10.
Inductive metadata_ver := MV1 | MV6.
Inductive join_ver := JV1 | JV2.
Inductive ct_ver := CV0 | CV1 | CV2.
Inductive v01 := V0 | V1.

(* createTopicsRequestV0Topic *)
Record ct_topic := {
  ct_name : gostr; ct_partitions : Z; ct_replication : Z;
  ct_assignments : list (Z * list Z);          (* createTopicsRequestV0ReplicaAssignment *)
  ct_configs : list (gostr * gostr)            (* createTopicsRequestV0ConfigEntry *)
}.

Inductive creq :=
(* the seven hand-written writers of write.go *)
| QProduce (v : produce_ver) (cz : compression) (txid : option gostr) (acks : Z) (timeout : Z)
           (topic : gostr) (partition : Z) (m0 : cmsg) (rest : list cmsg)
| QFetch (v : fetch_ver) (topic : gostr) (partition offset min_bytes max_bytes max_wait isolation : Z)
| QListOffsets (topic : gostr) (partition time : Z)
(* Conn.ApiVersions: a bare header *)
| QApiVersions
(* Conn.writeRequest(apiKey, version, id, req) with the request structs *)
| QMetadata (v : metadata_ver) (topics : option (list gostr)) (auto_create : bool)
| QFindCoordinator (key : gostr)
| QJoinGroup (v : join_ver) (group : gostr) (session_timeout rebalance_timeout : Z)
             (member protocol_type : gostr) (protocols : list (gostr * obytes))
| QSyncGroup (group : gostr) (generation : Z) (member : gostr) (assignments : list (gostr * obytes))
| QHeartbeat (group : gostr) (generation : Z) (member : gostr)
| QLeaveGroup (group member : gostr)
| QOffsetCommit (group : gostr) (generation : Z) (member : gostr) (retention : Z)
                (topics : list (gostr * list (Z * Z * gostr)))
| QOffsetFetch (group : gostr) (topics : list (gostr * list Z))
| QListGroups
| QCreateTopics (v : ct_ver) (topics : list ct_topic) (timeout : Z) (validate_only : bool)
| QDeleteTopics (v : v01) (topics : list gostr) (timeout : Z)
| QSaslHandshake (v : v01) (mechanism : gostr)
| QSaslAuthenticate (data : obytes).

Definition creq_key (r : creq) : Z :=
  match r with
  | QProduce _ _ _ _ _ _ _ _ _ => 0 | QFetch _ _ _ _ _ _ _ _ => 1 | QListOffsets _ _ _ => 2
  | QMetadata _ _ _ => 3 | QOffsetCommit _ _ _ _ _ => 8 | QOffsetFetch _ _ => 9
  | QFindCoordinator _ => 10 | QJoinGroup _ _ _ _ _ _ _ => 11 | QHeartbeat _ _ _ => 12
  | QLeaveGroup _ _ => 13 | QSyncGroup _ _ _ _ => 14 | QListGroups => 16
  | QSaslHandshake _ _ => 17 | QApiVersions => 18 | QCreateTopics _ _ _ _ => 19
  | QDeleteTopics _ _ _ => 20 | QSaslAuthenticate _ => 36
  end.
Definition creq_ver (r : creq) : Z :=
  match r with
  | QProduce v _ _ _ _ _ _ _ _ => match v with PV2 => 2 | PV3 => 3 | PV7 => 7 end
  | QFetch v _ _ _ _ _ _ _ => match v with FV2 => 2 | FV5 => 5 | FV10 => 10 end
  | QListOffsets _ _ _ => 1
  | QMetadata v _ _ => match v with MV1 => 1 | MV6 => 6 end
  | QJoinGroup v _ _ _ _ _ _ => match v with JV1 => 1 | JV2 => 2 end
  | QCreateTopics v _ _ _ => match v with CV0 => 0 | CV1 => 1 | CV2 => 2 end
  | QDeleteTopics v _ _ | QSaslHandshake v _ => match v with V0 => 0 | V1 => 1 end
  | QOffsetCommit _ _ _ _ _ => 2
  | QOffsetFetch _ _ | QListGroups => 1
  | QApiVersions | QFindCoordinator _ | QSyncGroup _ _ _ _ | QHeartbeat _ _ _ | QLeaveGroup _ _
  | QSaslAuthenticate _ => 0
  end.

(* --- per-struct size() / writeTo() --- *)
(* joinGroupRequestGroupProtocolV1, syncGroupRequestGroupAssignmentV0: a string and bytes *)
Definition sb_size (p : gostr * obytes) : Z := sizeof_string (fst p) + sizeof_bytes (snd p).
Definition sb_write (p : gostr * obytes) : list N := w_string (fst p) ++ w_non_null_bytes (snd p).

(* offsetCommitRequestV2Partition / Topic *)
Definition ocp_size (p : Z * Z * gostr) : Z := 4 + 8 + sizeof_string (snd p).
Definition ocp_write (p : Z * Z * gostr) : list N :=
  w_int32 (fst (fst p)) ++ w_int64 (snd (fst p)) ++ w_string (snd p).
Definition oct_size (t : gostr * list (Z * Z * gostr)) : Z :=
  sizeof_string (fst t) + sizeof_array ocp_size (snd t).
Definition oct_write (t : gostr * list (Z * Z * gostr)) : list N :=
  w_string (fst t) ++ w_array ocp_write (snd t).

(* offsetFetchRequestV1Topic *)
Definition oft_size (t : gostr * list Z) : Z := sizeof_string (fst t) + sizeof_int32_array (snd t).
Definition oft_write (t : gostr * list Z) : list N := w_string (fst t) ++ w_int32_array (snd t).

(* createTopicsRequestV0ConfigEntry / ReplicaAssignment / Topic *)
Definition cte_size (e : gostr * gostr) : Z := sizeof_string (fst e) + sizeof_string (snd e).
Definition cte_write (e : gostr * gostr) : list N := w_string (fst e) ++ w_string (snd e).
Definition cta_size (a : Z * list Z) : Z := 4 + (zlen (snd a) + 1) * 4.
Definition cta_write (a : Z * list Z) : list N :=
  w_int32 (fst a) ++ w_int32 (zlen (snd a)) ++ concat (map w_int32 (snd a)).
Definition ctt_size (t : ct_topic) : Z :=
  sizeof_string (ct_name t) + 4 + 2 + sizeof_array cta_size (ct_assignments t) +
  sizeof_array cte_size (ct_configs t).
Definition ctt_write (t : ct_topic) : list N :=
  w_string (ct_name t) ++ w_int32 (ct_partitions t) ++ w_int16 (ct_replication t) ++
  w_array cta_write (ct_assignments t) ++ w_array cte_write (ct_configs t).

(* --- the hand-written sums of write.go: what follows "(h.size() - 4) +" --- *)
Definition fetch_size (v : fetch_ver) (topic : gostr) : Z :=
  match v with
  | FV2 => 4 + 4 + 4 + 4 + sizeof_string topic + 4 + 4 + 8 + 4
  | FV5 => 4 + 4 + 4 + 4 + 1 + 4 + sizeof_string topic + 4 + 4 + 8 + 8 + 4
  | FV10 => 4 + 4 + 4 + 4 + 1 + 4 + 4 + 4 + sizeof_string topic + 4 + 4 + 4 + 8 + 8 + 4 + 4
  end.
Definition fetch_body (v : fetch_ver) (topic : gostr)
           (partition offset min_bytes max_bytes max_wait isolation : Z) : list N :=
  match v with
  | FV2 =>
    w_int32 (-1) ++ w_int32 (milliseconds max_wait) ++ w_int32 min_bytes ++
    w_array_len 1 ++ w_string topic ++
    w_array_len 1 ++ w_int32 partition ++ w_int64 offset ++ w_int32 max_bytes
  | FV5 =>
    w_int32 (-1) ++ w_int32 (milliseconds max_wait) ++ w_int32 min_bytes ++ w_int32 max_bytes ++
    w_int8 isolation ++
    w_array_len 1 ++ w_string topic ++
    w_array_len 1 ++ w_int32 partition ++ w_int64 offset ++ w_int64 0 ++ w_int32 max_bytes
  | FV10 =>
    w_int32 (-1) ++ w_int32 (milliseconds max_wait) ++ w_int32 min_bytes ++ w_int32 max_bytes ++
    w_int8 isolation ++ w_int32 0 ++ w_int32 (-1) ++
    w_array_len 1 ++ w_string topic ++
    w_array_len 1 ++ w_int32 partition ++ w_int32 (-1) ++ w_int64 offset ++ w_int64 0 ++
    w_int32 max_bytes ++
    w_array_len 0
  end.

Definition list_offsets_size (topic : gostr) : Z := 4 + 4 + sizeof_string topic + 4 + 4 + 8.
Definition list_offsets_body (topic : gostr) (partition time : Z) : list N :=
  w_int32 (-1) ++ w_array_len 1 ++ w_string topic ++ w_array_len 1 ++ w_int32 partition ++ w_int64 time.

(* the record set of a produce request: its announced size and its bytes *)
Definition produce_set_size (v : produce_ver) (cz : compression) (m0 : cmsg) (rest : list cmsg) : Z :=
  match v with
  | PV2 => wrap32 (message_set_size_of (v2_msgs cz (m0 :: rest)))
  | PV3 | PV7 => rb_size cz m0 rest
  end.
Definition produce_set_write (v : produce_ver) (cz : compression) (m0 : cmsg) (rest : list cmsg) : list N :=
  match v with
  | PV2 => w_int32 (produce_set_size PV2 cz m0 rest) ++
           message_set_write (v2_attributes cz) (v2_msgs cz (m0 :: rest))
  | PV3 | PV7 => rb_write cz m0 rest
  end.
Definition produce_size (v : produce_ver) (cz : compression) (txid : option gostr) (topic : gostr)
           (m0 : cmsg) (rest : list cmsg) : Z :=
  match v with
  | PV2 => 2 + 4 + 4 + sizeof_string topic + 4 + 4 + 4 + produce_set_size v cz m0 rest
  | PV3 | PV7 =>
    sizeof_nullable_string txid + 2 + 4 + 4 + sizeof_string topic + 4 + 4 + 4 + produce_set_size v cz m0 rest
  end.
Definition produce_body (v : produce_ver) (cz : compression) (txid : option gostr) (acks timeout : Z)
           (topic : gostr) (partition : Z) (m0 : cmsg) (rest : list cmsg) : list N :=
  (match v with PV2 => [] | PV3 | PV7 => w_nullable_string txid end) ++
  w_int16 acks ++ w_int32 (milliseconds timeout) ++
  w_array_len 1 ++ w_string topic ++
  w_array_len 1 ++ w_int32 partition ++
  produce_set_write v cz m0 rest.

(* --- size() of the request (what Conn.writeRequest adds to hdr.size()), resp. the sum of write.go --- *)
Definition creq_size (r : creq) : Z :=
  match r with
  | QProduce v cz txid _ _ topic _ m0 rest => produce_size v cz txid topic m0 rest
  | QFetch v topic _ _ _ _ _ _ => fetch_size v topic
  | QListOffsets topic _ _ => list_offsets_size topic
  | QApiVersions => 0
  | QMetadata MV1 topics _ => sizeof_string_array (match topics with None => [] | Some l => l end)
  | QMetadata MV6 topics _ => sizeof_string_array (match topics with None => [] | Some l => l end) + 1
  | QFindCoordinator key => sizeof_string key
  | QJoinGroup _ group _ _ member ptype protos =>
    sizeof_string group + 4 + 4 + sizeof_string member + sizeof_string ptype + sizeof_array sb_size protos
  | QSyncGroup group _ member assigns =>
    sizeof_string group + 4 + sizeof_string member + sizeof_array sb_size assigns
  | QHeartbeat group _ member => sizeof_string group + 4 + sizeof_string member
  | QLeaveGroup group member => sizeof_string group + sizeof_string member
  | QOffsetCommit group _ member _ topics =>
    sizeof_string group + 4 + sizeof_string member + 8 + sizeof_array oct_size topics
  | QOffsetFetch group topics => sizeof_string group + sizeof_array oft_size topics
  | QListGroups => 0
  | QCreateTopics v topics _ _ =>
    sizeof_array ctt_size topics + 4 + (match v with CV0 => 0 | CV1 | CV2 => 1 end)
  | QDeleteTopics _ topics _ => sizeof_string_array topics + 4
  | QSaslHandshake _ mech => sizeof_string mech
  | QSaslAuthenticate data => sizeof_bytes data
  end.

(* --- writeTo() of the request, resp. what write.go emits after h.writeTo(wb) --- *)
Definition creq_body (r : creq) : list N :=
  match r with
  | QProduce v cz txid acks timeout topic partition m0 rest =>
    produce_body v cz txid acks timeout topic partition m0 rest
  | QFetch v topic partition offset min_bytes max_bytes max_wait isolation =>
    fetch_body v topic partition offset min_bytes max_bytes max_wait isolation
  | QListOffsets topic partition time => list_offsets_body topic partition time
  | QApiVersions => []
  | QMetadata v topics auto =>
    (match topics with None => w_array_len (-1) | Some l => w_string_array l end) ++
    (match v with MV1 => [] | MV6 => w_bool auto end)
  | QFindCoordinator key => w_string key
  | QJoinGroup _ group session rebalance member ptype protos =>
    w_string group ++ w_int32 session ++ w_int32 rebalance ++ w_string member ++ w_string ptype ++
    w_array sb_write protos
  | QSyncGroup group gen member assigns =>
    w_string group ++ w_int32 gen ++ w_string member ++ w_array sb_write assigns
  | QHeartbeat group gen member => w_string group ++ w_int32 gen ++ w_string member
  | QLeaveGroup group member => w_string group ++ w_string member
  | QOffsetCommit group gen member retention topics =>
    w_string group ++ w_int32 gen ++ w_string member ++ w_int64 retention ++ w_array oct_write topics
  | QOffsetFetch group topics => w_string group ++ w_array oft_write topics
  | QListGroups => []
  | QCreateTopics v topics timeout validate =>
    w_array ctt_write topics ++ w_int32 timeout ++
    (match v with CV0 => [] | CV1 | CV2 => w_bool validate end)
  | QDeleteTopics _ topics timeout => w_string_array topics ++ w_int32 timeout
  | QSaslHandshake _ mech => w_string mech
  | QSaslAuthenticate data => w_non_null_bytes data
  end.

(* Conn.writeRequest / the head of every write..Request of write.go / Conn.ApiVersions:
   hdr.Size = (hdr.size() + req.size()) - 4 ; hdr.writeTo ; req.writeTo *)
Definition conn_header (corr : Z) (client : gostr) (r : creq) : req_header :=
  let h := {| h_size := 0; h_key := creq_key r; h_ver := creq_ver r; h_corr := corr; h_client := client |} in
  {| h_size := wrap32 ((header_size h + creq_size r) - 4);
     h_key := h_key h; h_ver := h_ver h; h_corr := h_corr h; h_client := h_client h |}.
Definition conn_frame (corr : Z) (client : gostr) (r : creq) : list N :=
  header_write (conn_header corr client r) ++ creq_body r.

(* saslAuthenticate after a v0 handshake: no Kafka frame, the token behind its int32 length *)
Definition sasl_raw (data : obytes) : list N := w_int32 (blen data) ++ match data with None => [] | Some l => l end.

(* ------------------------------------------------------------------ conn.go: version negotiation *)
(* apiVersionMap.negotiate(key, sortedSupportedVersions...): x := v[key] (the zero ApiVersion
   when the broker did not list the key: [broker_max] = 0); from the highest supported version
   down, the first one not above x.MaxVersion; -1 when there is none (negotiateVersion then
   returns an error and nothing is sent) *)
Fixpoint negotiate_rev (broker_max : Z) (rev_supported : list Z) {struct rev_supported} : Z :=
  match rev_supported with
  | [] => -1
  | s :: r => if s <=? broker_max then s else negotiate_rev broker_max r
  end.
Definition conn_negotiate (advertised : option (Z * Z)) (sorted_supported : list Z) : Z :=
  negotiate_rev (match advertised with Some (_, mx) => mx | None => 0 end) (rev sorted_supported).

(* ------------------------------------------------------------------ conn.go: argument plumbing *)
(* emptyToNullable(config.TransactionalID) *)
Definition empty_to_nullable (s : gostr) : option gostr := match s with [] => None | _ => Some s end.
(* NewConnWith: fetchMinSize = size of a fetch response v2 for the topic with one empty message *)
Definition conn_fetch_min_size (topic : gostr) : Z :=
  wrap32 (4 + (4 + (sizeof_string topic + (4 + (4 + 2 + 8 + 4 + (8 + 4 + (4 + 1 + 1 + 4 + 4))))))).
(* ReadBatchWith hands cfg.MaxBytes + int(c.fetchMinSize) to the fetch writers *)
Definition conn_fetch_max_bytes (topic : gostr) (cfg_max_bytes : Z) : Z :=
  cfg_max_bytes + conn_fetch_min_size topic.
(* deadlineToTimeout with no deadline set *)
Definition no_deadline_timeout : Z := max_timeout.
