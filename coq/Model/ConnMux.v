(* Model/ConnMux.v — request/response multiplexing on one legacy kafka.Conn
   (/repo/conn.go: doRequest, waitResponse, do, ApiVersions, ReadBatchWith; /repo/batch.go: close).

   Atomic-step labelled transition system (DESIGN.md 2.4): one label = one atomic action of
   one goroutine (a critical section of wlock / rlock, one atomic add) or one environment
   action (the broker answering, a deadline firing, the socket being cut).  All
   nondeterminism is in the label sequence.  Definitions only; proofs are in
   Proofs/ConnMux*.v.

   A "thread" is one CALL (one request/response operation); a goroutine issuing several
   requests in sequence is several thread ids.

   Granularity: the byte stream is abstracted to frames (C11 owns byte alignment).  What is
   left of the byte level is the ghost flag [misaligned]: it is raised by the steps after
   which the read buffer does not start at a frame boundary although the connection is
   still open (a Kafka-error path that returns with bytes of the frame unread — C11's
   business; no such path is left in /repo after commit bc68f17, the label [RKafkaLeft]
   stays as the hypothesis [aligned] made explicit).  [aligned s] is [misaligned s = false]. *)
From Coq Require Import List ZArith Bool Arith.
Import ListNotations.
Local Open Scope Z_scope.

Definition tid := nat.

(* int32 wrap of c.correlationID++ *)
Definition wrap32 (z : Z) : Z := (z + 2147483648) mod 4294967296 - 2147483648.

(* which code path runs the read side of the operation *)
Inductive kind :=
| KDo            (* Conn.do : readOperation / writeOperation *)
| KApiVersions   (* Conn.ApiVersions : an ordinary Conn.do operation; kept as a tag for the driver *)
| KBatch.        (* Conn.ReadBatchWith : the read lock is handed to a Batch *)

(* result of parsing the response body *)
Inductive rres :=
| ROk
| RKafka       (* a Kafka error code, rest of the frame discarded (readResponse/discardN) *)
| RKafkaLeft   (* a Kafka error returned with bytes of the frame left unread (C11, F2) *)
| RFatal.      (* time-out / EOF / parse error in the middle of the body *)

Inductive err := EWrite | EPeek | ENoProgress | ERead.

Inductive phase :=
| Idle                  (* call not started *)
| Entered               (* c.enter() done, waiting for wlock *)
| WLocked               (* holds wlock *)
| Waiting               (* request written, in waitResponse, not holding rlock *)
| Peeking               (* holds rlock, about to peek 8 bytes *)
| Reading               (* own header skipped, holds rlock, parsing the body *)
| InBatch               (* rlock handed to a Batch *)
| Done (r : rres)
| Failed (e : err).

(* A response frame: the correlation id in its bytes, and (ghost) the call whose request
   the broker answered with it. *)
Record frame := mkFrame { fid : Z; fown : tid }.

Record thread := mkThread {
  ph : phase;
  knd : kind;
  rid : Z;                (* the id returned by doRequest *)
  seqn : Z;               (* ghost: ordinal of the doRequest critical section, 0 = none yet *)
  reached : bool;         (* ghost: the request reached the broker *)
  got : option frame      (* ghost: the frame whose header this call skipped *)
}.

Definition thread0 := mkThread Idle KDo 0 0 false None.

Record state := mkState {
  next_id : Z;                      (* c.correlationID *)
  nsend : Z;                        (* ghost: number of doRequest critical sections so far *)
  inflight : Z;                     (* c.inflight *)
  wire : list frame;                (* complete frames that arrived and are unread, in order *)
  rlock : option tid;
  wlock : option tid;
  closed : bool;                    (* c.conn.Close() was called *)
  misaligned : bool;                (* ghost, see header *)
  threads : list (tid * thread);    (* newest binding first *)
  answered : list tid;              (* ghost: requests the broker has produced a frame for *)
  consumed : list frame             (* ghost: frames whose header was skipped, oldest first *)
}.

Definition init := mkState 0 0 0 [] None None false false [] [] [].

Fixpoint lookup (m : list (tid * thread)) (t : tid) {struct m} : thread :=
  match m with
  | [] => thread0
  | (t', th) :: m' => if Nat.eqb t' t then th else lookup m' t
  end.

Definition thr (s : state) (t : tid) : thread := lookup (threads s) t.

Definition aligned (s : state) : Prop := misaligned s = false.

(* ---- field updates ---- *)
Definition upd_thread (s : state) (t : tid) (th : thread) : state :=
  mkState (next_id s) (nsend s) (inflight s) (wire s) (rlock s) (wlock s) (closed s)
          (misaligned s) ((t, th) :: threads s) (answered s) (consumed s).
Definition set_inflight (s : state) (v : Z) : state :=
  mkState (next_id s) (nsend s) v (wire s) (rlock s) (wlock s) (closed s)
          (misaligned s) (threads s) (answered s) (consumed s).
Definition set_wire (s : state) (v : list frame) : state :=
  mkState (next_id s) (nsend s) (inflight s) v (rlock s) (wlock s) (closed s)
          (misaligned s) (threads s) (answered s) (consumed s).
Definition set_rlock (s : state) (v : option tid) : state :=
  mkState (next_id s) (nsend s) (inflight s) (wire s) v (wlock s) (closed s)
          (misaligned s) (threads s) (answered s) (consumed s).
Definition set_wlock (s : state) (v : option tid) : state :=
  mkState (next_id s) (nsend s) (inflight s) (wire s) (rlock s) v (closed s)
          (misaligned s) (threads s) (answered s) (consumed s).
Definition set_closed (s : state) : state :=
  mkState (next_id s) (nsend s) (inflight s) (wire s) (rlock s) (wlock s) true
          (misaligned s) (threads s) (answered s) (consumed s).
Definition set_misaligned (s : state) : state :=
  mkState (next_id s) (nsend s) (inflight s) (wire s) (rlock s) (wlock s) (closed s)
          true (threads s) (answered s) (consumed s).
Definition bump_id (s : state) : state :=
  mkState (wrap32 (next_id s + 1)) (nsend s + 1) (inflight s) (wire s) (rlock s) (wlock s)
          (closed s) (misaligned s) (threads s) (answered s) (consumed s).
Definition add_answered (s : state) (t : tid) : state :=
  mkState (next_id s) (nsend s) (inflight s) (wire s) (rlock s) (wlock s) (closed s)
          (misaligned s) (threads s) (t :: answered s) (consumed s).
Definition add_consumed (s : state) (f : frame) : state :=
  mkState (next_id s) (nsend s) (inflight s) (wire s) (rlock s) (wlock s) (closed s)
          (misaligned s) (threads s) (answered s) (consumed s ++ [f]).

Definition set_ph (th : thread) (p : phase) : thread :=
  mkThread p (knd th) (rid th) (seqn th) (reached th) (got th).

Inductive label :=
| Enter (t : tid) (k : kind)      (* c.enter(): inflight++ (doRequest, before wlock) *)
| LockW (t : tid)                 (* c.wlock.Lock() *)
| Send (t : tid) (ok : bool) (delivered : bool)
                                  (* correlationID++, write, [error => conn.Close, leave], wlock.Unlock *)
| Arrive (t : tid)                (* the broker's answer to t's request arrives (any order, or never) *)
| LockR (t : tid)                 (* c.rlock.Lock() in waitResponse *)
| PeekOwn (t : tid)               (* id == rid: skip 8 bytes, keep rlock, leave() *)
| PeekOther (t : tid)             (* foreign id: ErrNoProgress if alone, else unlock and retry *)
| PeekFail (t : tid)              (* EOF / closed while peeking: conn.Close, unlock, leave *)
| PeekGarbage (t : tid)           (* misaligned stream only: the 8 bytes at the head happen to carry t's id *)
| ReadDone (t : tid) (r : rres)   (* body parsed; a non-Kafka error closes the connection *)
| BatchOpen (t : tid)             (* ReadBatchWith returns the Batch holding rlock *)
| BatchClose (t : tid) (r : rres) (* Batch.close: discard the rest, close on non-Kafka error, unlock *)
| BatchRead (t : tid)             (* Batch.Read / ReadMessage of one message: the Batch keeps the lock *)
| BatchShort (t : tid)            (* Batch.Read with a short buffer: io.ErrShortBuffer, the Batch keeps the lock *)
| BatchCloseAgain (t : tid)       (* Batch.Close on a closed Batch: batch.conn and batch.lock are nil, nothing happens *)
| Deadline (t : tid)              (* the call's deadline fires where it is blocked on the socket *)
| UserClose                       (* Conn.Close by the program *)
| Lost.                           (* closed: unread frames in the socket are gone *)

Definition tid_eqb (a : option tid) (t : tid) : bool :=
  match a with Some x => Nat.eqb x t | None => false end.

Definition is_none {A} (a : option A) : bool := match a with None => true | Some _ => false end.

(* the read callback failed with a non-Kafka error: every code path closes the connection.
   Conn.do does (c.conn.Close()); Batch.close does (conn.Close()); Conn.ApiVersions goes
   through Conn.do since /repo commit 9708961 (before that it returned the error with the
   connection left open). *)
Definition closes_on_fatal (k : kind) : bool :=
  match k with KDo | KApiVersions | KBatch => true end.

Definition finish_read (s : state) (t : tid) (r : rres) : state :=
  let th := thr s t in
  match r with
  | ROk | RKafka => upd_thread (set_rlock s None) t (set_ph th (Done r))
  | RKafkaLeft => upd_thread (set_misaligned (set_rlock s None)) t (set_ph th (Done r))
  | RFatal =>
    if closes_on_fatal (knd th)
    then upd_thread (set_wire (set_closed (set_rlock s None)) []) t (set_ph th (Failed ERead))
    else upd_thread (set_misaligned (set_rlock s None)) t (set_ph th (Failed ERead))
  end.

Definition peek_fail (s : state) (t : tid) : state :=
  upd_thread (set_inflight (set_closed (set_rlock s None)) (inflight s - 1)) t
             (set_ph (thr s t) (Failed EPeek)).

Definition step (s : state) (l : label) : option state :=
  match l with
  | Enter t k =>
    match ph (thr s t) with
    | Idle => Some (upd_thread (set_inflight s (inflight s + 1)) t
                               (mkThread Entered k 0 0 false None))
    | _ => None
    end
  | LockW t =>
    match ph (thr s t), wlock s with
    | Entered, None => Some (upd_thread (set_wlock s (Some t)) t (set_ph (thr s t) WLocked))
    | _, _ => None
    end
  | Send t ok delivered =>
    match ph (thr s t) with
    | WLocked =>
      if tid_eqb (wlock s) t then
        let s1 := bump_id s in
        let th := thr s t in
        (* a write on a closed connection fails and delivers nothing *)
        if closed s && (ok || delivered) then None else
        if ok && negb delivered then None else
        if ok then
          Some (upd_thread (set_wlock s1 None) t
                  (mkThread Waiting (knd th) (next_id s1) (nsend s1) true None))
        else
          Some (upd_thread (set_inflight (set_closed (set_wlock s1 None)) (inflight s - 1)) t
                  (mkThread (Failed EWrite) (knd th) (next_id s1) (nsend s1) delivered None))
      else None
    | _ => None
    end
  | Arrive t =>
    let th := thr s t in
    if reached th && negb (closed s) && negb (existsb (Nat.eqb t) (answered s))
    then Some (add_answered (set_wire s (wire s ++ [mkFrame (rid th) t])) t)
    else None
  | LockR t =>
    match ph (thr s t), rlock s with
    | Waiting, None => Some (upd_thread (set_rlock s (Some t)) t (set_ph (thr s t) Peeking))
    | _, _ => None
    end
  | PeekOwn t =>
    match ph (thr s t), wire s with
    | Peeking, f :: w =>
      if negb (misaligned s) && (fid f =? rid (thr s t)) then
        let th := thr s t in
        Some (upd_thread (add_consumed (set_inflight (set_wire s w) (inflight s - 1)) f) t
                (mkThread Reading (knd th) (rid th) (seqn th) (reached th) (Some f)))
      else None
    | _, _ => None
    end
  | PeekOther t =>
    match ph (thr s t), wire s with
    | Peeking, f :: w =>
      if negb (misaligned s) && negb (fid f =? rid (thr s t)) then
        if inflight s =? 1 then
          Some (upd_thread (set_inflight (set_rlock s None) (inflight s - 1)) t
                  (set_ph (thr s t) (Failed ENoProgress)))
        else
          Some (upd_thread (set_rlock s None) t (set_ph (thr s t) Waiting))
      else None
    | _, _ => None
    end
  | PeekFail t =>
    match ph (thr s t) with
    | Peeking => Some (peek_fail s t)
    | _ => None
    end
  | PeekGarbage t =>
    match ph (thr s t) with
    | Peeking =>
      if misaligned s then
        Some (upd_thread (set_inflight s (inflight s - 1)) t (set_ph (thr s t) Reading))
      else None
    | _ => None
    end
  | ReadDone t r =>
    match ph (thr s t), knd (thr s t) with
    | Reading, KBatch => None
    | Reading, _ => Some (finish_read s t r)
    | _, _ => None
    end
  | BatchOpen t =>
    match ph (thr s t), knd (thr s t) with
    | Reading, KBatch => Some (upd_thread s t (set_ph (thr s t) InBatch))
    | _, _ => None
    end
  | BatchClose t r =>
    match ph (thr s t) with
    | InBatch => Some (finish_read s t r)
    | _ => None
    end
  | BatchRead t | BatchShort t =>
    match ph (thr s t) with
    | InBatch => Some s
    | _ => None
    end
  | BatchCloseAgain t =>
    match ph (thr s t), knd (thr s t) with
    | Done _, KBatch | Failed _, KBatch => Some s
    | _, _ => None
    end
  | Deadline t =>
    match ph (thr s t) with
    | Peeking => Some (peek_fail s t)
    | Reading | InBatch => Some (finish_read s t RFatal)
    | _ => None
    end
  | UserClose => Some (set_closed s)
  | Lost => if closed s then Some (set_wire s []) else None
  end.

Fixpoint run (s : state) (ls : list label) {struct ls} : option state :=
  match ls with
  | [] => Some s
  | l :: ls' => match step s l with Some s' => run s' ls' | None => None end
  end.

(* ---- observables used by the correspondence driver ---- *)

(* what the call returned: 0 still running, 1 ok, 2 kafka error, 3 ErrNoProgress,
   4 other error *)
Definition outcome_code (p : phase) : nat :=
  match p with
  | Done ROk => 1 | Done RKafka => 2 | Done RKafkaLeft => 2 | Done RFatal => 4
  | Failed ENoProgress => 3 | Failed _ => 4
  | InBatch => 1
  | _ => 0
  end%nat.

(* the property's predicate on a state: every call that got past its header holds the
   frame produced for its own request *)
Definition own_frame (t : tid) (th : thread) : bool :=
  match ph th with
  | Reading | InBatch | Done _ =>
    match got th with
    | Some f => (fid f =? rid th) && Nat.eqb (fown f) t
    | None => false
    end
  | _ => true
  end.

Fixpoint all_own (s : state) (ts : list tid) {struct ts} : bool :=
  match ts with
  | [] => true
  | t :: ts' => own_frame t (thr s t) && all_own s ts'
  end.

(* ---- monitor of harness op muxcut (2-3 concurrent operations on one Conn, the first answer
   cut after k bytes).  Result classes as [outcome_code], plus 5 = still running at the
   watchdog, 6 = returned a foreign value.
     mon_conn_cut  every pending call returned an error (classes 3 / 4), the call made
                   afterwards failed too and put no request on the wire.
   Model side: the step that abandons the read (ReadDone _ RFatal, BatchClose _ RFatal,
   Deadline, PeekFail) closes the connection AND releases the read lock, so every other waiter's
   LockR is enabled and its peek can only fail (C06_conn_fatal_releases_lock,
   C06_conn_closed_is_final). *)
Definition is_err_class (c : nat) : bool := Nat.eqb c 3 || Nat.eqb c 4.
Definition mon_conn_cut (res : list nat) (post_class post_new : nat) : bool :=
  forallb is_err_class res && is_err_class post_class && Nat.eqb post_new 0.

(* ---- monitor of harness op batchrd (reads on a Batch over real message sets whose values are
   forged response frames; other calls wait or follow).  close_class: 0 nil, 1 io.ErrShortBuffer,
   2 another error, 3 Close did not return; unread: bytes of the connection the client had not
   consumed when Close returned (socket + read buffer) while every other answer was still held
   back; closed: the client had closed the connection; res: classes of the other calls and of
   the follower (1 own answer, 2-4 errors, 5 still running, 6 a value that is not its answer).
     mon_batch_own    no call returned a foreign value
     mon_batch_acct   a Close that leaves the connection open leaves it at the frame boundary
                      (C06_batch_close_at_boundary_or_closed)
     mon_batch_serve  ... and every other call then gets its own answer *)
Definition batch_open (close_class : nat) (closed : bool) : bool :=
  negb closed && negb (Nat.eqb close_class 3).
Definition mon_batch_own (res : list nat) : bool := negb (existsb (Nat.eqb 6) res).
Definition mon_batch_acct (close_class : nat) (unread : Z) (closed : bool) : bool :=
  implb (batch_open close_class closed) (unread =? 0).
Definition mon_batch_serve (close_class : nat) (closed : bool) (res : list nat) : bool :=
  negb (Nat.eqb close_class 3) &&
  implb (batch_open close_class closed) (forallb (fun c => Nat.eqb c 1 || Nat.eqb c 6) res).

(* every call of the list was served with a value (own = 1; a foreign value, 6, is judged by
   mon_batch_own): ops trtail (followers on a re-used pooled connection) and poolx (reads and
   closes of Batches on several Conns sharing the decompression buffer pool) *)
Definition mon_all_served (res : list nat) : bool :=
  forallb (fun c => Nat.eqb c 1 || Nat.eqb c 6) res.
