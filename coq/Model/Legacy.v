(* Model/Legacy.v — the hand-written wire readers of package kafka (read.go, discard.go)
   as total functions, with the "remaining size" counter threaded explicitly exactly as
   the Go code threads [sz]/[remain].  Definitions only.

   A reader is  P A := sz -> stream -> (A + err) * sz' * stream'  where
     sz      the bytes of the current response frame not yet consumed (Go: int),
     stream  what the connection will still deliver; the END of the list is end-of-stream
             (the peer closed): bufio.Reader.Peek/Discard then return io.EOF and
             io.ReadFull returns io.EOF / io.ErrUnexpectedEOF.
   Every Go error / panic is an explicit [err]. *)
From Coq Require Import List NArith ZArith Bool.
From KV Require Import Lib.Bits Lib.Bytes.
Import ListNotations.
Open Scope Z_scope.

Inductive err :=
| EShort            (* errShortRead: "not enough bytes available to load the response" *)
| EEOF              (* io.EOF *)
| EUnexpEOF         (* io.ErrUnexpectedEOF *)
| EKafka (c : Z)    (* kafka.Error(c): an error code reported by the broker *)
| EUnread (n : Z)   (* expectZeroSize: "reading a response left n unread bytes" *)
| EFmt (tag : N)    (* any other fmt.Errorf of the parsers (1: topic count, 2: partition count,
                       3: message set size mismatch, 4: bad magic byte, 5: negative
                       ApiVersions count, 6: negative aborted-transactions count) *)
| ENegCount         (* bufio.ErrNegativeCount *)
| EPanic            (* a Go panic (make with a negative length) *)
| ENoProgress       (* io.ErrNoProgress from waitResponse *)
| EClosed           (* write on a connection the Conn has closed *)
| EUnmodelled.      (* the model does not cover this path (compressed message sets) *)

Definition R (A : Type) : Type := (sum A err * Z * list N)%type.
Definition P (A : Type) : Type := Z -> list N -> R A.

Definition ret {A} (a : A) : P A := fun sz s => (inl a, sz, s).
Definition fail {A} (e : err) : P A := fun sz s => (inr e, sz, s).
Definition bind {A B} (p : P A) (f : A -> P B) : P B := fun sz s =>
  match p sz s with
  | (inl a, sz1, s1) => f a sz1 s1
  | (inr e, sz1, s1) => (inr e, sz1, s1)
  end.
Definition pmap {A B} (f : A -> B) (p : P A) : P B := bind p (fun a => ret (f a)).
Notation "x <- p ;; q" := (bind p (fun x => q)) (at level 61, p at next level, right associativity).

(* the current remaining size, as the Go code reads its [sz]/[remain] variable *)
Definition get_sz : P Z := fun sz s => (inl sz, sz, s).

(* bufio.Reader.Discard(n) *)
Definition bufio_discard (n : Z) (s : list N) : Z * option err * list N :=
  if n <? 0 then (0, Some ENegCount, s)
  else if n <=? Z.of_nat (length s) then (n, None, skipn (Z.to_nat n) s)
  else (Z.of_nat (length s), Some EEOF, []).

(* discard.go discardN *)
Definition discardN (n : Z) : P unit := fun sz s =>
  if n <=? sz then
    match bufio_discard n s with
    | (m, None, s') => (inl tt, sz - m, s')
    | (m, Some e, s') => (inr e, sz - m, s')
    end
  else
    match bufio_discard sz s with
    | (m, None, s') => (inr EShort, sz - m, s')
    | (m, Some e, s') => (inr e, sz - m, s')
    end.

(* read.go peekRead: n > sz -> errShortRead; Peek(n) fails with io.EOF on a stream that
   ends early (nothing consumed); otherwise the n bytes are decoded and discarded *)
Definition peek_read (n : nat) : P (list N) := fun sz s =>
  if sz <? Z.of_nat n then (inr EShort, sz, s)
  else if (length s <? n)%nat then (inr EEOF, sz, s)
  else (inl (firstn n s), sz - Z.of_nat n, skipn n s).

(* readInt8/16/32/64 (two's complement big-endian) *)
Definition read_int (w : nat) : P Z := b <- peek_read w ;; ret (get_bes w b).
Definition readInt8 := read_int 1.
Definition readInt16 := read_int 2.
Definition readInt32 := read_int 4.
Definition readInt64 := read_int 8.
Definition readBool : P Z := b <- peek_read 1 ;; ret (if (hd 0%N b =? 0)%N then 0 else 1).

Definition guard_short (n : Z) : P unit := fun sz s =>
  if sz <? n then (inr EShort, sz, s) else (inl tt, sz, s).

(* readNewBytes(r, sz, n): n <= 0 reads nothing; io.ReadFull on a short stream gives
   io.EOF (nothing read) or io.ErrUnexpectedEOF *)
Definition readNewBytes (n : Z) : P (list N) := fun sz s =>
  if 0 <? n then
    let short := sz <? n in
    let n' := if short then sz else n in
    if n' <? 0 then (inr EPanic, sz, s)
    else if n' <=? Z.of_nat (length s) then
      let k := Z.to_nat n' in
      (if short then inr EShort else inl (firstn k s), sz - n', skipn k s)
    else (inr (match s with [] => EEOF | _ => EUnexpEOF end), sz - Z.of_nat (length s), [])
  else (inl [], sz, s).
Definition readNewString := readNewBytes.

(* readStringWith / readBytesWith: length prefix, then "n > sz -> errShortRead", then cb *)
Definition readStringWith {A} (cb : Z -> P A) : P A :=
  n <- readInt16 ;; _ <- guard_short n ;; cb n.
Definition readArrayLen : P Z := readInt32.
Definition readBytesWith {A} (cb : Z -> P A) : P A :=
  n <- readArrayLen ;; _ <- guard_short n ;; cb n.
Definition readString : P (list N) := readStringWith readNewString.
Definition readBytes : P (list N) := readBytesWith readNewBytes.

(* discard.go *)
Definition discardInt8 := discardN 1.
Definition discardInt16 := discardN 2.
Definition discardInt32 := discardN 4.
Definition discardInt64 := discardN 8.
Definition discard_cb (n : Z) : P unit := if n <? 0 then ret tt else discardN n.
Definition discardString : P unit := readStringWith discard_cb.
Definition discardBytes : P unit := readBytesWith discard_cb.

(* n iterations of cb, stopping at the first error *)
Fixpoint rep {A} (n : nat) (p : P A) {struct n} : P (list A) :=
  match n with
  | O => ret []
  | S m => a <- p ;; l <- rep m p ;; ret (a :: l)
  end.

(* readArrayWith: int32 count, then "for n := int(len); n > 0; n--" *)
Definition readArrayWith {A} (cb : P A) : P (list A) :=
  n <- readInt32 ;; rep (Z.to_nat n) cb.
Definition readStringArray : P (list (list N)) := readArrayWith readString.
(* readMapStringInt32 (used on member assignments; kept for completeness) *)
Definition readMapStringInt32 : P (list (list N * list Z)) :=
  n <- readInt32 ;;
  rep (Z.to_nat n) (k <- readString ;; vs <- readArrayWith readInt32 ;; ret (k, vs)).

(* ---- the reflective read(r, sz, &v) on a type descriptor ----
   Struct fields are right-nested pairs.  Decoded values are untyped. *)
Inductive ty := TI8 | TI16 | TI32 | TI64 | TBool | TStr | TByt
              | TArr (t : ty) | TPair (a b : ty) | TUnit.
Inductive val := VZ (z : Z) | VB (b : list N) | VL (l : list val) | VP (a b : val) | VU.

Fixpoint read_ty (t : ty) {struct t} : P val :=
  match t with
  | TI8 => pmap VZ readInt8
  | TI16 => pmap VZ readInt16
  | TI32 => pmap VZ readInt32
  | TI64 => pmap VZ readInt64
  | TBool => pmap VZ readBool
  | TStr => pmap VB readString
  | TByt => pmap VB readBytes
  | TArr t' => pmap VL (readArrayWith (read_ty t'))      (* readSlice: n < 0 -> nil *)
  | TPair a b => x <- read_ty a ;; y <- read_ty b ;; ret (VP x y)
  | TUnit => ret VU
  end.

(* protocol.go expectZeroSize *)
Definition expectZeroSize {A} (p : P A) : P A := fun sz s =>
  match p sz s with
  | (inl a, sz', s') => if sz' =? 0 then (inl a, sz', s') else (inr (EUnread sz'), sz', s')
  | r => r
  end.

(* conn.go skipRemainingOnKafkaError: a parser that stopped at an error code reported by the
   broker has the unread remainder of the response discarded (the Kafka error is kept unless the
   discard itself fails) *)
Definition skipRemainingOnKafkaError {A} (p : P A) : P A := fun sz s =>
  match p sz s with
  | (inr (EKafka c), sz1, s1) =>
      match discardN sz1 sz1 s1 with
      | (inl _, sz2, s2) => (inr (EKafka c), sz2, s2)
      | (inr e, sz2, s2) => (inr e, sz2, s2)
      end
  | r => r
  end.

(* read.go readVarInt: bytes are taken one by one (never more than the remaining size) until
   one is below 0x80; x |= uint64(b&0x7f) << s (a shift of 64 or more gives 0), then the zig-zag
   decoding int64(x>>1) ^ -(int64(x)&1).  Remaining size exhausted: (0, errShortRead).
   End of stream: Go maps the io.EOF of the refill to errShortRead; Batch.readMessage then tries
   to discard the rest of the response, which fails with that same io.EOF, so the observable
   outcome is the one of an io.EOF: the model reports io.EOF directly. *)
Fixpoint varint_scan (s : list N) (sz : Z) (shift acc : N) {struct s} : R N :=
  if sz <? 0 then (inr EPanic, sz, s)                     (* input[:sz] with sz < 0 *)
  else if sz =? 0 then (inr EShort, sz, s)
  else
    match s with
    | [] => (inr EEOF, sz, [])
    | b :: t =>
        let part := if (shift <? 64)%N then ((N.land b 127 * 2 ^ shift) mod M64)%N else 0%N in
        let acc' := N.lor acc part in
        if (b <? 128)%N then (inl acc', sz - 1, t) else varint_scan t (sz - 1) (shift + 7)%N acc'
    end.
Definition unzigzag64 (x : N) : Z :=
  Z.lxor (Z.of_N (x / 2)) (if N.odd x then (-1) else 0).
Definition readVarInt : P Z := fun sz s =>
  match varint_scan s sz 0 0 with
  | (inl x, sz', s') => (inl (unzigzag64 x), sz', s')
  | (inr e, sz', s') => (inr e, sz', s')
  end.

(* the errShortRead branch of Batch.readMessage: the response was truncated by the broker (or
   the message set is exhausted): the rest of the response is discarded and the batch ends
   normally (None); any other error passes *)
Definition try_short {A} (p : P A) : P (option A) := fun sz s =>
  match p sz s with
  | (inl a, sz1, s1) => (inl (Some a), sz1, s1)
  | (inr EShort, sz1, s1) =>
      match discardN sz1 sz1 s1 with
      | (inl _, sz2, s2) => (inl None, sz2, s2)
      | (inr e, sz2, s2) => (inr e, sz2, s2)
      end
  | (inr e, sz1, s1) => (inr e, sz1, s1)
  end.

(* ---- reference encoder of the same grammar (Kafka protocol guide: INT8..INT64 big-endian,
   BOOLEAN one byte, STRING int16 length (-1 null), BYTES int32 length (-1 null), ARRAY int32
   count (-1 null) then the elements, structs = fields in order) ---- *)
Inductive wval := WZ (z : Z) | WS (s : option (list N)) | WL (l : option (list wval))
                | WP (a b : wval) | WU.

Fixpoint enc (t : ty) (v : wval) {struct t} : list N :=
  match t, v with
  | TI8, WZ z => put_bes 1 z
  | TI16, WZ z => put_bes 2 z
  | TI32, WZ z => put_bes 4 z
  | TI64, WZ z => put_bes 8 z
  | TBool, WZ z => [if z =? 0 then 0%N else 1%N]
  | TStr, WS None => put_bes 2 (-1)
  | TStr, WS (Some b) => put_bes 2 (Z.of_nat (length b)) ++ b
  | TByt, WS None => put_bes 4 (-1)
  | TByt, WS (Some b) => put_bes 4 (Z.of_nat (length b)) ++ b
  | TArr t', WL None => put_bes 4 (-1)
  | TArr t', WL (Some l) => put_bes 4 (Z.of_nat (length l)) ++ flat_map (enc t') l
  | TPair a b, WP x y => enc a x ++ enc b y
  | _, _ => []
  end.

Fixpoint wt (t : ty) (v : wval) {struct t} : Prop :=
  match t, v with
  | TI8, WZ z => in_signed 1 z
  | TI16, WZ z => in_signed 2 z
  | TI32, WZ z => in_signed 4 z
  | TI64, WZ z => in_signed 8 z
  | TBool, WZ z => z = 0 \/ z = 1
  | TStr, WS None => True
  | TStr, WS (Some b) => bytes_ok b /\ Z.of_nat (length b) < 32768
  | TByt, WS None => True
  | TByt, WS (Some b) => bytes_ok b /\ Z.of_nat (length b) < ZM31
  | TArr t', WL None => True
  | TArr t', WL (Some l) => Forall (wt t') l /\ Z.of_nat (length l) < ZM31
  | TPair a b, WP x y => wt a x /\ wt b y
  | TUnit, WU => True
  | _, _ => False
  end.

(* what the reader returns for a well-typed wire value (null string/bytes/array read as empty) *)
Fixpoint dec_val (t : ty) (v : wval) {struct t} : val :=
  match t, v with
  | TStr, WS (Some b) => VB b
  | TStr, _ => VB []
  | TByt, WS (Some b) => VB b
  | TByt, _ => VB []
  | TArr t', WL (Some l) => VL (map (dec_val t') l)
  | TArr _, _ => VL []
  | TPair a b, WP x y => VP (dec_val a x) (dec_val b y)
  | TUnit, _ => VU
  | _, WZ z => VZ z
  | _, _ => VU
  end.
