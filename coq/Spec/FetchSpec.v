(* Spec/FetchSpec.v — the broker side of C02, written from the Kafka protocol documents
   (message sets v0/v1, record batches v2, the Fetch byte limit), not from kafka-go.

   partition log  = strictly increasing list of records (what survives compaction);
   layout         = list of physical batches holding exactly those records;
   fetch response = the encoded batches from the one containing-or-following the fetch
                    offset, cut at a byte position chosen by the environment (any prefix,
                    except that the first batch is complete).
   Compression is the Section variable [compress]; the CRC fields are written as 0
   (the client does not verify them, Kafka's values are irrelevant to the property). *)
From Coq Require Import List NArith ZArith Bool.
From KV Require Import Lib.Bits Lib.Bytes Lib.Varint.
Import ListNotations.
Open Scope Z_scope.

Record record := mkRec {
  r_off : Z; r_ts : Z;
  r_key : option (list N); r_val : option (list N);
  r_hdrs : list (list N * list N)
}.

Definition opt_bytes (o : option (list N)) : list N := match o with Some b => b | None => [] end.
Definition blen (l : list N) : Z := Z.of_nat (length l).

(* a physical batch: format 0/1/2; codec 0 = none, 1 gzip, 2 snappy, 3 lz4, 4 zstd *)
Record pbatch := mkPB {
  pb_fmt : Z; pb_codec : Z;
  pb_base : Z;            (* base offset (v2 firstOffset; first covered offset for v0/v1) *)
  pb_lod : Z;             (* last offset delta: the batch covers base .. base+lod *)
  pb_ts : Z;              (* v2 firstTimestamp / v1 wrapper timestamp *)
  pb_recs : list record   (* surviving records *)
}.
Definition layout := list pbatch.

Fixpoint last_off (rs : list record) (d : Z) {struct rs} : Z :=
  match rs with [] => d | r :: t => last_off t (r_off r) end.

Definition pb_last (b : pbatch) : Z :=
  if pb_fmt b =? 2 then pb_base b + pb_lod b else last_off (pb_recs b) (pb_base b + pb_lod b).

Definition layout_records (l : layout) : list record := flat_map pb_recs l.

(* ---- encoding ---- *)
Definition i8 (z : Z) := put_bes 1 z.
Definition i16 (z : Z) := put_bes 2 z.
Definition i32 (z : Z) := put_bes 4 z.
Definition i64 (z : Z) := put_bes 8 z.

Definition vbytes (o : option (list N)) : list N :=
  match o with
  | None => put_varint (-1)
  | Some b => put_varint (blen b) ++ b
  end.

Definition enc_rec_header (h : list N * list N) : list N :=
  put_varint (blen (fst h)) ++ fst h ++ put_varint (blen (snd h)) ++ snd h.

(* the body of a v2 record (everything after its length varint) *)
Definition enc_record_body (base ts0 : Z) (r : record) : list N :=
  i8 0 ++ put_varint (r_ts r - ts0) ++ put_varint (r_off r - base)
  ++ vbytes (r_key r) ++ vbytes (r_val r)
  ++ put_varint (Z.of_nat (length (r_hdrs r))) ++ flat_map enc_rec_header (r_hdrs r).

Definition enc_record (base ts0 : Z) (r : record) : list N :=
  let b := enc_record_body base ts0 r in put_varint (blen b) ++ b.

Definition enc_records (base ts0 : Z) (rs : list record) : list N :=
  flat_map (enc_record base ts0) rs.

Definition b32 (o : option (list N)) : list N :=
  match o with
  | None => i32 (-1)
  | Some b => i32 (blen b) ++ b
  end.

(* one v0/v1 message; [off] is the offset written on the wire *)
Definition enc_message (fmt attr off ts : Z) (k v : option (list N)) : list N :=
  let body := i32 0 ++ i8 fmt ++ i8 attr ++ (if fmt =? 1 then i64 ts else []) ++ b32 k ++ b32 v in
  i64 off ++ i32 (blen body) ++ body.

Section Compress.
Variable compress : Z -> list N -> list N.

Definition enc_v2 (b : pbatch) : list N :=
  let recs := enc_records (pb_base b) (pb_ts b) (pb_recs b) in
  let payload := if pb_codec b =? 0 then recs else compress (pb_codec b) recs in
  i64 (pb_base b) ++ i32 (49 + blen payload) ++ i32 0 ++ i8 2 ++ i32 0
  ++ i16 (pb_codec b) ++ i32 (pb_lod b) ++ i64 (pb_ts b) ++ i64 (pb_ts b)
  ++ i64 (-1) ++ i16 (-1) ++ i32 (-1) ++ i32 (Z.of_nat (length (pb_recs b))) ++ payload.

(* v0/v1: plain messages carry absolute offsets; a compressed wrapper carries the offset of
   its last record, a null key, and the compressed inner set (v1: offsets relative to the
   base, v0: absolute) *)
Definition enc_legacy (b : pbatch) : list N :=
  let fmt := pb_fmt b in
  if pb_codec b =? 0 then
    flat_map (fun r => enc_message fmt 0 (r_off r) (r_ts r) (r_key r) (r_val r)) (pb_recs b)
  else
    let rel := if fmt =? 1 then pb_base b else 0 in
    let inner := flat_map (fun r => enc_message fmt 0 (r_off r - rel) (r_ts r) (r_key r) (r_val r)) (pb_recs b) in
    enc_message fmt (pb_codec b) (last_off (pb_recs b) (pb_base b)) (pb_ts b) None
                (Some (compress (pb_codec b) inner)).

Definition enc_batch (b : pbatch) : list N :=
  if pb_fmt b =? 2 then enc_v2 b else enc_legacy b.

Definition enc_layout (l : layout) : list N := flat_map enc_batch l.

(* the batches a fetch at offset o is answered with *)
Fixpoint from_offset (l : layout) (o : Z) {struct l} : layout :=
  match l with
  | [] => []
  | b :: t => if pb_last b <? o then from_offset t o else l
  end.

Definition fetch_bytes (l : layout) (o : Z) : list N := enc_layout (from_offset l o).

(* a legal cut of the response: any prefix that keeps the first batch whole *)
Definition valid_cut (l : layout) (o : Z) (k : nat) : Prop :=
  match from_offset l o with
  | [] => k = O
  | b :: _ => (length (enc_batch b) <= k <= length (fetch_bytes l o))%nat
  end.

Definition fetch_response (l : layout) (o : Z) (k : nat) : list N := firstn k (fetch_bytes l o).

End Compress.

(* ---- well-formedness ---- *)
Definition small (z : Z) : Prop := 0 <= z < 2 ^ 62.

Definition record_ok (r : record) : Prop :=
  small (r_off r) /\ small (r_ts r)
  /\ bytes_ok (opt_bytes (r_key r)) /\ bytes_ok (opt_bytes (r_val r))
  /\ Forall (fun h => bytes_ok (fst h) /\ bytes_ok (snd h)) (r_hdrs r)
  /\ blen (opt_bytes (r_key r)) < 2 ^ 30 /\ blen (opt_bytes (r_val r)) < 2 ^ 30.

Fixpoint increasing (lo : Z) (rs : list record) {struct rs} : Prop :=
  match rs with
  | [] => True
  | r :: t => lo <= r_off r /\ increasing (r_off r + 1) t
  end.

Definition log_ok (log : list record) : Prop := Forall record_ok log /\ increasing 0 log.

Definition pbatch_ok (b : pbatch) : Prop :=
  (pb_fmt b = 0 \/ pb_fmt b = 1 \/ pb_fmt b = 2)
  /\ 0 <= pb_codec b <= 4
  /\ small (pb_base b) /\ 0 <= pb_lod b < 2 ^ 31 /\ small (pb_ts b)
  /\ Forall (fun r => pb_base b <= r_off r <= pb_base b + pb_lod b /\ pb_ts b <= r_ts r) (pb_recs b)
  /\ (pb_fmt b <> 2 -> pb_recs b <> [])
  /\ (pb_fmt b = 0 -> Forall (fun r => r_ts r = 0) (pb_recs b))
  /\ (pb_fmt b <> 2 -> Forall (fun r => r_hdrs r = []) (pb_recs b)).

(* batches cover disjoint increasing offset ranges *)
Fixpoint ranges_ok (lo : Z) (l : layout) {struct l} : Prop :=
  match l with
  | [] => True
  | b :: t => lo <= pb_base b /\ ranges_ok (pb_base b + pb_lod b + 1) t
  end.

Definition layout_ok (log : list record) (l : layout) : Prop :=
  layout_records l = log /\ Forall pbatch_ok l /\ ranges_ok 0 l.

(* the records a reader positioned at [o] must see *)
Definition from (o : Z) (log : list record) : list record :=
  filter (fun r => o <=? r_off r) log.
Definition between (lo hi : Z) (log : list record) : list record :=
  filter (fun r => (lo <=? r_off r) && (r_off r <? hi)) log.
