(* Spec/SnappyBlock.v — a strict decoder for the snappy BLOCK format, written from the format
   description (google/snappy format_description.txt), independent of any Go library:
     preamble: the uncompressed length as a little-endian base-128 varint (< 2^32);
     then elements, selected by the low two bits of their tag byte:
       00 literal   length-1 in the upper six bits when < 60; 60..63: length-1 is in the
                    next 1..4 bytes (little-endian); then the literal bytes
       01 copy      length 4..11 = 4 + bits 2..4; offset = bits 5..7 << 8 | next byte
       10 copy      length 1..64 = 1 + upper six bits; offset = next 2 bytes little-endian
       11 copy      length 1..64 = 1 + upper six bits; offset = next 4 bytes little-endian
   A copy of offset 0 (the S2 "repeat last offset" extension), an offset reaching before the
   start of the output, output beyond the announced length, input cut inside an element,
   and a final length different from the announced one are all errors. *)
From Coq Require Import List NArith Bool.
Import ListNotations.
Local Open Scope N_scope.

(* binary.Uvarint: at most 10 bytes; (value, rest) *)
Fixpoint sb_uvarint (fuel : nat) (s : list N) (shift acc : N) {struct fuel} : option (N * list N) :=
  match fuel, s with
  | O, _ => None
  | _, [] => None
  | S fuel', b :: rest =>
    if b <? 128 then Some (acc + b * 2 ^ shift, rest)
    else sb_uvarint fuel' rest (shift + 7) (acc + (b - 128) * 2 ^ shift)
  end.

(* little-endian value of the first n (<= 4) bytes: (value, rest) *)
Fixpoint sb_le (n : nat) (s : list N) {struct n} : option (N * list N) :=
  match n with
  | O => Some (0, s)
  | S n' =>
    match s with
    | [] => None
    | b :: rest =>
      match sb_le n' rest with
      | Some (v, rest') => Some (b + 256 * v, rest')
      | None => None
      end
    end
  end.

(* l bytes going round the pattern [pat] (what an overlapping copy produces), pushed on the
   reversed output *)
Fixpoint sb_copy (l : nat) (pat cur rout : list N) {struct l} : list N :=
  match l with
  | O => rout
  | S l' =>
    match cur with
    | c :: cur' => sb_copy l' pat cur' (c :: rout)
    | [] =>
      match pat with
      | c :: cur' => sb_copy l' pat cur' (c :: rout)
      | [] => rout
      end
    end
  end.

Definition sb_length (l : list N) : N := N.of_nat (length l).

(* the elements; [rout] is the output so far, reversed; [d] its length *)
Fixpoint sb_elements (fuel : nat) (s : list N) (rout : list N) (d dlen : N) {struct fuel}
  : option (list N) :=
  match s with
  | [] => Some (rev_append rout [])
  | tag :: rest =>
    match fuel with
    | O => None
    | S fuel' =>
      let kind := tag mod 4 in
      let up := tag / 4 in
      if kind =? 0 then
        (* literal *)
        let lenm1 :=
          if up <? 60 then Some (up, rest)
          else sb_le (N.to_nat (up - 59)) rest in
        match lenm1 with
        | None => None
        | Some (m, rest') =>
          let len := m + 1 in
          if (sb_length rest' <? len) || (dlen <? d + len) then None
          else sb_elements fuel' (skipn (N.to_nat len) rest')
                           (rev_append (firstn (N.to_nat len) rest') rout) (d + len) dlen
        end
      else
        let hdr :=
          if kind =? 1 then
            match rest with
            | b :: rest' => Some (4 + up mod 8, (up / 8) * 256 + b, rest')
            | [] => None
            end
          else
            match sb_le (if kind =? 2 then 2 else 4)%nat rest with
            | Some (off, rest') => Some (1 + up, off, rest')
            | None => None
            end in
        match hdr with
        | None => None
        | Some (len, off, rest') =>
          if (off =? 0) || (d <? off) || (dlen <? d + len) then None
          else
            let pat := rev_append (firstn (N.to_nat off) rout) [] in
            sb_elements fuel' rest' (sb_copy (N.to_nat len) pat pat rout) (d + len) dlen
        end
    end
  end.

Definition snappy_block_decode (c : list N) : option (list N) :=
  match sb_uvarint 10 c 0 0 with
  | None => None
  | Some (dlen, rest) =>
    if 4294967296 <=? dlen then None else
    match sb_elements (length rest) rest [] 0 dlen with
    | Some out => if sb_length out =? dlen then Some out else None
    | None => None
    end
  end.

(* the length announced by the preamble *)
Definition snappy_block_decoded_len (c : list N) : option N :=
  match sb_uvarint 10 c 0 0 with
  | Some (dlen, _) => if 4294967296 <=? dlen then None else Some dlen
  | None => None
  end.
