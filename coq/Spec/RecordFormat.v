(* Spec/RecordFormat.v — reference encoder/decoder of Kafka's on-disk/wire record formats,
   written from the format description (kafka.apache.org/documentation/#messageformat and
   #recordbatch, KIP-31/32 for the relative offsets of compressed wrapper messages),
   independently of the structure of kafka-go's writers and readers.

   message (magic 0/1):  offset:int64 size:int32 crc:uint32 magic:int8 attributes:int8
                         [timestamp:int64 when magic=1] key:bytes32 value:bytes32
        crc = CRC-32 (IEEE) of magic..value; a compressed "wrapper" message has
        attributes&7 = codec, a null key, and as value the compressed concatenation of
        the inner messages.  With magic 1 the inner offsets are relative and the wrapper
        carries the absolute offset of the LAST inner message.
   record batch (magic 2): baseOffset:int64 batchLength:int32 partitionLeaderEpoch:int32
        magic:int8 crc:uint32 attributes:int16 lastOffsetDelta:int32 firstTimestamp:int64
        maxTimestamp:int64 producerId:int64 producerEpoch:int16 baseSequence:int32
        recordCount:int32 records   (crc = CRC-32C of attributes..end; records compressed
        as a whole when attributes&7 <> 0; attributes bit 5 = control batch)
   record: length:varint attributes:int8 timestampDelta:varint offsetDelta:varint
        key:varbytes value:varbytes headerCount:varint {key:varstring value:varbytes}*
   A record set is size:int32 followed by items back to back.

   The decoder is strict: every length field must agree with what is actually there,
   checksums must match, the record count must be the number of records. *)
From Coq Require Import List NArith ZArith Bool Lia.
From KV Require Import Lib.Bits Lib.Bytes Lib.Crc.
Import ListNotations.
Open Scope Z_scope.

Definition obytes := option (list N).
Definition header := (list N * obytes)%type.

(* a record of a v2 batch, as stored *)
Record rec2 := { r_tsd : Z; r_offd : Z; r_key : obytes; r_val : obytes; r_hdrs : list header }.
(* a message of format 0 or 1, as stored *)
Record msg := { m_magic : Z; m_off : Z; m_attrs : Z; m_ts : Z; m_key : obytes; m_val : obytes }.
Record batch2 := { b_base : Z; b_epoch : Z; b_attrs : Z; b_last : Z; b_first : Z; b_max : Z;
                   b_pid : Z; b_pepoch : Z; b_seq : Z; b_recs : list rec2 }.
Inductive item :=
| IMsg (m : msg)
| IWrap (magic off attrs ts : Z) (inner : list msg)
| IBatch (b : batch2).

(* what a consumer sees *)
Record orec := { o_off : Z; o_ts : Z; o_key : obytes; o_val : obytes; o_hdrs : list header }.

Definition codec_of (attrs : Z) : N := Z.to_N (Z.land attrs 7).
Definition is_control (attrs : Z) : bool := Z.testbit attrs 5.

(* ------------------------------------------------------------------ primitives *)
(* the first n bytes and the rest; None when fewer than n are left (cost n, not the length) *)
Fixpoint take (n : nat) (bs : list N) {struct n} : option (list N * list N) :=
  match n with
  | O => Some ([], bs)
  | S n' =>
    match bs with
    | [] => None
    | b :: t => match take n' t with Some (a, r) => Some (b :: a, r) | None => None end
    end
  end.
Definition get_i (w : nat) (bs : list N) : option (Z * list N) :=
  match take w bs with Some (a, r) => Some (get_bes w a, r) | None => None end.
Fixpoint bytes_eqb (a b : list N) {struct a} : bool :=
  match a, b with
  | [], [] => true
  | x :: a', y :: b' => (x =? y)%N && bytes_eqb a' b'
  | _, _ => false
  end.

(* zig-zag varints: 0,-1,1,-2,... -> 0,1,2,3,...; base-128 little-endian digits, bit 7 =
   "more follows"; at most 10 bytes for 64 bits *)
Definition zz_enc (z : Z) : N := if z <? 0 then Z.to_N (-2 * z - 1) else Z.to_N (2 * z).
Definition zz_dec (n : N) : Z := if (n mod 2 =? 0)%N then Z.of_N (n / 2) else - Z.of_N ((n + 1) / 2).
Fixpoint uv_enc (fuel : nat) (n : N) {struct fuel} : list N :=
  match fuel with
  | O => [n]
  | S f => if (n <? 128)%N then [n] else (n mod 128 + 128)%N :: uv_enc f (n / 128)%N
  end.
Fixpoint uv_dec (fuel : nat) (bs : list N) {struct fuel} : option (N * list N) :=
  match fuel, bs with
  | S f, b :: t =>
    if (b <? 128)%N then Some (b, t)
    else match uv_dec f t with
         | Some (v, r) => Some ((b - 128) + 128 * v, r)%N
         | None => None
         end
  | _, _ => None
  end.
Definition sv_enc (z : Z) : list N := uv_enc 9 (zz_enc z).
Definition sv_dec (bs : list N) : option (Z * list N) :=
  match uv_dec 10 bs with Some (n, r) => Some (zz_dec n, r) | None => None end.

(* nullable byte strings: int32 length (-1 = null) / varint length (-1 = null) *)
Definition zlen {A : Type} (l : list A) : Z := Z.of_nat (length l).
Definition enc_nbytes (b : obytes) : list N :=
  match b with None => put_bes 4 (-1) | Some l => put_bes 4 (zlen l) ++ l end.
Definition dec_nbytes (bs : list N) : option (obytes * list N) :=
  match get_i 4 bs with
  | Some (n, r) =>
    if n <? 0 then (if n =? -1 then Some (None, r) else None)
    else match take (Z.to_nat n) r with Some (l, r') => Some (Some l, r') | None => None end
  | None => None
  end.
Definition enc_vbytes (b : obytes) : list N :=
  match b with None => sv_enc (-1) | Some l => sv_enc (zlen l) ++ l end.
Definition dec_vbytes (bs : list N) : option (obytes * list N) :=
  match sv_dec bs with
  | Some (n, r) =>
    if n <? 0 then (if n =? -1 then Some (None, r) else None)
    else match take (Z.to_nat n) r with Some (l, r') => Some (Some l, r') | None => None end
  | None => None
  end.

(* ------------------------------------------------------------------ formats 0 and 1 *)
Definition msg_body (m : msg) : list N :=
  put_bes 1 (m_magic m) ++ put_bes 1 (m_attrs m) ++
  (if m_magic m =? 0 then [] else put_bes 8 (m_ts m)) ++
  enc_nbytes (m_key m) ++ enc_nbytes (m_val m).
Definition enc_msg (m : msg) : list N :=
  let body := msg_body m in
  put_bes 8 (m_off m) ++ put_bes 4 (4 + zlen body) ++ put_be 4 (crc32_ieee body) ++ body.

(* [bs] is exactly crc ++ magic..value *)
Definition dec_msg_body (off : Z) (bs : list N) : option msg :=
  match take 4 bs with
  | Some (c, body) =>
    if negb (bytes_eqb c (put_be 4 (crc32_ieee body))) then None else
    match get_i 1 body with
    | Some (magic, r1) =>
      if negb ((magic =? 0) || (magic =? 1)) then None else
      match get_i 1 r1 with
      | Some (attrs, r2) =>
        match (if magic =? 0 then Some (0, r2) else get_i 8 r2) with
        | Some (ts, r3) =>
          match dec_nbytes r3 with
          | Some (k, r4) =>
            match dec_nbytes r4 with
            | Some (v, []) => Some {| m_magic := magic; m_off := off; m_attrs := attrs; m_ts := ts;
                                      m_key := k; m_val := v |}
            | _ => None
            end
          | None => None
          end
        | None => None
        end
      | None => None
      end
    | None => None
    end
  | None => None
  end.

(* offset, size, then [size] bytes *)
Definition split_item (bs : list N) : option (Z * list N * list N) :=
  match get_i 8 bs with
  | Some (off, r1) =>
    match get_i 4 r1 with
    | Some (len, r2) =>
      if len <? 0 then None else
      match take (Z.to_nat len) r2 with
      | Some (body, rest) => Some (off, body, rest)
      | None => None
      end
    | None => None
    end
  | None => None
  end.

Fixpoint dec_msgs (fuel : nat) (bs : list N) {struct fuel} : option (list msg) :=
  match bs with
  | [] => Some []
  | _ =>
    match fuel with
    | O => None
    | S f =>
      match split_item bs with
      | Some (off, body, rest) =>
        match dec_msg_body off body with
        | Some m =>
          match dec_msgs f rest with Some ms => Some (m :: ms) | None => None end
        | None => None
        end
      | None => None
      end
    end
  end.

(* ------------------------------------------------------------------ format 2 *)
Definition enc_hdr (h : header) : list N :=
  sv_enc (zlen (fst h)) ++ fst h ++ enc_vbytes (snd h).
Definition dec_hdr (bs : list N) : option (header * list N) :=
  match sv_dec bs with
  | Some (n, r) =>
    if n <? 0 then None else
    match take (Z.to_nat n) r with
    | Some (k, r1) =>
      match dec_vbytes r1 with Some (v, r2) => Some ((k, v), r2) | None => None end
    | None => None
    end
  | None => None
  end.
Fixpoint dec_hdrs (n : nat) (bs : list N) {struct n} : option (list header * list N) :=
  match n with
  | O => Some ([], bs)
  | S n' =>
    match dec_hdr bs with
    | Some (h, r) =>
      match dec_hdrs n' r with Some (hs, r') => Some (h :: hs, r') | None => None end
    | None => None
    end
  end.

Definition rec_body (r : rec2) : list N :=
  put_bes 1 0 ++ sv_enc (r_tsd r) ++ sv_enc (r_offd r) ++
  enc_vbytes (r_key r) ++ enc_vbytes (r_val r) ++
  sv_enc (zlen (r_hdrs r)) ++ concat (map enc_hdr (r_hdrs r)).
Definition enc_rec (r : rec2) : list N :=
  let body := rec_body r in sv_enc (zlen body) ++ body.

(* [bs] is exactly the record body *)
Definition dec_rec_body (bs : list N) : option rec2 :=
  match get_i 1 bs with
  | Some (_, r0) =>
    match sv_dec r0 with
    | Some (tsd, r1) =>
      match sv_dec r1 with
      | Some (offd, r2) =>
        match dec_vbytes r2 with
        | Some (k, r3) =>
          match dec_vbytes r3 with
          | Some (v, r4) =>
            match sv_dec r4 with
            | Some (nh, r5) =>
              if nh <? 0 then None else
              match dec_hdrs (Z.to_nat nh) r5 with
              | Some (hs, []) => Some {| r_tsd := tsd; r_offd := offd; r_key := k; r_val := v; r_hdrs := hs |}
              | _ => None
              end
            | None => None
            end
          | None => None
          end
        | None => None
        end
      | None => None
      end
    | None => None
    end
  | None => None
  end.

Fixpoint dec_recs (n : nat) (bs : list N) {struct n} : option (list rec2) :=
  match n with
  | O => match bs with [] => Some [] | _ => None end
  | S n' =>
    match sv_dec bs with
    | Some (len, r) =>
      if len <? 0 then None else
      match take (Z.to_nat len) r with
      | Some (body, rest) =>
        match dec_rec_body body with
        | Some rc =>
          match dec_recs n' rest with Some rcs => Some (rc :: rcs) | None => None end
        | None => None
        end
      | None => None
      end
    | None => None
    end
  end.

Section Codec.
Variable comp decomp : N -> list N -> list N.

Definition batch_payload (b : batch2) : list N :=
  let raw := concat (map enc_rec (b_recs b)) in
  if (codec_of (b_attrs b) =? 0)%N then raw else comp (codec_of (b_attrs b)) raw.
Definition batch_tail (b : batch2) : list N :=
  put_bes 2 (b_attrs b) ++ put_bes 4 (b_last b) ++ put_bes 8 (b_first b) ++ put_bes 8 (b_max b) ++
  put_bes 8 (b_pid b) ++ put_bes 2 (b_pepoch b) ++ put_bes 4 (b_seq b) ++
  put_bes 4 (zlen (b_recs b)) ++ batch_payload b.
Definition enc_batch (b : batch2) : list N :=
  let tail := batch_tail b in
  put_bes 8 (b_base b) ++ put_bes 4 (9 + zlen tail) ++ put_bes 4 (b_epoch b) ++ put_bes 1 2 ++
  put_be 4 (crc32c tail) ++ tail.

(* [bs] is exactly partitionLeaderEpoch..end *)
Definition dec_batch_body (base : Z) (bs : list N) : option batch2 :=
  match get_i 4 bs with
  | Some (epoch, r0) =>
    match get_i 1 r0 with
    | Some (magic, r1) =>
      if negb (magic =? 2) then None else
      match take 4 r1 with
      | Some (c, tail) =>
        if negb (bytes_eqb c (put_be 4 (crc32c tail))) then None else
        match get_i 2 tail with
        | Some (attrs, t1) =>
          match get_i 4 t1 with
          | Some (last, t2) =>
            match get_i 8 t2 with
            | Some (first, t3) =>
              match get_i 8 t3 with
              | Some (mx, t4) =>
                match get_i 8 t4 with
                | Some (pid, t5) =>
                  match get_i 2 t5 with
                  | Some (pep, t6) =>
                    match get_i 4 t6 with
                    | Some (seq, t7) =>
                      match get_i 4 t7 with
                      | Some (cnt, payload) =>
                        if cnt <? 0 then None else
                        let raw := if (codec_of attrs =? 0)%N then payload
                                   else decomp (codec_of attrs) payload in
                        match dec_recs (Z.to_nat cnt) raw with
                        | Some rcs =>
                          Some {| b_base := base; b_epoch := epoch; b_attrs := attrs; b_last := last;
                                  b_first := first; b_max := mx; b_pid := pid; b_pepoch := pep;
                                  b_seq := seq; b_recs := rcs |}
                        | None => None
                        end
                      | None => None
                      end
                    | None => None
                    end
                  | None => None
                  end
                | None => None
                end
              | None => None
              end
            | None => None
            end
          | None => None
          end
        | None => None
        end
      | None => None
      end
    | None => None
    end
  | None => None
  end.

Definition enc_wrap (magic off attrs ts : Z) (inner : list msg) : list N :=
  enc_msg {| m_magic := magic; m_off := off; m_attrs := attrs; m_ts := ts; m_key := None;
             m_val := Some (comp (codec_of attrs) (concat (map enc_msg inner))) |}.
Definition enc_item (it : item) : list N :=
  match it with
  | IMsg m => enc_msg m
  | IWrap magic off attrs ts inner => enc_wrap magic off attrs ts inner
  | IBatch b => enc_batch b
  end.
Definition enc_items (its : list item) : list N := concat (map enc_item its).
Definition enc_set (its : list item) : list N :=
  let c := enc_items its in put_bes 4 (zlen c) ++ c.

Definition plain (m : msg) : bool := (codec_of (m_attrs m) =? 0)%N.

(* body = the [size] bytes of an item; the magic byte is its fifth byte in every format *)
Definition dec_item_body (off : Z) (body : list N) : option item :=
  match nth_error body 4 with
  | Some mg =>
    if (mg =? 2)%N then
      match dec_batch_body off body with Some b => Some (IBatch b) | None => None end
    else
    match dec_msg_body off body with
    | Some m =>
      if plain m then Some (IMsg m) else
      match m_key m, m_val m with
      | None, Some v =>
        let inner := decomp (codec_of (m_attrs m)) v in
        match dec_msgs (length inner) inner with
        | Some ms => if forallb plain ms then Some (IWrap (m_magic m) off (m_attrs m) (m_ts m) ms) else None
        | None => None
        end
      | _, _ => None
      end
    | None => None
    end
  | None => None
  end.

Fixpoint dec_items (fuel : nat) (bs : list N) {struct fuel} : option (list item) :=
  match bs with
  | [] => Some []
  | _ =>
    match fuel with
    | O => None
    | S f =>
      match split_item bs with
      | Some (off, body, rest) =>
        match dec_item_body off body with
        | Some it =>
          match dec_items f rest with Some its => Some (it :: its) | None => None end
        | None => None
        end
      | None => None
      end
    end
  end.

Definition dec_set (bs : list N) : option (list item) :=
  match get_i 4 bs with
  | Some (size, r) => if size =? zlen r then dec_items (length r) r else None
  | None => None
  end.

(* the longest decodable prefix of items and whether everything was decodable:
   what a consumer may use of a response whose later part is damaged *)
Fixpoint dec_prefix (fuel : nat) (bs : list N) {struct fuel} : list item * bool :=
  match bs with
  | [] => ([], true)
  | _ =>
    match fuel with
    | O => ([], false)
    | S f =>
      match split_item bs with
      | Some (off, body, rest) =>
        match dec_item_body off body with
        | Some it => let (its, ok) := dec_prefix f rest in (it :: its, ok)
        | None => ([], false)
        end
      | None => ([], false)
      end
    end
  end.

End Codec.

(* ------------------------------------------------------------------ records *)
Definition rec_of_msg (delta : Z) (m : msg) : orec :=
  {| o_off := m_off m + delta; o_ts := m_ts m; o_key := m_key m; o_val := m_val m; o_hdrs := [] |}.
Definition rec_of_rec2 (b : batch2) (r : rec2) : orec :=
  {| o_off := b_base b + r_offd r; o_ts := b_first b + r_tsd r; o_key := r_key r; o_val := r_val r;
     o_hdrs := r_hdrs r |}.

(* offsets as stored (what a broker receives in a produce request) *)
Definition raw_records_of (it : item) : list orec :=
  match it with
  | IMsg m => [rec_of_msg 0 m]
  | IWrap _ _ _ _ inner => map (rec_of_msg 0) inner
  | IBatch b => map (rec_of_rec2 b) (b_recs b)
  end.
Definition raw_records (its : list item) : list orec := flat_map raw_records_of its.

(* absolute offsets (what a consumer is handed from a fetch response).  Magic-1 wrapper:
   inner offsets are relative, the wrapper has the absolute offset of the last inner
   message; magic-0 wrapper: inner offsets are absolute.  [ctl] = include control batches. *)
Definition last_off (inner : list msg) : Z := match rev inner with m :: _ => m_off m | [] => 0 end.
Definition records_of (ctl : bool) (it : item) : list orec :=
  match it with
  | IMsg m => [rec_of_msg 0 m]
  | IWrap magic off _ _ inner =>
    if magic =? 0 then map (rec_of_msg 0) inner
    else map (rec_of_msg (off - last_off inner)) inner
  | IBatch b => if is_control (b_attrs b) && negb ctl then [] else map (rec_of_rec2 b) (b_recs b)
  end.
Definition records (its : list item) : list orec := flat_map (records_of false) its.
Definition records_ctl (its : list item) : list orec := flat_map (records_of true) its.
