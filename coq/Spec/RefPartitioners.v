(* Spec/RefPartitioners.v — the reference clients' partitioners, written from their
   own sources (Sarama, librdkafka, Apache Kafka Java client), independently of
   the structure of balancer.go.  Java/Go-signed arithmetic is modelled on Z with
   two's-complement wrap-around [wrap32]. *)
From Coq Require Import List NArith ZArith Bool.
From KV Require Import Lib.Bits Lib.Crc.
Import ListNotations.
Open Scope Z_scope.

(* ---- Java int operators ---- *)
Definition jmul (a b : Z) : Z := wrap32 (a * b).
Definition jadd (a b : Z) : Z := wrap32 (a + b).
Definition jxor (a b : Z) : Z := Z.lxor a b.
Definition jand (a b : Z) : Z := Z.land a b.
Definition jshl (a k : Z) : Z := wrap32 (a * 2 ^ k).
Definition jushr (a k : Z) : Z := wrap32 ((a mod ZM32) / 2 ^ k).   (* >>> *)

(* org.apache.kafka.common.utils.Utils.murmur2; a Java byte is signed, [& 0xff]
   recovers the unsigned value: the key is given as unsigned bytes [b], the Java
   array element is [sbyte b]. *)
Definition sbyte (b : N) : Z := if (b <? 128)%N then Z.of_N b else Z.of_N b - 256.

Definition j_seed : Z := wrap32 2538058380.   (* (int) 0x9747b28c *)
Definition j_m : Z := 1540483477.             (* 0x5bd1e995 *)

Definition j_mixk (k : Z) : Z :=
  let k := jmul k j_m in
  let k := jxor k (jushr k 24) in
  jmul k j_m.

Definition j_chunk (h : Z) (b0 b1 b2 b3 : N) : Z :=
  let k := jadd (jadd (jadd (jand (sbyte b0) 255) (jshl (jand (sbyte b1) 255) 8))
                      (jshl (jand (sbyte b2) 255) 16)) (jshl (jand (sbyte b3) 255) 24) in
  jxor (jmul h j_m) (j_mixk k).

(* switch (length % 4) with fall-through *)
Definition j_tail (h : Z) (data : list N) : Z :=
  match data with
  | [b0; b1; b2] =>
      let h := jxor h (jshl (jand (sbyte b2) 255) 16) in
      let h := jxor h (jshl (jand (sbyte b1) 255) 8) in
      jmul (jxor h (jand (sbyte b0) 255)) j_m
  | [b0; b1] =>
      let h := jxor h (jshl (jand (sbyte b1) 255) 8) in
      jmul (jxor h (jand (sbyte b0) 255)) j_m
  | [b0] => jmul (jxor h (jand (sbyte b0) 255)) j_m
  | _ => h
  end.

Fixpoint j_loop (h : Z) (data : list N) {struct data} : Z :=
  match data with
  | b0 :: b1 :: b2 :: b3 :: rest => j_loop (j_chunk h b0 b1 b2 b3) rest
  | _ => j_tail h data
  end.

Definition j_final (h : Z) : Z :=
  let h := jxor h (jushr h 13) in
  let h := jmul h j_m in
  jxor h (jushr h 15).

Definition java_murmur2 (data : list N) : Z :=
  j_final (j_loop (jxor j_seed (wrap32 (Z.of_nat (length data)))) data).

(* Utils.toPositive(n) = n & 0x7fffffff;
   BuiltInPartitioner.partitionForKey = toPositive(murmur2(key)) % numPartitions *)
Definition java_partition (key : list N) (n : Z) : Z :=
  Z.rem (jand (java_murmur2 key) 2147483647) n.

(* ---- Sarama ---- *)
(* FNV-1a 32 as specified (Fowler/Noll/Vo): hash := offset; for each octet:
   hash := hash xor octet; hash := hash * prime mod 2^32. *)
Fixpoint fnv1a_spec (h : Z) (key : list N) {struct key} : Z :=
  match key with
  | [] => h
  | b :: t => fnv1a_spec ((Z.lxor h (Z.of_N b) * 16777619) mod ZM32) t
  end.
Definition fnv1a32_spec (key : list N) : Z := fnv1a_spec 2166136261 key.

(* int32(x) of a uint32 value *)
Definition to_i32 (x : Z) : Z := wrap32 x.

(* hashPartitioner (NewHashPartitioner): partition = int32(sum) % n; negated if < 0,
   i.e. |int32(sum)| mod n in mathematical terms. *)
Definition sarama_hash (key : list N) (n : Z) : Z :=
  Z.abs (to_i32 (fnv1a32_spec key)) mod n.
(* NewReferenceHashPartitioner: (int32(sum) & 0x7fffffff) % n, i.e. sum mod 2^31 mod n. *)
Definition sarama_refhash (key : list N) (n : Z) : Z :=
  (fnv1a32_spec key mod ZM31) mod n.

(* ---- librdkafka: rd_kafka_msg_partitioner_consistent = rd_crc32(key) % cnt ---- *)
(* rd_crc32 is the standard CRC-32 (IEEE 802.3, reflected, init/final complement),
   shared with Lib/Crc.v; key = NULL and key = "" are both "no key". *)
Definition rdkafka_consistent (key : list N) (n : Z) : Z := Z.of_N (crc32_ieee key) mod n.
