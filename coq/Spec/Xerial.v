(* Spec/Xerial.v — the xerial snappy stream format, written from its description
   (org.xerial.snappy.SnappyOutputStream / SnappyCodec, as used by the Kafka Java
   client): an 8-byte magic "\x82SNAPPY\x00", a 4-byte big-endian version, a 4-byte
   big-endian minimum compatible version, then zero or more chunks, each a 4-byte
   big-endian length followed by that many bytes (one raw snappy block).
   Independent of the structure of xerial.go: no buffers, no state. *)
From Coq Require Import List NArith Bool.
Import ListNotations.
Local Open Scope N_scope.

Definition ref_magic : list N := [130; 83; 78; 65; 80; 80; 89; 0].
Definition ref_version : N := 1.
Definition ref_min_compatible : N := 1.

Definition ref_u32 (n : N) : list N :=
  [(n / 16777216) mod 256; (n / 65536) mod 256; (n / 256) mod 256; n mod 256].
Definition ref_u32_value (a b c d : N) : N := a * 16777216 + b * 65536 + c * 256 + d.

Definition ref_length (l : list N) : N := N.of_nat (length l).

(* ---- encoder: any division of the payload into blocks is a valid stream ---- *)
Definition ref_chunk (c : list N) : list N := ref_u32 (ref_length c) ++ c.
Definition ref_chunks (cs : list (list N)) : list N := concat (map ref_chunk cs).
Definition ref_stream_header : list N := ref_magic ++ ref_u32 ref_version ++ ref_u32 ref_min_compatible.
Definition ref_encode_chunks (cs : list (list N)) : list N := ref_stream_header ++ ref_chunks cs.
Definition ref_encode (enc : list N -> list N) (blocks : list (list N)) : list N :=
  ref_encode_chunks (map enc blocks).

(* ---- decoder ---- *)
Fixpoint ref_bytes_eqb (a b : list N) {struct a} : bool :=
  match a, b with
  | [], [] => true
  | x :: a', y :: b' => (x =? y) && ref_bytes_eqb a' b'
  | _, _ => false
  end.

(* chunks of the body; None when a length or a chunk is cut short *)
Fixpoint ref_split_chunks (fuel : nat) (s : list N) {struct fuel} : option (list (list N)) :=
  match s with
  | [] => Some []
  | a :: b :: c :: d :: rest =>
    match fuel with
    | O => None
    | S fuel' =>
      let n := N.to_nat (ref_u32_value a b c d) in
      if Nat.ltb (length rest) n then None
      else match ref_split_chunks fuel' (skipn n rest) with
           | Some cs => Some (firstn n rest :: cs)
           | None => None
           end
    end
  | _ => None
  end.

(* the compressed chunks of a stream; None = not a (complete) xerial stream that this
   version of the format can read *)
Definition ref_decode_chunks (s : list N) : option (list (list N)) :=
  if negb (ref_bytes_eqb (firstn 8 s) ref_magic) then None else
  match skipn 8 s with
  | _ :: _ :: _ :: _ :: a :: b :: c :: d :: body =>
    if ref_u32_value a b c d <=? ref_min_compatible   (* written for a reader no newer than us *)
    then ref_split_chunks (length body) body
    else None
  | _ => None
  end.

Fixpoint ref_decode_all (dec : list N -> option (list N)) (cs : list (list N)) {struct cs}
  : option (list N) :=
  match cs with
  | [] => Some []
  | c :: cs' =>
    match dec c, ref_decode_all dec cs' with
    | Some b, Some r => Some (b ++ r)
    | _, _ => None
    end
  end.

(* the payload of a xerial stream, given the block decoder *)
Definition ref_decode (dec : list N -> option (list N)) (s : list N) : option (list N) :=
  match ref_decode_chunks s with
  | Some cs => ref_decode_all dec cs
  | None => None
  end.

(* ---- what a reader of a block stream returns to successive Read calls ----
   A Read with a buffer of k bytes returns the next min(k, rest of the current block)
   bytes of the current block; empty blocks are skipped; io.EOF after the last block. *)
Inductive ref_read := RefData (b : list N) | RefEOF.

Fixpoint ref_next_block (blocks : list (list N)) {struct blocks} : option (list N * list (list N)) :=
  match blocks with
  | [] => None
  | [] :: bs => ref_next_block bs
  | b :: bs => Some (b, bs)
  end.

Fixpoint ref_reads (cur : list N) (blocks : list (list N)) (ks : list N) {struct ks} : list ref_read :=
  match ks with
  | [] => []
  | k :: ks' =>
    match cur with
    | _ :: _ => RefData (firstn (N.to_nat k) cur) :: ref_reads (skipn (N.to_nat k) cur) blocks ks'
    | [] =>
      match ref_next_block blocks with
      | None => [RefEOF]
      | Some (b, bs) => RefData (firstn (N.to_nat k) b) :: ref_reads (skipn (N.to_nat k) b) bs ks'
      end
    end
  end.

Fixpoint ref_read_data (rs : list ref_read) {struct rs} : list N :=
  match rs with
  | [] => []
  | RefData b :: rs' => b ++ ref_read_data rs'
  | RefEOF :: rs' => ref_read_data rs'
  end.
