(* Extraction of the C15 model for the correspondence driver.
   ExtrOcamlBasic only: bool, option, unit, list, prod, sumbool map to OCaml's;
   nat, positive, N, Z stay Coq datatypes. *)
Require Extraction.
From Coq Require Import ExtrOcamlBasic.
From Coq Require Import NArith ZArith.
From KV Require Import Model.ConsumerGroup.
Extraction Language OCaml.
Extraction "c15_model.ml"
  init step run cur
  mon_one_live mon_heartbeat mon_backoff mon_leave_full mon_done C15_holds
  f5_scenario standby_scenario leader_assign deadline_of_call connect dial_attempts new_gen g_set_pub
  N.of_nat Z.of_N. (* the last two only so that kvio.ml.in finds the type n *)
