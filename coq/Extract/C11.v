(* Extraction of the C11 / C17(Conn) model for the correspondence driver.
   ExtrOcamlBasic only; nat, positive, N, Z stay Coq datatypes. *)
Require Extraction.
From Coq Require Import ExtrOcamlBasic.
From KV Require Import Lib.Bits Lib.Bytes Model.Legacy Model.ConnOps.
Extraction Language OCaml.
Extraction "c11_model.ml" conn_do conn_do_i conn_nop conn_run deadline_of stalled_exchange fresh negotiate enc resp_ty frame vflat field.
