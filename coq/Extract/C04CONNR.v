(* Extraction of the Conn response readers (C04, Conn half, response direction): the reader
   combinators of Model/Legacy.v, the response grammars and inline readers of Model/ConnOps.v,
   the reader table and the consumer-group blob readers of Model/ConnReaders.v. *)
Require Extraction.
From Coq Require Import ExtrOcamlBasic.
From KV Require Import Lib.Bits Lib.Bytes Model.Legacy Model.ConnOps Model.ConnReaders.
Extraction Language OCaml.
Extraction "c04connr_model.ml" enc read_ty reader_ty reader_run.
