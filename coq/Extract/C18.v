(* Extraction of the C18 model for the correspondence driver.
   ExtrOcamlBasic only: bool, option, unit, list, prod, sumbool map to OCaml's;
   nat, positive, N, Z stay Coq datatypes. *)
Require Extraction.
From Coq Require Import ExtrOcamlBasic.
From Coq Require Import ZArith.
From KV Require Import Model.Sasl.
Extraction Language OCaml.
(* Z.to_N only so that the N datatype, which ocaml/kvio.ml.in mentions, is part of the module *)
Extraction "c18_model.ml" run_case run_raw_case fault_of_response handed_out trace Z.to_N.
