(* Extraction of the Conn request-writer model together with the schema codec model and the
   generated schema table (C04, Conn half). *)
Require Extraction.
From Coq Require Import ExtrOcamlBasic.
From KV Require Import Lib.Bits Lib.Bytes Lib.Varint Model.Records Model.Schema Gen.Schemas Model.ConnWriters.
Extraction Language OCaml.
Extraction "c04conn_model.ml"
  schemas encode write_request read_request lookup_schema
  conn_frame creq_key creq_ver creq_size creq_body sasl_raw conn_fetch_min_size conn_negotiate
  v2_compress_input rb_records timestamp milliseconds.
