(* Extraction of the C03 model for the correspondence driver.
   ExtrOcamlBasic only: bool, option, unit, list, prod, sumbool map to OCaml's;
   nat, positive, N, Z stay Coq datatypes. *)
Require Extraction.
From Coq Require Import ExtrOcamlBasic.
From KV Require Import Model.GroupReader.
Extraction Language OCaml.
Extraction "c03_model.ml"
  step init rd_init co_init makeCommits merge store fetch_raw start_of_raw resolve_start
  check_event check_hist C03_holds lost_b assignment_covers_existing_b all_delivered_b hist_committed tp_eqb lookup.
