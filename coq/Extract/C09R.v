Require Extraction. From Coq Require Import ExtrOcamlBasic NArith ZArith.
From KV Require Import Model.Lifecycle.
Extraction "c09r_model.ml" step init cfg_p cfg_g mon_after_close mon_late_fetch mon_late_commit mon_silent mon_leave C09R_holds live conns close_returned is_env is_clock is_race N.succ Z.succ.
