(* Extraction of the C12 model for the correspondence driver.
   ExtrOcamlBasic only: bool, option, unit, list, prod, sumbool map to OCaml's;
   nat, positive, N, Z stay Coq datatypes. *)
Require Extraction.
From Coq Require Import ExtrOcamlBasic.
From KV Require Import Model.Routing.
Extraction Language OCaml.
Extraction "c12_model.ml"
  select_version name_cmp route_leader route_listoffsets split_listoffsets route_controller
  route_broker_id split_listgroups route send_request negotiate conn_version
  normalize make_layout filter_metadata find_metadata_topic update pool_init round_trip
  pool_step pool_run message_class is_splitter keyed_request forces_refresh
  coord_at_version ktype_at_version via_coordinator discover_step discover_run refresh_turn
  E_deadline E_canceled K_FindCoordinator produce_record_version
  split_describegroups describegroups_request rp_run rpool_init client_metadata connection_setup.
