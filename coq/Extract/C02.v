(* Extraction of the C02 model for the correspondence driver.
   ExtrOcamlBasic only: bool, option, unit, list, prod, sumbool map to OCaml's;
   nat, positive, N, Z stay Coq datatypes. *)
Require Extraction.
From Coq Require Import ExtrOcamlBasic.
From KV Require Import Lib.Bits Lib.Bytes Lib.Varint Model.MsgSetReader Model.ReaderModel Spec.FetchSpec.
Extraction Language OCaml.
Extraction "c02_model.ml"
  fetch_run fetch_close fetch_close_hdr hwm_of_header batch_reads reads_close new_batch batch_read batch_run closes_conn
  gen_start gen_step r_init r_step
  enc_layout enc_batch from_offset fetch_bytes fetch_response
  msg_of delivery_okb fetch_okb from between.
