(* Extraction of the C06 models for the correspondence driver.
   ExtrOcamlBasic only: bool, option, unit, list, prod, sumbool map to OCaml's;
   nat, positive, N, Z stay Coq datatypes. *)
Require Extraction.
From Coq Require Import ExtrOcamlBasic NArith.
From KV Require Import Model.ConnMux Model.TransportPool.
Extraction Language OCaml.
Extraction "c06_model.ml"
  wrap32 init step run thr outcome_code own_frame all_own set_inflight set_wire mon_conn_cut mon_batch_own mon_batch_acct mon_batch_serve mon_all_served
  pinit pstep prun cn rq q_outcome q_own lookup_ord mon_ids mon_fail mon_delivery mon_cut mon_nohang mon_split mon_pure mon_recover split_results
  N.succ.  (* kvio.ml.in needs the type n *)
