(* Extraction of the schema codec model + the generated schema table (C04, C17, C20). *)
Require Extraction.
From Coq Require Import ExtrOcamlBasic.
From KV Require Import Lib.Bits Lib.Bytes Lib.Varint Model.Schema Gen.Schemas Golden.Schemas.
Extraction Language OCaml.
Extraction "c04_model.ml"
  schemas golden_schemas encode decode zero write_request write_response read_response read_request lookup_schema
  put_uvarint put_bes put_be.
