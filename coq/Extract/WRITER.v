(* Extraction of the Writer model (C01, C07, C08, C09-writer) for the correspondence driver.
   ExtrOcamlBasic only: bool, option, unit, list, prod, sumbool map to OCaml's;
   nat, positive, N stay Coq datatypes. *)
Require Extraction.
From Coq Require Import ExtrOcamlBasic.
From Coq Require Import ZArith.
From KV Require Import Lib.LTS Model.Writer.
Extraction Language OCaml.
Extraction "writer_model.ml"
  step init run add_fits add_msg full pw_add new_pw validate tp_of total_size_nohdr
  progress_labels stuckb is_env log_of
  C08_limits_holds rejected_sends_nothing_holds verdict_holds
  C01_nil_holds C01_we_holds C01_compl_holds C01_compl_total_holds C01_no_foreign_holds
  log_is_journal C01_dups_holds C01_holds C07_holds_for C07_holds rejected
  produce_error make_time_ms code_err reaction_of_code
  cfg_of_options eff_batchSize eff_batchBytes eff_maxAttempts eff_batchTimeoutMs eff_backoffMinMs
  eff_backoffMaxMs eff_readTimeoutMs eff_writeTimeoutMs
  produce_deadline_ms metadata_deadline_ms timed_reaction deadline_err
  span_ok batches_by_deadline transport_of_writer_config
  retriable_spec no_early_giveup_holds options_of_writer_config acks_of_writer_config cfg_of_writer_config
  Z.of_N.  (* Z.of_N also so that the shared ocaml/kvio.ml.in finds the type z *)
