(* Extraction of the C13 model for the correspondence driver.
   ExtrOcamlBasic only: bool, option, unit, list, prod, sumbool map to OCaml's;
   nat, positive, N, Z stay Coq datatypes. *)
Require Extraction.
From Coq Require Import ExtrOcamlBasic.
From KV Require Import Lib.Bits Lib.Crc Model.Balancers Spec.RefPartitioners.
Extraction Language OCaml.
Extraction "c13_model.ml"
  fnv1a32 crc32_ieee murmur2 offered rr_init rr_step hash_step refhash_balance
  crc32_balance murmur2_balance lb_step
  java_murmur2 java_partition sarama_hash sarama_refhash rdkafka_consistent
  fnv1a32_spec u32 s32.
