(* Extraction of the C05 model and reference codec for the correspondence driver.
   ExtrOcamlBasic only; nat, positive, N, Z stay Coq datatypes. *)
Require Extraction.
From Coq Require Import ExtrOcamlBasic.
From KV Require Import Lib.Bits Lib.Bytes Lib.Varint Lib.Crc Spec.RecordFormat Model.Records Model.Pages.
Extraction Language OCaml.
Extraction "c05_model.ml"
  legacy_v1 legacy_v2 proto_v1 proto_v2 proto_produce proto_read msr_read
  dec_set dec_prefix enc_set raw_records records records_ctl ts_ms
  s0 step read_ref pb_read_from pb_write_at.
