(* Extraction of the C14 model for the correspondence driver.
   ExtrOcamlBasic only: bool, option, unit, list, prod, sumbool map to OCaml's;
   nat, positive, N, Z stay Coq datatypes. *)
Require Extraction.
From Coq Require Import ExtrOcamlBasic.
From KV Require Import Model.GroupBalancers.
Extraction Language OCaml.
Extraction "c14_model.ml"
  range_assign rr_assign rack_assign rack_assign_canonical rack_assign_topic
  group_by_topic find_members_by_topic partitions_by_topic find_partitions
  zones_of zoned_partitions zoned_consumers assigned aget bytes_eqb bytes_ltb
  extract_topics read_partitions leader_partitions leader_requests broker_read read_each topic_exists leader_range leader_rr leader_rack
  sync_request wire_triples int32_of.
