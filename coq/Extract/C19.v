(* Extraction of the C19 model for the correspondence driver.
   ExtrOcamlBasic only: bool, option, unit, list, prod, sumbool map to OCaml's;
   nat, positive, N, Z stay Coq datatypes. *)
Require Extraction.
From Coq Require Import ExtrOcamlBasic.
From KV Require Import Lib.Bits Model.Queries.
Extraction Language OCaml.
Extraction "c19_model.ml"
  seek conn_offset read_offset_resp
  listoffsets_split listoffsets_merge listoffsets_request listoffsets_client
  offsetfetch_request offsetfetch_map offsetcommit_request offsetcommit_map
  metadata_map read_partitions read_partitions_request read_partitions_call consumer_offsets_request consumer_offsets_result
  effective_addr client_round_trip split_round_trip concat_merge listgroups_merge
  isort str_ltb str_eqb part_le make_time.
