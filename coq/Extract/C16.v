(* Extraction of the C16 model for the correspondence driver.
   ExtrOcamlBasic only: bool, option, unit, list, prod, sumbool map to OCaml's;
   nat, positive, N, Z stay Coq datatypes. *)
Require Extraction.
From Coq Require Import ExtrOcamlBasic.
From KV Require Import Lib.Bits Model.Xerial Model.CodecPool Spec.Xerial Spec.SnappyBlock.
Extraction Language OCaml.
Extraction "c16_model.ml"
  xw_stream xw_new xr_new xr_open xr_close xr_reads xr_write_to
  ref_decode ref_encode ref_reads snappy_block_decode
  p_init p_step p_observe p_run disciplined
  kind_snappy_reader kind_snappy_writer kind_lz4_reader kind_lz4_writer
  kind_gzip_reader kind_gzip_writer kind_zstd_reader kind_zstd_writer
  s32. (* s32 only so that the type z exists for ocaml/kvio.ml.in *)
