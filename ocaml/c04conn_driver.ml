(* c04conn_driver: the Conn request-writer model (Model/ConnWriters.v) and the generic schema
   codec model (Model/Schema.v, Gen/Schemas.v) on the cases of harness/cmd/c04conn.
     creq <api> <ver> <corr> <client> <via> <args>
         -> <frame written by the model> <canon verdict> [<inner verdict>]
        canon verdict: read_request of the model's frame under the regenerated schemas, then
        write_request of the decoded value:
          canon=ok                    decodes (everything consumed, header fields as given) and
                                      re-encodes to the same bytes
          canon=ok-nonnull-strings    only when the schema's nullable strings are read as non-null
                                      strings (an empty string sent as length 0, not as null)
          canon=DIFF:<why>
        inner verdict (compressed produce only): what was handed to the codec is what the model
        hands to it (inner=ok / inner=DIFF)
     canonf <key> <ver> <corr> <client> <frame>   -> canon verdict of these bytes (captured from the real Conn)
     neg <key> <min:max | -> <supported>   -> <version | none>
     fetchmin S<topic>                       -> <size>
     saslraw B<data>                         -> <bytes> *)
open C04conn_model
open C04conn_io

(* ---- tokens ---- *)
let toks = ref []
let next () = match !toks with t :: r -> toks := r; t | [] -> failwith "out of tokens"
let rest t = String.sub t 1 (String.length t - 1)
let expect c = let t = next () in if t = "" || t.[0] <> c then failwith ("expected " ^ String.make 1 c ^ " got " ^ t); rest t
let t_int () = z_of_hex (expect 'I')
let t_str () = bytes_of_hex (expect 'S')
let t_bytes () = optbytes_of_hex (expect 'B')
let t_count () = let s = expect 'N' in if s = "-" then None else Some (int_of_string ("0x" ^ s))
let t_bool () = match next () with "T" -> true | "F" -> false | t -> failwith ("bool " ^ t)
let t_time () = let s = expect 'W' in if s = "-" then TZero else TUnix (z_of_hex s)
(* elements are read left to right *)
let t_list f =
  match t_count () with
  | None -> []
  | Some n -> let acc = ref [] in for _ = 1 to n do acc := f () :: !acc done; List.rev !acc
let t_optlist f =
  match t_count () with
  | None -> None
  | Some n -> let acc = ref [] in for _ = 1 to n do acc := f () :: !acc done; Some (List.rev !acc)

let marker = [n_of_int 0xC0; n_of_int 0xDE]

let parse_msg () : cmsg =
  let off = t_int () in
  let tm = t_time () in
  let k = t_bytes () in
  let v = t_bytes () in
  let hs = t_list (fun () -> let hk = t_str () in let hv = t_bytes () in (hk, hv)) in
  { c_off = off; c_time = tm; c_key = k; c_val = v; c_hdrs = hs }

let parse_req (api : string) (ver : int) : creq * (unit -> string) =
  let none () = "" in
  match api with
  | "produce" ->
    let code = t_int () in
    let payload = t_bytes () in
    let txid = t_bytes () in
    let acks = t_int () in
    let timeout = t_int () in
    let topic = t_str () in
    let partition = t_int () in
    let msgs = t_list parse_msg in
    let v = (match ver with 2 -> PV2 | 3 -> PV3 | 7 -> PV7 | _ -> failwith "produce version") in
    let cz = (match payload with None -> None | Some p -> Some (code, p)) in
    (match msgs with
     | [] -> failwith "produce without messages"
     | m0 :: r ->
       let inner () =
         match cz with
         | None -> ""
         | Some (_, p) ->
           let want = marker @ (match v with PV2 -> v2_compress_input msgs | _ -> rb_records m0 r) in
           if want = p then " inner=ok" else " inner=DIFF" in
       (QProduce (v, cz, txid, acks, timeout, topic, partition, m0, r), inner))
  | "fetch" ->
    let topic = t_str () in
    let partition = t_int () in
    let offset = t_int () in
    let minb = t_int () in
    let maxb = t_int () in
    let wait = t_int () in
    let iso = t_int () in
    let v = (match ver with 2 -> FV2 | 5 -> FV5 | 10 -> FV10 | _ -> failwith "fetch version") in
    (QFetch (v, topic, partition, offset, minb, maxb, wait, iso), none)
  | "listoffsets" ->
    let topic = t_str () in
    let partition = t_int () in
    let tm = t_int () in
    (QListOffsets (topic, partition, tm), none)
  | "apiversions" -> (QApiVersions, none)
  | "metadata" ->
    let topics = t_optlist t_str in
    let auto = t_bool () in
    (QMetadata ((match ver with 1 -> MV1 | 6 -> MV6 | _ -> failwith "metadata version"), topics, auto), none)
  | "findcoordinator" -> let k = t_str () in (QFindCoordinator k, none)
  | "joingroup" ->
    let group = t_str () in
    let st = t_int () in
    let rt = t_int () in
    let member = t_str () in
    let ptype = t_str () in
    let protos = t_list (fun () -> let nm = t_str () in let d = t_bytes () in (nm, d)) in
    (QJoinGroup ((match ver with 1 -> JV1 | 2 -> JV2 | _ -> failwith "joingroup version"),
                 group, st, rt, member, ptype, protos), none)
  | "syncgroup" ->
    let group = t_str () in
    let gen = t_int () in
    let member = t_str () in
    let asg = t_list (fun () -> let nm = t_str () in let d = t_bytes () in (nm, d)) in
    (QSyncGroup (group, gen, member, asg), none)
  | "heartbeat" ->
    let group = t_str () in
    let gen = t_int () in
    let member = t_str () in
    (QHeartbeat (group, gen, member), none)
  | "leavegroup" ->
    let group = t_str () in
    let member = t_str () in
    (QLeaveGroup (group, member), none)
  | "offsetcommit" ->
    let group = t_str () in
    let gen = t_int () in
    let member = t_str () in
    let ret = t_int () in
    let topics = t_list (fun () ->
        let nm = t_str () in
        let ps = t_list (fun () -> let p = t_int () in let o = t_int () in let m = t_str () in ((p, o), m)) in
        (nm, ps)) in
    (QOffsetCommit (group, gen, member, ret, topics), none)
  | "offsetfetch" ->
    let group = t_str () in
    let topics = t_list (fun () -> let nm = t_str () in let ps = t_list t_int in (nm, ps)) in
    (QOffsetFetch (group, topics), none)
  | "listgroups" -> (QListGroups, none)
  | "createtopics" ->
    let topics = t_list (fun () ->
        let nm = t_str () in
        let np = t_int () in
        let rf = t_int () in
        let asg = t_list (fun () -> let p = t_int () in let rs = t_list t_int in (p, rs)) in
        let cfgs = t_list (fun () -> let k = t_str () in let v = t_str () in (k, v)) in
        { ct_name = nm; ct_partitions = np; ct_replication = rf; ct_assignments = asg; ct_configs = cfgs }) in
    let timeout = t_int () in
    let validate = t_bool () in
    (QCreateTopics ((match ver with 0 -> CV0 | 1 -> CV1 | 2 -> CV2 | _ -> failwith "createtopics version"),
                    topics, timeout, validate), none)
  | "deletetopics" ->
    let topics = t_list t_str in
    let timeout = t_int () in
    (QDeleteTopics ((match ver with 0 -> V0 | 1 -> V1 | _ -> failwith "deletetopics version"), topics, timeout), none)
  | "saslhandshake" ->
    let m = t_str () in
    (QSaslHandshake ((match ver with 0 -> V0 | 1 -> V1 | _ -> failwith "saslhandshake version"), m), none)
  | "saslauthenticate" -> let d = t_bytes () in (QSaslAuthenticate d, none)
  | _ -> failwith ("unknown api " ^ api)

(* the schema with every nullable string read as a non-null string *)
let rec nonnull_strings (t : ty) : ty =
  match t with
  | TString _ -> TString false
  | TArray (nl, es, e) -> TArray (nl, es, nonnull_strings e)
  | TStruct (fs, ts) -> TStruct (List.map nonnull_strings fs, List.map (fun (i, t) -> (i, nonnull_strings t)) ts)
  | _ -> t

let cfg = n_of_hex "40000000"

let canon (frame : n list) (key : z) (ver : z) (corr : z) (client : n list) : string =
  match read_request cfg (lookup_schema schemas false) frame with
  | Ok (((((k, v), c), cid), value), st) ->
    if k <> key || v <> ver || c <> corr || cid <> client then "canon=DIFF:header"
    else if st.d_in <> [] then "canon=DIFF:leftover"
    else (match lookup_schema schemas false key ver with
        | None -> "canon=DIFF:no-schema"
        | Some (flex, t) ->
          if write_request flex t key ver corr client value = Some frame then "canon=ok"
          else if write_request flex (nonnull_strings t) key ver corr client value = Some frame
          then "canon=ok-nonnull-strings"
          else "canon=DIFF:reencode")
  | Err (EEof, _, _) -> "canon=DIFF:eof"
  | Err (EMalformed, _, _) -> "canon=DIFF:malformed"
  | Panic -> "canon=DIFF:panic"
  | Oom -> "canon=DIFF:oom"
  | OutOfFuel -> "canon=DIFF:fuel"

let eval (op : string) (a : string list) : string =
  match op, a with
  | "creq", [api; ver; corr; client; _via; args] ->
    toks := (if args = "-" then [] else String.split_on_char ',' args);
    let ver_i = int_of_z (z_of_hex ver) in
    let (r, inner) = parse_req api ver_i in
    if !toks <> [] then failwith "tokens left over";
    let corr = z_of_hex corr and client = bytes_of_hex client in
    let frame = conn_frame corr client r in
    hex_of_bytes frame ^ " " ^ canon frame (creq_key r) (creq_ver r) corr client ^ inner ()
  | "canonf", [key; ver; corr; client; frame] ->
    (* the generic schema model on bytes captured from the real Conn *)
    canon (bytes_of_hex frame) (z_of_hex key) (z_of_hex ver) (z_of_hex corr) (bytes_of_hex client)
  | "neg", [_key; adv; sup] ->
    let adv = (if adv = "-" then None
               else match String.split_on_char ':' adv with
                 | [a; b] -> Some (z_of_hex a, z_of_hex b)
                 | _ -> failwith "bad range") in
    let v = conn_negotiate adv (zlist_of_csv sup) in
    if int_of_z v < 0 then "none" else hex_of_z v
  | "fetchmin", [t] -> hex_of_z (conn_fetch_min_size (bytes_of_hex (rest t)))
  | "saslraw", [d] -> hex_of_bytes (sasl_raw (optbytes_of_hex (rest d)))
  | _ -> "BADCASE"

let () =
  run_lines (fun line ->
    let case = (match String.index_opt line '|' with
        | Some i -> String.sub line 0 i | None -> line) in
    match words case with
    | id :: op :: args -> id ^ " " ^ (try eval op args with e -> "EXN:" ^ Printexc.to_string e)
    | _ -> "0 BADLINE")
