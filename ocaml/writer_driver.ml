(* writer_driver: evaluate the extracted Writer model (coq/Model/Writer.v) on the cases of
   harness/cmd/writer.
   input  line: <id> <op> <args...>
   output line: <id> <model result>
   ops: add / size / wm / prr / pr  step-level differential (model result = what the Go code must print;
                         prr / pr = Client.Produce's response mapping, prr over all 65536 error codes)
        e2e              recorded history of the real Writer: the extracted history predicates
                         (the definitions of Model/Writer.v) are evaluated on it; for
                         deterministic scenarios the model is RUN with the recorded environment
                         choices and its journal / results / completions / logs compared.
                         Result: "ok" or "FAIL:<name>,<name>..." ("det:<what>" = model run differs)
        f3               regression scenario (batchMessages after Close) run on the model:
                         "<close returned|hang>:<result of the call>". *)
open Writer_model
open Writer_io

let ioh s = int_of_string ("0x" ^ s)
let nat_of_hex s = nat_of_int (ioh s)
let hex_of_int i = Printf.sprintf "%x" i
let split c s = if s = "" || s = "." then [] else String.split_on_char c s
let opt_n s = if s = "-" then None else Some (n_of_hex s)
let rec take k l = if k <= 0 then [] else match l with [] -> [] | x :: r -> x :: take (k-1) r

(* ---------- cfg ---------- *)
let parse_cfg (w : string) : config * bool =
  (* cfg=<batchSize>,<batchBytes>,<maxAttempts>,<async>,<wtopic|->,<codes ;>,<det> *)
  let body = String.sub w 4 (String.length w - 4) in
  match String.split_on_char ',' body with
  | [bs; bb; ma; asy; wt; retr; det] ->
    let codes = List.map ioh (split ';' retr) in
    ({ batchSize = nat_of_hex bs; batchBytes = n_of_hex bb; maxAttempts = nat_of_hex ma;
       async = (asy = "1"); wtopic = opt_n wt;
       (* the retriable classification is part of the SPEC (retriable_spec of Model/Writer.v);
          the list the harness prints (what the code itself says) is informational only *)
       retriable = (fun e -> ignore codes; retriable_spec e) }, det = "1")
  | _ -> failwith ("bad cfg " ^ w)

let simple_cfg bs bb asy =
  { batchSize = nat_of_hex bs; batchBytes = n_of_hex bb; maxAttempts = nat_of_int 1;
    async = asy; wtopic = Some N0; retriable = (fun _ -> false) }

let mk_msg id sz = { m_id = n_of_int id; m_topic = None; m_size = sz; m_part = N0 }

(* ---------- step-level ops ---------- *)
let op_add bs bb sizes =
  let cfg = simple_cfg bs bb false in
  let b = ref { b_k = O; b_msgs = []; b_bytes = N0 } in
  String.concat "," (List.mapi (fun i s ->
    let m = mk_msg i (n_of_hex s) in
    let r = add_fits cfg !b m in
    if r then b := add_msg !b m;
    let f = full cfg !b in
    Printf.sprintf "%d%d:%x:%s" (if r then 1 else 0) (if f then 1 else 0)
      (List.length !b.b_msgs) (hex_of_n !b.b_bytes)) (split ',' sizes))

let op_wm bs bb asy calls =
  let asy = (asy = "1") in
  let cfg = simple_cfg bs bb asy in
  let pw = ref (new_pw (N0, N0)) in
  let ctr = ref 0 in
  String.concat "/" (List.map (fun call ->
    let ks = List.map (fun s ->
      incr ctr;
      let ((pw', k), _) = pw_add cfg !pw (mk_msg !ctr (n_of_hex s)) in
      pw := pw'; int_of_nat k) (split ',' call) in
    let q = List.map (fun b -> hex_of_int (List.length b.b_msgs)) !pw.pw_queue in
    Printf.sprintf "r=%s;q=%s;c=%s"
      (if asy then "-" else if ks = [] then "." else String.concat "," (List.map hex_of_int ks))
      (if q = [] then "." else String.concat "," q)
      (match !pw.pw_curr with None -> "-" | Some b -> hex_of_int (List.length b.b_msgs)))
    (String.split_on_char '/' calls))

(* ---------- histories ---------- *)
type hcall = { hc_g : n; hc_merr : (nat * err) option; hc_msgs : msg list; mutable hc_res : string option }
type hatt = { ha_tp : tpart; ha_applied : bool; ha_seen : err option; ha_ids : string list }

let parse_tp s = match String.split_on_char '.' s with
  | [t; p] -> (n_of_hex t, n_of_hex p) | _ -> failwith ("bad tp " ^ s)

let result_of_string (r : string) : result =
  match String.split_on_char '.' r with
  | ["nil"] -> RNil
  | ["closed"] -> RErr EClosed
  | ["toolarge"; i] -> RErr (ETooLarge (nat_of_hex i))
  | ["topic"] -> RErr (ETopic O)
  | ["meta"] -> RErr (EMeta (O, N0))
  | ["ctx"] -> RErr ECtx
  | "we" :: _ ->
    let body = String.sub r 3 (String.length r - 3) in
    RWriteErrors (List.map opt_n (split ';' body))
  | _ -> RErr ECtx (* "other": reported separately *)

let string_of_result (r : result) : string =
  match r with
  | RNil -> "nil"
  | RErr EClosed -> "closed"
  | RErr (ETooLarge i) -> "toolarge." ^ hex_of_int (int_of_nat i)
  | RErr (ETopic _) -> "topic"
  | RErr (EMeta (_, _)) -> "meta"
  | RErr ECtx -> "ctx"
  | RWriteErrors we -> "we." ^ String.concat ";" (List.map (function None -> "-" | Some e -> hex_of_n e) we)

let reaction_of applied seen =
  match applied, seen with
  | true, None -> Some AppliedAcked
  | true, Some e -> Some (AppliedLost e)
  | false, Some e ->
    (* 1001..1099 = transport errors; everything else is a partition error code (c, or 65536+c for c < 0) *)
    let v = int_of_n e in Some (if v >= 1001 && v <= 1099 then NotApplied e else RejectedCode e)
  | false, None -> None

let op_e2e ?(wire = false) (words : string list) : string =
  match words with
  | [] -> "BADCASE"
  | cfgw :: evs ->
    let (cfg, det) = parse_cfg cfgw in
    let tbl : (string, msg) Hashtbl.t = Hashtbl.create 64 in
    let calls : hcall list ref = ref [] in
    let atts : hatt list ref = ref [] in
    let compl : (string list * err option) list ref = ref [] in
    let logs : (tpart * string list) list ref = ref [] in
    let order : [`C of int | `X | `Y] list ref = ref [] in
    let ncalls = ref 0 in
    let bad = ref [] in
    let flag s = if not (List.mem s !bad) then bad := s :: !bad in
    let closed_ret = ref false in
    List.iter (fun ev ->
      let tag = ev.[0] and body = String.sub ev 1 (String.length ev - 1) in
      match tag with
      | 'C' ->
        (match String.split_on_char ':' body with
         | [_c; g; merr; ms] ->
           let msgs = List.map (fun m ->
             match String.split_on_char '.' m with
             | [id; t; sz; p] ->
               let mm = { m_id = n_of_hex id; m_topic = opt_n t; m_size = n_of_hex sz; m_part = n_of_hex p } in
               Hashtbl.replace tbl id mm; mm
             | _ -> failwith ("bad msg " ^ m)) (split ';' ms) in
           let merr = if merr = "-" then None else
               (match String.split_on_char '.' merr with
                | [i; e] -> Some (nat_of_hex i, n_of_hex e) | _ -> None) in
           calls := !calls @ [{ hc_g = n_of_hex g; hc_merr = merr; hc_msgs = msgs; hc_res = None }];
           order := `C !ncalls :: !order; incr ncalls
         | _ -> failwith ("bad C " ^ ev))
      | 'R' ->
        let i = String.index body ':' in
        let c = ioh (String.sub body 0 i) in
        (List.nth !calls c).hc_res <- Some (String.sub body (i+1) (String.length body - i - 1))
      | 'K' ->
        let i = String.index body ':' in
        compl := !compl @ [(split ';' (String.sub body (i+1) (String.length body - i - 1)), opt_n (String.sub body 0 i))]
      | 'A' ->
        (match String.split_on_char ':' body with
         | [tp; ap; seen; ids] ->
           atts := !atts @ [{ ha_tp = parse_tp tp; ha_applied = (ap = "1"); ha_seen = opt_n seen; ha_ids = split ';' ids }]
         | _ -> failwith ("bad A " ^ ev))
      | 'L' ->
        let i = String.index body ':' in
        logs := !logs @ [(parse_tp (String.sub body 0 i), split ';' (String.sub body (i+1) (String.length body - i - 1)))]
      | 'X' -> order := `X :: !order
      | 'Y' -> order := `Y :: !order; closed_ret := true
      | _ -> failwith ("bad event " ^ ev)) evs;
    let order = List.rev !order in
    let find_msg id = match Hashtbl.find_opt tbl id with
      | Some m -> m
      | None -> flag "unknown-message-id"; { m_id = n_of_hex id; m_topic = None; m_size = N0; m_part = N0 } in
    (* the history as model values *)
    let mcalls = List.map (fun hc ->
      { c_g = hc.hc_g; c_msgs = hc.hc_msgs; c_refs = [];
        c_ph = (match hc.hc_res with None -> CWaiting | Some r -> CReturned (result_of_string r)) }) !calls in
    let journal = List.map (fun a ->
      { a_pw = O; a_k = O; a_tp = a.ha_tp; a_msgs = List.map find_msg a.ha_ids;
        a_applied = a.ha_applied; a_seen = a.ha_seen }) !atts in
    let mcompl = List.map (fun (ids, o) -> (List.map find_msg ids, o)) !compl in
    let mlog = List.concat_map (fun (tp, ids) -> List.map (fun id -> (tp, find_msg id)) ids) !logs in
    List.iter (fun hc -> match hc.hc_res with
      | Some r when String.length r >= 5 && String.sub r 0 5 = "other" -> flag "call-returned-unexpected-error"
      | _ -> ()) !calls;
    (* ---- the history predicates of Model/Writer.v ---- *)
    if not (c08_limits_holds cfg journal) then flag "C08_limits_holds";
    if not (rejected_sends_nothing_holds mcalls journal) then flag "rejected_sends_nothing_holds";
    (* a metadata failure whose position the harness could not observe (concurrent callers) may
       pre-empt any later topic error: no verdict to compare then *)
    if not wire then List.iter2 (fun hc mc ->
      if hc.hc_res <> None && not (hc.hc_res = Some "meta" && hc.hc_merr = None)
         && not (verdict_holds cfg mc hc.hc_merr) then flag "verdict_holds") !calls mcalls;
    if not wire && not (c01_nil_holds cfg mcalls journal mlog) then flag "C01_nil_holds";
    if not wire && not (c01_we_holds cfg mcalls journal) then flag "C01_we_holds";
    if not wire && not (c01_compl_holds cfg mcalls journal mcompl) then flag "C01_compl_holds";
    if not wire && !closed_ret && not (c01_compl_total_holds mcalls mcompl) then flag "C01_compl_total_holds";
    if not (c01_no_foreign_holds cfg mlog) then flag "C01_no_foreign_holds";
    if not wire && not (no_early_giveup_holds cfg journal mcompl) then flag "no_early_giveup_holds";
    if not wire && not (c01_dups_holds cfg journal mlog) then flag "C01_dups_holds";
    (* the fake's log of each partition is what its applied attempts appended *)
    List.iter (fun (tp, ids) ->
      let j = List.filter (fun a -> tp_eqb a.a_tp tp) journal in
      if not (log_is_journal j (List.map (fun id -> (tp, find_msg id)) ids)) then flag "log_is_journal") !logs;
    List.iter (fun a -> if a.a_applied && not (List.exists (fun (tp, _) -> tp_eqb tp a.a_tp) !logs) then flag "log_is_journal") journal;
    (* C07 per (goroutine, partition) *)
    let seen_gtp = Hashtbl.create 16 in
    List.iter (fun mc -> List.iter (fun m ->
      let tp = tp_of cfg m in
      let key = (hex_of_n mc.c_g, hex_of_n (Stdlib.fst tp), hex_of_n (Stdlib.snd tp)) in
      if not (Hashtbl.mem seen_gtp key) then begin
        Hashtbl.add seen_gtp key ();
        if not (rejected mc) && not (c07_holds_for cfg mcalls journal mc.c_g tp) then flag "C07_holds"
      end) mc.c_msgs) mcalls;
    (* after Close returned: calls started later return closed (C09_w_after_close) *)
    let after = ref false in
    List.iter (function
      | `Y -> after := true
      | `C c -> if !after && (List.nth !calls c).hc_res <> Some "closed" then flag "C09_after_close"
      | `X -> ()) order;
    (* ---- deterministic scenarios: run the model ---- *)
    if det then begin
      let script : (string, (bool * err option) list ref) Hashtbl.t = Hashtbl.create 8 in
      let tpkey tp = hex_of_n (Stdlib.fst tp) ^ "." ^ hex_of_n (Stdlib.snd tp) in
      List.iter (fun a ->
        let k = tpkey a.ha_tp in
        let r = match Hashtbl.find_opt script k with Some r -> r | None -> let r = ref [] in Hashtbl.add script k r; r in
        r := !r @ [(a.ha_applied, a.ha_seen)]) !atts;
      let dfail = ref None in
      let fail w = if !dfail = None then dfail := Some w in
      let s = ref init in
      let do_step l = match step cfg !s l with Some s' -> s := s'; true | None -> false in
      (* one scheduler move: the first enabled progress label; Attempt takes the recorded reaction *)
      let move ~timers ~skip_ret =
        let ls = progress_labels !s in
        let rec go = function
          | [] -> false
          | l :: r ->
            (match l with
             | Timer (_, _) when not timers -> go r
             | Return _ when skip_ret -> go r
             | Assign _ -> go r
             | Attempt (p, _) ->
               (match step cfg !s l with
                | None -> go r
                | Some _ ->
                  let pw = List.nth !s.s_pws (int_of_nat p) in
                  let k = tpkey pw.pw_tp in
                  (match Hashtbl.find_opt script k with
                   | Some ({ contents = (ap, seen) :: rest } as cell) ->
                     (match reaction_of ap seen with
                      | Some re -> cell := rest; do_step (Attempt (p, re))
                      | None -> fail "unapplied-attempt-acknowledged"; false)
                   | _ -> fail ("model-attempts-more-than-recorded@" ^ k); false))
             | _ -> if do_step l then true else go r) in
        go ls in
      let sync_timers = not cfg.async in
      List.iter (function
        | `C c when !dfail = None ->
          let hc = List.nth !calls c in
          if not (do_step (Call (hc.hc_g, hc.hc_msgs, hc.hc_merr))) then fail "Call-not-admissible"
          else begin
            let mc = List.nth !s.s_calls c in
            (match mc.c_ph with
             | CEntered ->
               if not (do_step (Assign (nat_of_int c))) then fail "Assign-disabled";
               let fuel = ref 100000 in
               (* batchMessages after Close returns io.ErrClosedPipe: the call is over *)
               let over () = match (List.nth !s.s_calls c).c_ph with CReturned _ -> true | _ -> false in
               while !dfail = None && not (over ()) && not (do_step (Return (nat_of_int c))) do
                 decr fuel;
                 if !fuel <= 0 || not (move ~timers:sync_timers ~skip_ret:true) then fail "model-call-cannot-return"
               done
             | _ -> ())
          end
        | `X when !dfail = None ->
          if not (do_step CloseMark) then fail "CloseMark-disabled";
          let fuel = ref 100000 in
          while !dfail = None && !fuel > 0 && move ~timers:true ~skip_ret:false do decr fuel done
        | _ -> ()) order;
      (* async runs: let the pipeline drain even without Close *)
      (let fuel = ref 100000 in
       while !dfail = None && !fuel > 0 && move ~timers:sync_timers ~skip_ret:false do decr fuel done);
      if !dfail = None then begin
        let s = !s in
        (* journal per partition *)
        let proj_att (tp, ids, ap, seen) = (tpkey tp, ids, ap, seen) in
        let mj = List.map (fun a -> proj_att (a.a_tp, List.map (fun m -> hex_of_n m.m_id) a.a_msgs, a.a_applied, a.a_seen)) s.s_journal in
        let rj = List.map (fun a -> proj_att (a.ha_tp, a.ha_ids, a.ha_applied, a.ha_seen)) !atts in
        let keys = List.sort_uniq compare (List.map (fun (k, _, _, _) -> k) (mj @ rj)) in
        List.iter (fun k ->
          let f = List.filter (fun (k', _, _, _) -> k' = k) in
          if f mj <> f rj then fail ("requests-differ@" ^ k)) keys;
        (* call results *)
        List.iteri (fun i hc ->
          match (List.nth_opt s.s_calls i), hc.hc_res with
          | Some mc, Some r ->
            (match mc.c_ph with
             | CReturned mr -> if string_of_result mr <> r then fail (Printf.sprintf "result-differs@call%x" i)
             | _ -> fail (Printf.sprintf "model-call-not-returned@call%x" i))
          | _, None -> fail "call-hung"
          | None, _ -> fail "model-missing-call") !calls;
        (* completions per partition *)
        let ckey (ms : msg list) = match ms with m :: _ -> tpkey (tp_of cfg m) | [] -> "?" in
        let mc = List.map (fun (ms, o) -> (ckey ms, List.map (fun m -> hex_of_n m.m_id) ms, o)) s.s_compl in
        let rc = List.map (fun (ms, o) -> (ckey ms, List.map (fun m -> hex_of_n m.m_id) ms, o)) mcompl in
        let keys = List.sort_uniq compare (List.map (fun (k, _, _) -> k) (mc @ rc)) in
        List.iter (fun k ->
          let f = List.filter (fun (k', _, _) -> k' = k) in
          if f mc <> f rc then fail ("completions-differ@" ^ k)) keys;
        (* logs *)
        List.iter (fun (tp, ids) ->
          if List.map (fun m -> hex_of_n m.m_id) (log_of s tp) <> ids then fail ("log-differs@" ^ tpkey tp)) !logs;
        if !closed_ret && s.s_close <> ClReturned then fail "model-close-not-returned";
        if (not !closed_ret) && List.mem `X order && s.s_close = ClReturned then fail "close-hung-but-model-returns"
      end;
      (match !dfail with Some w -> flag ("det:" ^ w) | None -> ())
    end;
    if !bad = [] then "ok" else "FAIL:" ^ String.concat "," (List.rev !bad)

(* regression scenario of the former defect F3 on the model: a call passes enter(), Close
   marks the writer closed, then the call's batchMessages runs.  Result "<close>:<call>". *)
let op_f3 (cfgw : string) : string =
  let (cfg, _) = parse_cfg cfgw in
  let m = { m_id = n_of_int 1; m_topic = (match cfg.wtopic with None -> Some N0 | Some _ -> None);
            m_size = n_of_int 32; m_part = N0 } in
  let s = ref init in
  let do_step l = match step cfg !s l with Some s' -> s := s'; true | None -> false in
  if not (do_step (Call (n_of_int 1, [m], None))) then "BADWITNESS:Call"
  else if not (do_step CloseMark) then "BADWITNESS:CloseMark"
  else begin
    let _ = do_step (Assign O) in
    let fuel = ref 10000 in
    let rec drain () =
      decr fuel;
      if !fuel > 0 && List.exists (fun l -> match l with Assign _ -> false | _ -> do_step l) (progress_labels !s)
      then drain () in
    drain ();
    let cl = if stuckb cfg !s then "hang" else if !s.s_close = ClReturned then "returned" else "undecided" in
    let a = match (List.nth !s.s_calls 0).c_ph with CReturned r -> string_of_result r | _ -> "hang" in
    cl ^ ":" ^ a
  end

(* Client.Produce response mapping (produce_error / make_time_ms of Model/Writer.v) *)
let int16_of_u16 u = if u >= 32768 then u - 65536 else u
let err_str code = match produce_error code with None -> "-" | Some c -> hex_of_z c
let op_prr lo hi =
  let lo = ioh lo and hi = ioh hi in
  String.concat "," (List.init (hi - lo + 1) (fun i ->
    let code = z_of_int (int16_of_u16 (lo + i)) in
    (* the verdict the LTS is driven with agrees: success iff code 0 *)
    let r = reaction_of_code code in
    if (r_seen r = None) <> (produce_error code = None) then "SPECDIFF" else err_str code))
let op_pr code th bo lat lso recs =
  let recs = List.sort compare (List.map (fun x -> int_of_z (z_of_hex x)) (split ',' recs)) in
  Printf.sprintf "%s:%s:%s:%s:%s:%s" (err_str (z_of_hex code)) (hex_of_z (z_of_hex th)) (hex_of_z (z_of_hex bo))
    (match make_time_ms (z_of_hex lat) with None -> "-" | Some t -> hex_of_z t)
    (hex_of_z (z_of_hex lso))
    (if recs = [] then "." else String.concat "," (List.map (fun i -> hex_of_z (z_of_int i)) recs))

let eval (op : string) (a : string list) : string =
  match op, a with
  | "prr", [lo; hi] -> op_prr lo hi
  | "pr", [code; th; bo; lat; lso; _hasmsg; recs] -> op_pr code th bo lat lso recs
  | "add", [bs; bb; sizes] -> op_add bs bb sizes
  | "size", [k; v] ->
    let f s = if s = "-" then N0 else n_of_hex s in
    hex_of_n (total_size_nohdr (f k) (f v))
  | "wm", [bs; bb; asy; calls] -> op_wm bs bb asy calls
  | "e2e", ws -> op_e2e ws
  (* wire-level family (real Transport on a wire-level fake): the journal holds only what the
     broker fully received, not what the client saw, so only the order / limits / log predicates *)
  | "wire", ws -> op_e2e ~wire:true ws
  (* produce response cut at byte k (wire level): the broker knows for every request whether it
     applied it and whether the complete answer was delivered, so the FULL set of history
     predicates applies (a cut answer = a lost acknowledgement) *)
  | "wcut", ws -> op_e2e ws
  | "trk", [bs; t; margin; reqs] ->
    let bad = List.filter (fun r ->
        not (span_ok (z_of_hex t) (z_of_hex margin) (nat_of_hex bs) (List.map z_of_hex (split ',' r))))
        (String.split_on_char '/' reqs) in
    if bad = [] then "ok" else "FAIL:span"
  | "nwt", [sasl; tls; cid; dnil; idle; ttl] ->
    let d = if dnil = "1" then None else Some { d_sasl = (sasl = "1"); d_tls = (tls = "1"); d_clientID = (cid = "1") } in
    let t = transport_of_writer_config d (z_of_hex idle) (z_of_hex ttl) in
    let b x = if x then "1" else "0" in
    Printf.sprintf "%s:%s:%s:%s:%s:%s" (b t.t_sasl) (b t.t_tls) (if t.t_clientID then "cid" else ".")
      (hex_of_z t.t_idleMs) (hex_of_z t.t_ttlMs) (b t.t_dial)
  | "rtb", [e] -> if retriable_spec (n_of_hex e) then "1" else "0"
  | "nwc", [ma; bs; bb; bt; rt; wt; acks; asy; balnil; codec; topic; lg; elg; nb] ->
    let c = { wc_maxAttempts = z_of_hex ma; wc_batchSize = z_of_hex bs; wc_batchBytes = z_of_hex bb;
              wc_batchTimeoutMs = z_of_hex bt; wc_readTimeoutMs = z_of_hex rt; wc_writeTimeoutMs = z_of_hex wt;
              wc_requiredAcks = z_of_hex acks; wc_async = (asy = "1"); wc_balancerNil = (balnil = "1");
              wc_codec = z_of_hex codec } in
    let o = options_of_writer_config c in
    let cfg = cfg_of_writer_config c None (fun _ -> false) in
    if int_of_nat cfg.batchSize <> int_of_z (eff_batchSize o) || hex_of_n cfg.batchBytes <> hex_of_z (eff_batchBytes o)
       || int_of_nat cfg.maxAttempts <> int_of_z (eff_maxAttempts o) || cfg.async <> c.wc_async then "SPECDIFF"
    else String.concat ":" (List.map hex_of_z
      [eff_batchSize o; eff_batchBytes o; eff_maxAttempts o; eff_batchTimeoutMs o; eff_backoffMinMs o;
       eff_backoffMaxMs o; eff_readTimeoutMs o; eff_writeTimeoutMs o; acks_of_writer_config c])
      ^ ":" ^ (if c.wc_async then "1" else "0") ^ ":" ^ (if c.wc_balancerNil then "rr" else "given")
      ^ ":" ^ hex_of_z c.wc_codec ^ ":" ^ topic ^ ":" ^ lg ^ ":" ^ elg ^ ":" ^ nb
  | "pdl", [rt; wt] ->
    let o = { o_batchSize = Z0; o_batchBytes = Z0; o_maxAttempts = Z0; o_batchTimeoutMs = Z0;
              o_backoffMinMs = Z0; o_backoffMaxMs = Z0; o_readTimeoutMs = z_of_hex rt; o_writeTimeoutMs = z_of_hex wt } in
    hex_of_z (produce_deadline_ms o) ^ ":" ^ (match metadata_deadline_ms o with None -> "-" | Some d -> hex_of_z d)
  | "pto", [rt; wt; delay; asy] ->
    (* one message, BatchSize 1, MaxAttempts 3; the broker applies and answers after [delay] ms, then
       (on a retry) at once: RUN the transition system with the reaction the model derives from the options *)
    let o = { o_batchSize = z_of_int 1; o_batchBytes = Z0; o_maxAttempts = z_of_int 3; o_batchTimeoutMs = Z0;
              o_backoffMinMs = Z0; o_backoffMaxMs = Z0; o_readTimeoutMs = z_of_hex rt; o_writeTimeoutMs = z_of_hex wt } in
    let cfg = cfg_of_options o (asy = "1") (Some N0) retriable_spec in
    let s = ref init in
    let ok = ref true in
    let st l = match step cfg !s l with Some s' -> s := s' | None -> ok := false in
    st (Call (n_of_int 1, [mk_msg 1 (n_of_int 40)], None)); st (Assign O);
    if asy = "1" then st (Return O);
    st (Get O); st (Attempt (O, timed_reaction o (z_of_hex delay)));
    (match (List.nth !s.s_pws 0).pw_snd with
     | Some { sd_ph = PBackoff } -> st (BackoffDone O); st (Attempt (O, AppliedAcked))
     | _ -> ());
    st (Finish O); st (Timer (O, O));
    if asy <> "1" then st (Return O);
    if not !ok then "MODEL-STUCK" else begin
      let res =
        if asy = "1" then (match !s.s_compl with [(_, None)] -> "nil" | [(_, Some e)] -> "we." ^ hex_of_n e | _ -> "?")
        else (match (List.nth !s.s_calls 0).c_ph with CReturned r -> string_of_result r | _ -> "?") in
      Printf.sprintf "%x:%x:%s" (List.length !s.s_journal) (List.length !s.s_log) res
    end
  | "cfgd", [a; b; c; d; e; f; g; h] ->
    let o = { o_batchSize = z_of_hex a; o_batchBytes = z_of_hex b; o_maxAttempts = z_of_hex c;
              o_batchTimeoutMs = z_of_hex d; o_backoffMinMs = z_of_hex e; o_backoffMaxMs = z_of_hex f;
              o_readTimeoutMs = z_of_hex g; o_writeTimeoutMs = z_of_hex h } in
    let cfg = cfg_of_options o false None (fun _ -> false) in
    (* the config record the LTS runs with is built from the defaulted values *)
    if int_of_nat cfg.batchSize <> int_of_z (eff_batchSize o) || hex_of_n cfg.batchBytes <> hex_of_z (eff_batchBytes o)
       || int_of_nat cfg.maxAttempts <> int_of_z (eff_maxAttempts o) then "SPECDIFF"
    else String.concat ":" (List.map hex_of_z
      [eff_batchSize o; eff_batchBytes o; eff_maxAttempts o; eff_batchTimeoutMs o; eff_backoffMinMs o;
       eff_backoffMaxMs o; eff_readTimeoutMs o; eff_writeTimeoutMs o])
  | "f3", [c] -> op_f3 c
  | _ -> "BADCASE"

let () = run_lines (fun line ->
  let line = match String.index_opt line '|' with Some i -> String.sub line 0 i | None -> line in
  match words line with
  | id :: op :: args -> id ^ " " ^ (try eval op args with e -> "EXN:" ^ Printexc.to_string e)
  | _ -> "? BADLINE")
