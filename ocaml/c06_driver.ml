(* c06_driver: evaluate the extracted ConnMux / TransportPool models on the harness's cases.
   input  line: <id> <op> <args...>            (for mux / tr the checker appends want=<classes|HANG>)
   output line: <id> <model result>
   wr  : one waitResponse step on a given pre-state (step-level differential)
   mux : linearisation search — is there a model run of ConnMux whose observable projection
         (order of requests reaching the broker, order of complete answer frames, per-call
         outcome class) equals the recorded history?  prints "<classes> own" or NORUN
   tr  : the same for TransportPool (per-connection journals of requests and answers)
   avopen / avstale : regression of the former ApiVersions defect (fixed by /repo 9708961): a
         time-out inside the ApiVersions body must close the connection *)
open C06_model
open C06_io

let nat = nat_of_int
let hexi s = int_of_string ("0x" ^ s)
let kv (args : string list) : (string * string) list =
  List.map (fun w -> match String.index_opt w '=' with
    | Some i -> (String.sub w 0 i, String.sub w (i + 1) (String.length w - i - 1))
    | None -> (w, "")) args
let get k l = try List.assoc k l with Not_found -> ""
let ints_of s = if s = "." || s = "" || s = "-" then [] else List.map hexi (String.split_on_char ',' s)
let has c s = String.contains s c

(* ------------------------------------------------------------------ wr *)
let thread_waiting own = { ph = Waiting; knd = KDo; rid = own; seqn = z_of_int 1; reached = true; got = None }

let eval_wr own inflight head endk after =
  let own = z_of_hex own in
  let w = if head = "-" then [] else [ { fid = z_of_hex head; fown = nat 9 } ] in
  let s0 = { init with inflight = z_of_hex inflight; wire = w;
             threads = [ (nat 1, thread_waiting own) ]; next_id = own; nsend = z_of_int 1 } in
  let t = nat 1 in
  let st l s = match step s l with Some s' -> s' | None -> failwith "disabled" in
  let fin outcome s =
    Printf.sprintf "%s %s %s %s" outcome (hex_of_z s.inflight) (if s.closed then "1" else "0")
      (match s.rlock with Some _ -> "1" | None -> "0") in
  try
    let s1 = st (LockR t) s0 in
    match w with
    | [] -> fin "close" (st (if endk = "timeout" then Deadline t else PeekFail t) s1)
    | f :: _ ->
      if hex_of_z f.fid = hex_of_z own then fin "own" (st (PeekOwn t) s1)
      else begin
        let s2 = st (PeekOther t) s1 in
        match (thr s2 t).ph with
        | Failed ENoProgress -> fin "noprog" s2
        | Waiting ->
          if after = "leave" then begin
            (* the other in-flight operations leave between two iterations *)
            let s3 = set_inflight s2 (z_of_int 1) in
            let s4 = st (PeekOther t) (st (LockR t) s3) in
            match (thr s4 t).ph with
            | Failed ENoProgress -> fin "yield+noprog" s4
            | _ -> "MODEL-UNEXPECTED"
          end else "yield-forever"
        | _ -> "MODEL-UNEXPECTED"
      end
  with Failure _ -> "MODEL-DISABLED"

(* ------------------------------------------------------------------ mux *)
let ph_tag = function
  | Idle -> "I" | Entered -> "E" | WLocked -> "W" | Waiting -> "w" | Peeking -> "p"
  | Reading -> "r" | InBatch -> "b"
  | Done ROk -> "Do" | Done RKafka -> "Dk" | Done RKafkaLeft -> "Dl" | Done RFatal -> "Df"
  | Failed EWrite -> "Fw" | Failed EPeek -> "Fp" | Failed ENoProgress -> "Fn" | Failed ERead -> "Fr"

let finished = function Done _ | Failed _ -> true | _ -> false

let search_mux tn kinds snd arr env want =
  let allow_d = has 'd' env and allow_c = has 'c' env and allow_e = has 'e' env in
  let hang = (want = "HANG") in
  let wantc = if hang then [||] else Array.of_list (ints_of want) in
  let snd = Array.of_list snd and arr = Array.of_list arr in
  let tids = List.init tn (fun i -> i + 1) in
  let kind_of i = match List.nth kinds (i - 1) with "av" -> KApiVersions | "batch" -> KBatch | _ -> KDo in
  let code s i = int_of_nat (outcome_code (thr s (nat i)).ph) in
  let key s si ai =
    let b = Buffer.create 64 in
    List.iter (fun i -> let th = thr s (nat i) in
      Buffer.add_string b (ph_tag th.ph); Buffer.add_string b (hex_of_z th.rid); Buffer.add_char b ';') tids;
    Buffer.add_string b (hex_of_z s.inflight);
    List.iter (fun f -> Buffer.add_char b ','; Buffer.add_string b (string_of_int (int_of_nat f.fown))) s.wire;
    Buffer.add_string b (match s.rlock with Some t -> "R" ^ string_of_int (int_of_nat t) | None -> "R-");
    Buffer.add_string b (match s.wlock with Some t -> "W" ^ string_of_int (int_of_nat t) | None -> "W-");
    Buffer.add_string b (if s.closed then "c" else "o");
    Buffer.add_string b (if s.misaligned then "m" else "a");
    Buffer.add_string b (Printf.sprintf "|%d|%d" si ai);
    Buffer.contents b in
  let ok_partial s =
    hang || List.for_all (fun i -> let th = thr s (nat i) in
      not (finished th.ph) || code s i = wantc.(i - 1)) tids in
  let final s si ai =
    si = Array.length snd && ai = Array.length arr &&
    (if hang then begin
        let waiting = List.filter (fun i -> match (thr s (nat i)).ph with Waiting | Peeking -> true | _ -> false) tids in
        let busy = List.exists (fun i -> match (thr s (nat i)).ph with
            | Reading | InBatch | Entered | WLocked -> true | _ -> false) tids in
        (not busy) && List.length waiting >= 2 && (not s.misaligned) &&
        (match s.wire with
         | f :: _ -> List.for_all (fun i -> hex_of_z (thr s (nat i)).rid <> hex_of_z f.fid) waiting
         | [] -> false)
      end else
        List.for_all (fun i -> finished (thr s (nat i)).ph && code s i = wantc.(i - 1)) tids) in
  let visited = Hashtbl.create 4096 in
  let in_snd i = Array.exists (fun x -> x = i - 1) snd in
  let rec go s si ai =
    let k = key s si ai in
    if Hashtbl.mem visited k then false
    else begin
      Hashtbl.add visited k ();
      if final s si ai then true
      else begin
        let try_l l si' ai' = match step s l with
          | Some s' -> ok_partial s' && go s' si' ai'
          | None -> false in
        let faults = allow_c || allow_d || s.closed in
        (* the broker's next complete answer frame *)
        (ai < Array.length arr &&
         (let t = nat (arr.(ai) + 1) in
          if s.closed then go s si (ai + 1)          (* written after the client closed: never seen *)
          else if existsb (fun x -> int_of_nat x = int_of_nat t) s.answered then
            (* duplicate answer: the broker repeats a frame (outside the model's honest broker) *)
            (reached_of s t && go (set_wire s (s.wire @ [ { fid = (thr s t).rid; fown = t } ])) si (ai + 1))
          else try_l (Arrive t) si (ai + 1)))
        || List.exists (fun i ->
            let t = nat i in
            try_l (Enter (t, kind_of i)) si ai
            || try_l (LockW t) si ai
            || (si < Array.length snd && snd.(si) = i - 1 &&
                (try_l (Send (t, true, true)) (si + 1) ai
                 || (faults && try_l (Send (t, false, true)) (si + 1) ai)))
            || ((not (in_snd i)) && faults && try_l (Send (t, false, false)) si ai)
            || try_l (LockR t) si ai
            || try_l (PeekOwn t) si ai
            || try_l (PeekOther t) si ai
            || try_l (PeekGarbage t) si ai
            || (faults && try_l (PeekFail t) si ai)
            || (allow_d && try_l (Deadline t) si ai)
            || try_l (ReadDone (t, ROk)) si ai
            || (allow_e && try_l (ReadDone (t, RKafka)) si ai)
            || (allow_c && try_l (ReadDone (t, RFatal)) si ai)
            || try_l (BatchOpen t) si ai
            || try_l (BatchClose (t, ROk)) si ai
            || (allow_e && try_l (BatchClose (t, RKafka)) si ai)
            || (allow_c && try_l (BatchClose (t, RFatal)) si ai)) tids
        || (s.closed && try_l Lost si ai)
      end
    end
  and reached_of s t = (thr s t).reached in
  if go init 0 0 then (if hang then "HANG" else want ^ " own") else "NORUN"

(* ------------------------------------------------------------------ tr *)
let parse_journal s : (int * int list) list =
  if s = "" || s = "-" || s = "." then [] else
    List.map (fun part -> match String.split_on_char ':' part with
      | [c; l] -> (hexi c, if l = "" then [] else List.map hexi (String.split_on_char '.' l))
      | _ -> failwith "journal") (String.split_on_char ';' s)

let search_tr tn conns ans env want =
  let allow_f = has 'f' env and allow_c = has 'c' env and allow_i = has 'i' env in
  let wantc = Array.of_list (ints_of want) in
  let rqs = List.init tn (fun i -> i) in
  let jreq j = try List.assoc j conns with Not_found -> [] in
  let jans j = try List.assoc j ans with Not_found -> [] in
  let journals = List.sort_uniq compare (List.map fst conns @ List.map fst ans) in
  let journal_of r = List.find_opt (fun j -> List.mem r (jreq j)) journals in
  let cst_tag = function CLoop -> "L" | CBusy r -> "B" ^ string_of_int (int_of_nat r)
    | CSent (r, _) -> "S" ^ string_of_int (int_of_nat r) | CResolved -> "R" | CClosed -> "X" in
  let res_tag = function Some (RVal f) -> "v" ^ string_of_int (int_of_nat f.fown) | Some RNil -> "n" | Some RErr -> "e" | None -> "-" in
  let q_tag q = (match q.qph with QIdle -> "I" | QHold c -> "H" ^ string_of_int (int_of_nat c) | QAwait -> "A"
                 | QDone r -> "D" ^ res_tag (Some r)) ^ res_tag q.prom in
  (* search state: model state, binding model conn -> journal, positions in each journal *)
  let key s bind preq pans =
    let b = Buffer.create 128 in
    List.iter (fun r -> Buffer.add_string b (q_tag (rq s (nat r))); Buffer.add_char b ';') rqs;
    for c = 0 to int_of_nat s.nconn - 1 do
      let cc = cn s (nat c) in
      Buffer.add_string b (cst_tag cc.cst); Buffer.add_string b (string_of_int (int_of_nat cc.cgrp));
      Buffer.add_string b (if cc.timer then "t" else "f");
      List.iter (fun f -> Buffer.add_string b ("," ^ string_of_int (int_of_nat f.fown) ^ "." ^ hex_of_z f.fid)) cc.cwire;
      Buffer.add_string b (string_of_int (List.length cc.bsent));
      Buffer.add_string b (match List.assoc_opt c bind with Some j -> "j" ^ string_of_int j | None -> "j-");
      Buffer.add_char b ';'
    done;
    List.iter (fun c -> Buffer.add_string b ("i" ^ string_of_int (int_of_nat c))) s.idle;
    List.iter (fun g -> Buffer.add_string b ("g" ^ string_of_int (int_of_nat g))) s.gclosed;
    List.iter (fun (j, p) -> Buffer.add_string b (Printf.sprintf "|%d:%d" j p)) preq;
    List.iter (fun (j, p) -> Buffer.add_string b (Printf.sprintf "/%d:%d" j p)) pans;
    Buffer.contents b in
  let pos l j = try List.assoc j l with Not_found -> 0 in
  let setpos l j v = (j, v) :: List.remove_assoc j l in
  let ok_partial s = List.for_all (fun r ->
      let q = rq s (nat r) in
      match q.qph with QDone _ -> int_of_nat (q_outcome q) = wantc.(r) && q_own (nat r) q | _ -> true) rqs in
  let final s preq pans =
    List.for_all (fun j -> pos preq j = List.length (jreq j) && pos pans j = List.length (jans j)) journals &&
    List.for_all (fun r -> let q = rq s (nat r) in
                   (match q.qph with QDone _ -> true | _ -> false) &&
                   int_of_nat (q_outcome q) = wantc.(r) && q_own (nat r) q) rqs in
  let visited = Hashtbl.create 65536 in
  let budget = ref 30000 in
  let rec go s bind preq pans =
    let k = key s bind preq pans in
    if Hashtbl.mem visited k then false
    else begin
      if !budget <= 0 then raise Exit;
      Hashtbl.add visited k (); decr budget;
      if final s preq pans then true
      else begin
        let try_l l bind' preq' pans' = match pstep s l with
          | Some s' -> ok_partial s' && go s' bind' preq' pans'
          | None -> false in
        let same l = try_l l bind preq pans in
        let nc = int_of_nat s.nconn in
        let conns_l = List.init nc (fun c -> c) in
        List.exists (fun r ->
            let t = nat r in
            List.exists (fun g -> same (Grab (t, nat g)) || same (Connect (t, nat g))
                                  || (allow_c && same (ConnectOrphan (t, nat g)))) [0; 1]
            || ((allow_f || allow_c || allow_i) && same (ConnectFail t))   (* i: the pool was shut down (CloseIdleConnections cancels its context) *)
            || same (HandOff t) || same (Await t)
            || ((allow_f || allow_c) && same (Cancel t))) rqs
        || List.exists (fun c ->
            let cc = cn s (nat c) in
            let jb = List.assoc_opt c bind in
            (* a request reaches the broker: it must be the next one of the journal bound to c *)
            (match cc.cst with
             | CBusy r ->
               let r = int_of_nat r in
               (match journal_of r with
                | Some j ->
                  let bound_ok = (match jb with Some j' -> j' = j
                                                | None -> not (List.exists (fun (_, j') -> j' = j) bind)) in
                  bound_ok && pos preq j < List.length (jreq j) && List.nth (jreq j) (pos preq j) = r &&
                  try_l (CWrite (nat c, true)) ((c, j) :: List.remove_assoc c bind) (setpos preq j (pos preq j + 1)) pans
                | None ->
                  (* written, but the connection was torn down before the broker journaled it:
                     only acceptable for a call that ended with an error *)
                  wantc.(r) = 3 && same (CWrite (nat c, true)))
               || (allow_f && same (CWrite (nat c, false)))
             | _ -> false)
            || (match jb with
                | Some j when pos pans j < List.length (jans j) ->
                  let r = List.nth (jans j) (pos pans j) in
                  let pans' = setpos pans j (pos pans j + 1) in
                  if cc.cst = CClosed then go s bind preq pans'   (* written after the client closed *)
                  else (match List.find_opt (fun (_, o) -> int_of_nat o = r) cc.bsent with
                      | Some (k, _) -> try_l (BAnswer (nat c, k)) bind preq pans'
                      | None -> false)
                | _ -> false)
            || same (CRead (nat c))
            || (allow_f && same (CReadFail (nat c)))
            || same (CRelease (nat c))
            || (allow_i && same (IdleTimer (nat c)))) conns_l
        || (allow_i && List.exists (fun g ->
              (not (List.exists (fun x -> int_of_nat x = g) s.gclosed)) && same (CloseIdle (nat g))) [0; 1])
      end
    end in
  (* connections opened (and released) before the scenario: the pool was warmed up *)
  let warm_sets = [ []; [0]; [1]; [0; 1]; [1; 1]; [0; 0]; [0; 1; 1]; [0; 0; 1] ] in
  let start ws =
    let s = List.fold_left (fun (s, n) g ->
        match pstep s (ConnectOrphan (nat (100 + n), nat g)) with
        | Some s' -> (s', n + 1) | None -> (s, n + 1)) (pinit, 0) ws in
    fst s in
  let exhausted = ref false in
  if List.exists (fun ws -> Hashtbl.reset visited; budget := 1500000;
                   try go (start ws) [] [] [] with Exit -> (exhausted := true; false)) warm_sets
  then want ^ " own" else if !exhausted then "NORUN-BUDGET" else "NORUN"

(* ------------------------------------------------------------------ av *)
let av_prefix = [ Enter (nat 1, KApiVersions); LockW (nat 1); Send (nat 1, true, true); Arrive (nat 1);
                  LockR (nat 1); PeekOwn (nat 1); Deadline (nat 1) ]
(* the connection is closed by then: the next call's write fails *)
let av_next = [ Enter (nat 2, KDo); LockW (nat 2); Send (nat 2, false, false) ]

let eval_av () =
  match run init av_prefix with
  | None -> "MODEL-DISABLED"
  | Some s ->
    let averr = if int_of_nat (outcome_code (thr s (nat 1)).ph) = 4 then 1 else 0 in
    let closed = if s.closed then 1 else 0 in
    (* on a closed connection the model has no step that hands the next call any bytes *)
    let garbage_possible =
      (match run s [ Enter (nat 2, KDo); LockW (nat 2); Send (nat 2, true, true) ] with Some _ -> true | None -> false)
      || s.misaligned in
    match run s av_next with
    | None -> Printf.sprintf "averr=%d closed=%d next=disabled" averr closed
    | Some s2 ->
      Printf.sprintf "averr=%d closed=%d next=%d%s" averr closed
        (int_of_nat (outcome_code (thr s2 (nat 2)).ph)) (if garbage_possible then " GARBAGE-POSSIBLE" else "")


(* ------------------------------------------------------------------ trlate *)
(* the extracted monitors of Model/TransportPool.v on the recorded wire journal *)
let eval_trlate ?(cut = false) m =
  let items s = if s = "." || s = "" then [] else String.split_on_char ',' s in
  let f3 x = match String.split_on_char ':' x with [a; b; c] -> (a, b, c) | _ -> failwith "journal item" in
  let reqs = List.map (fun x -> let (c, i, k) = f3 x in
      { jq_conn = nat (hexi c); jq_id = z_of_hex i; jq_call = (if k = "-" then None else Some (nat (hexi k))) })
      (items (get "req" m)) in
  let anss = List.map (fun x -> let (c, i, k) = f3 x in
      { ja_conn = nat (hexi c); ja_id = z_of_hex i; ja_call = nat (hexi k) }) (items (get "ans" m)) in
  let res = List.map (fun x -> match String.split_on_char ':' x with
      | [c; g] -> { jr_class = nat (hexi c); jr_got = (if g = "-" || g = "?" then None else Some (nat (hexi g))) }
      | _ -> failwith "res item") (items (get "res" m)) in
  let b v = if v then "ok" else "BAD" in
  if cut then
    Printf.sprintf "cut=%s deliv=%s hang=%s ids=%s fail=%s" (b (mon_cut res)) (b (mon_delivery res anss))
      (b (mon_nohang res)) (b (mon_ids reqs)) (b (mon_fail res reqs))
  else
  Printf.sprintf "deliv=%s ids=%s fail=%s" (b (mon_delivery res anss)) (b (mon_ids reqs)) (b (mon_fail res reqs))


(* ------------------------------------------------------------------ trsplit *)
let eval_trsplit m =
  let items s = if s = "." || s = "" then [] else String.split_on_char ',' s in
  let asked = List.map (fun x -> match String.split_on_char ':' x with
      | [a; b] -> (z_of_hex a, z_of_hex b) | _ -> failwith "q item") (items (get "q" m)) in
  let qas s = List.map (fun x -> match String.split_on_char ':' x with
      | [a; b; c] -> { qa_k1 = z_of_hex a; qa_k2 = z_of_hex b; qa_val = z_of_hex c } | _ -> failwith "qa item") (items s) in
  if mon_split asked (qas (get "bq" m)) (qas (get "d" m)) then "split=ok" else "split=BAD"

let eval (op : string) (a : string list) : string =
  match op, a with
  | "wr", [own; inflight; head; endk; after] -> eval_wr own inflight head endk after
  | "mux", _ ->
    let m = kv a in
    search_mux (hexi (get "T" m)) (String.split_on_char ',' (get "kinds" m))
      (ints_of (get "snd" m)) (ints_of (get "arr" m)) (get "env" m) (get "want" m)
  | "tr", _ ->
    let m = kv a in
    search_tr (hexi (get "T" m)) (parse_journal (get "conns" m)) (parse_journal (get "ans" m))
      (get "env" m) (get "want" m)
  | ("avopen" | "avstale"), _ -> eval_av ()
  | "trlate", _ -> eval_trlate (kv a)
  | "trcut", _ -> eval_trlate ~cut:true (kv a)
  | "trsplit", _ -> eval_trsplit (kv a)
  | "muxcut", _ ->
    let m = kv a in
    let res = ints_of (get "res" m) in
    let pc, pn = (match String.split_on_char ':' (get "post" m) with [c; n] -> (hexi c, hexi n) | _ -> (0, 1)) in
    let hang = List.exists (fun c -> c = 5) res in
    let cut = List.for_all (fun c -> c = 3 || c = 4 || c = 5) res in
    let post = mon_conn_cut [] (nat pc) (nat pn) in
    let all = mon_conn_cut (List.map nat res) (nat pc) (nat pn) in
    let b v = if v then "ok" else "BAD" in
    (* the history must also be a run of the ConnMux model *)
    let lin = if hang then "skip" else
        (match search_mux (hexi (get "T" m)) (String.split_on_char ',' (get "kinds" m)) (ints_of (get "snd" m)) []
                 (get "env" m) (get "res" m) with "NORUN" -> "NORUN" | _ -> "ok") in
    ignore all;
    Printf.sprintf "cut=%s hang=%s post=%s lin=%s" (b cut) (b (not hang)) (b post) lin
  | "batchrd", _ ->
    let m = kv a in
    if get "close" m = "" then "own=BAD acct=BAD serve=BAD" else begin
      let cc = nat (hexi (get "close" m)) in
      let closed = (get "closed" m = "1") in
      let res = List.map nat (ints_of (get "res" m)) in
      let b v = if v then "ok" else "BAD" in
      Printf.sprintf "own=%s acct=%s serve=%s" (b (mon_batch_own res))
        (b (mon_batch_acct cc (z_of_hex (get "unread" m)) closed)) (b (mon_batch_serve cc closed res))
    end
  | "poolx", _ ->
    let m = kv a in
    if get "res" m = "" then "own=BAD ok=BAD" else begin
      let res = List.map nat (ints_of (get "res" m)) in
      let b v = if v then "ok" else "BAD" in
      Printf.sprintf "own=%s ok=%s" (b (mon_batch_own res)) (b (mon_all_served res))
    end
  | "trtail", _ ->
    let m = kv a in
    let res = List.map nat (ints_of (get "res" m)) in
    let items s = if s = "." || s = "" then [] else String.split_on_char ',' s in
    let reqs = List.map (fun x -> match String.split_on_char ':' x with
        | [c; i; _] -> { jq_conn = nat (hexi c); jq_id = z_of_hex i; jq_call = None } | _ -> failwith "req item") (items (get "req" m)) in
    let b v = if v then "ok" else "BAD" in
    Printf.sprintf "own=%s serve=%s ids=%s" (b (mon_batch_own res)) (b (mon_all_served res)) (b (mon_ids reqs))
  | "trmeta", _ ->
    let m = kv a in
    if mon_recover (get "meta" m = "1") (get "write" m = "1") (nat (hexi (get "count" m))) then "recover=ok" else "recover=BAD"
  | "trpage", _ ->
    let f = get "foreign" (kv a) in
    if f <> "" && mon_pure (zlist_of_csv f) then "pure=ok" else "pure=BAD"
  | ("muxbig" | "trbig"), _ -> "skip"
  | _ -> "BADCASE"

let () =
  run_lines (fun line ->
    match words line with
    | id :: op :: args -> (try id ^ " " ^ eval op args with e -> id ^ " MODEL-EXN:" ^ Printexc.to_string e)
    | _ -> "? BADLINE")
