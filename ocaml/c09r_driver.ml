(* c09r_driver: judge the timelines recorded by harness/cmd/c09r with the extracted monitors of
   Model/Lifecycle.v and run the extracted model for the deterministic scenarios.
   input  line: <id> <op> <args...>
   output line: <id> <model result>
   ops:  e2e <mode> <cm> ; <tok>,...      monitors on the timeline: ok | FAIL:<names joined by +>
         det <mode> <cm> <N> <k> <j> <qcap>  the model's run: result list
         cac <cm> <n>                       possible outcomes of CommitMessages after Close *)
open C09r_model
open C09r_io

let nat_of_hex s = nat_of_int (int_of_string ("0x" ^ s))

let kind_of = function "f" -> KFetch | "r" -> KRead | "m" -> KCommit | "t" | "w" -> KTrip | s -> failwith ("kind " ^ s)
let res_of = function
  | "msg" -> RMsg | "nil" -> RNil | "eof" -> REOF | "cp" -> RClosedPipe | "ctx" -> RCtx | "oth" -> ROther
  | s -> failwith ("res " ^ s)
let str_of_res = function
  | RMsg -> "msg" | RNil -> "nil" | REOF -> "eof" | RClosedPipe -> "cp" | RCtx -> "ctx" | ROther -> "oth"
let api_of = function
  | "hb" -> AHb | "oc" -> ACommit | "fe" -> AFetch | "jo" -> AJoin | "sy" -> ASync | "of" -> AOfetch
  | "lv" -> ALeave | "fc" -> ACoord | "lo" -> AOffsets | _ -> AMeta

let tail s n = String.sub s n (String.length s - n)

let event_of (tok : string) : event =
  if tok = "" then failwith "empty token" else
  match tok.[0] with
  | 'c' -> (match String.split_on_char ':' (tail tok 1) with
            | [c; k] -> ECall (nat_of_hex c, kind_of k) | _ -> failwith ("tok " ^ tok))
  | 'x' -> ECtx (nat_of_hex (tail tok 1))
  | 'r' -> (match String.split_on_char ':' (tail tok 1) with
            | [c; r] -> ERet (nat_of_hex c, res_of r) | _ -> failwith ("tok " ^ tok))
  | 'C' -> EClose (nat_of_hex (tail tok 1))
  | 'D' -> EClosed (nat_of_hex (tail tok 1))
  | 'q' -> (match String.split_on_char ':' (tail tok 1) with
            | [a; m] -> EReq (api_of a, nat_of_hex m) | _ -> failwith ("tok " ^ tok))
  | 'j' -> EJoined (nat_of_hex (tail tok 1))
  | _ -> failwith ("tok " ^ tok)

let eval_e2e (args : string list) : string =
  match args with
  | mode :: _cm :: ";" :: rest ->
    let g = (mode = "g") in
    let toks = match rest with [] -> [] | [ "." ] -> [] | [ t ] -> String.split_on_char ',' t | _ -> failwith "e2e args" in
    let toks = List.filter (fun t -> t <> "" && t.[0] <> 'a') toks in   (* a<api>: the fake wrote a delayed answer *)
    let h = List.rev (List.map event_of toks) in      (* newest first *)
    let l = [ ("late_fetch", mon_late_fetch g h); ("late_commit", mon_late_commit g h);
              ("silent", mon_silent h); ("leave", mon_leave h) ] in
    (* late_fetch / late_commit together are mon_after_close *)
    let l = if mon_after_close g h = (mon_late_fetch g h && mon_late_commit g h) then l else ("after_close_split", false) :: l in
    (match List.filter (fun (_, b) -> not b) l with
     | [] -> "ok"
     | bad -> "FAIL:" ^ String.concat "+" (List.map fst bad))
  | _ -> failwith "e2e args"

(* ---- deterministic run of the model ---- *)
exception Stuck of string
let n i = nat_of_int i
let run_labels (s : state) (ls : label list) : state =
  List.fold_left (fun s l -> match step s l with Some s' -> s' | None -> raise (Stuck "label not enabled")) s ls
let call_res (s : state) (c : int) : string =
  match List.nth_opt s.calls c with
  | Some k -> (match k.k_ph with PDone r -> str_of_res r | _ -> "blocked")
  | None -> "nocall"
let rec rep k x = if k <= 0 then [] else x :: rep (k - 1) x

let eval_det (args : string list) : string =
  match args with
  | [mode; cm; sN; sk; sj; sq] ->
    let nn = int_of_string ("0x" ^ sN) and k = int_of_string ("0x" ^ sk)
    and j = int_of_string ("0x" ^ sj) and q = int_of_string ("0x" ^ sq) in
    let group = (mode = "g") in
    let sync = (cm = "s") in
    let s = ref (init (if group then cfg_g sync (n q) else cfg_p (n q))) in
    let out = ref [] in
    let go ls = s := run_labels !s ls in
    let ncalls () = List.length !s.calls in
    (* the partition reader (fetcher 0) delivers one batch of N messages *)
    let feed () =
      go [LFDial (n 0, DOk); LFLookup (n 0, DOk); LFOffsets (n 0, DOk); LFFetch (n 0)];
      if nn > 0 then (go [LFResp (n 0, FData (n nn))]; go (rep nn (LFPush (n 0))); go [LFBatchEnd (n 0, false)])
      else go [LFResp (n 0, FAgain)] in
    let fetch_one () =
      let c = ncalls () in
      go [LCall KFetch; LFLock (n c)];
      if call_res !s c = "blocked" then
        (match !s.msgs with
         | _ :: _ -> go [LFRecv (n c)]
         | [] -> if !s.mclosed then go [LFEof (n c)] else (go [LCtx (n c); LRetCtx (n c)]));
      out := call_res !s c :: !out in
    (try
      if group then begin
        go [LGCoord GOk; LGJoin (JOk (n 0)); LGSync GOk; LGOfetch GOk; LRNextCall; LRNextGen; LRSub (n 1); LRStartC; LRStartU];
        feed ();
        for _ = 1 to k do fetch_one () done;
        if k > 0 then begin
          let c = ncalls () in
          go [LCall KCommit; LCCheck (n c); LCEnq (n c)];
          if sync then go [LClTake (n 1); LClCommit (n 1, true); LCReply (n c)] else go [LClTake (n 1)];
          out := call_res !s c :: !out
        end;
        go [LCloseCall; LCloseStep (n 0); LCloseStep (n 0); LCloseStep (n 0); LFSeeCancel (n 0); LCloseStep (n 0)];
        go [LRNextCall; LRNextCtx; LRCgClose; LGWaitClosed; LGClose; LFnSeeDone (n 0); LFnHandler (n 0)];
        go [LFnSeeDone (n 1)];
        (match List.nth_opt !s.fns 1 with
         | Some f -> (match f.n_ph with NTry _ -> go [LClCommit (n 1, true)] | _ -> ())
         | None -> ());
        go [LFnHandler (n 1); LFnSeeDone (n 2); LUnCancel (n 2); LUnJoin (n 2); LFnHandler (n 2); LGJoined;
            LGLeaveCoord true; LGLeaveReq; LRCgWait; LRDone; LCloseStep (n 0); LCloseStep (n 0)];
        out := "D" :: !out;
        for _ = 1 to j do fetch_one () done
      end else begin
        if k > 0 then begin
          (* the first FetchMessage starts the partition reader *)
          let c = ncalls () in
          go [LCall KFetch; LFLock (n c)];
          feed ();
          (match !s.msgs with _ :: _ -> go [LFRecv (n c)] | [] -> go [LCtx (n c); LRetCtx (n c)]);
          out := call_res !s c :: !out;
          for _ = 2 to k do fetch_one () done
        end;
        go [LCloseCall; LCloseStep (n 0); LCloseStep (n 0); LCloseStep (n 0)];
        if k > 0 then go [LFSeeCancel (n 0)];
        go [LCloseStep (n 0); LCloseStep (n 0); LCloseStep (n 0)];
        out := "D" :: !out;
        for _ = 1 to j do fetch_one () done;
        let c = ncalls () in
        go [LCall KCommit];
        out := call_res !s c :: !out
      end;
      if close_returned !s then String.concat "," (List.rev !out) else "MODEL:close-not-returned"
    with Stuck m -> "MODEL-STUCK:" ^ String.concat "," (List.rev !out))
  | _ -> failwith "det args"

(* CommitMessages after Close returned: which outcomes does the model allow? *)
let eval_cac (args : string list) (go_res : string) : string =
  match args with
  | [cm; _n] ->
    let sync = (cm = "s") in
    let s0 = run_labels (init (cfg_g sync (n 4)))
        [LGCoord GOk; LGJoin (JOk (n 0)); LGSync GOk; LGOfetch GOk; LCloseCall;
         LCloseStep (n 0); LCloseStep (n 0); LCloseStep (n 0); LCloseStep (n 0);
         LRNextCall; LRNextCtx; LRCgClose; LGPublishAbort; LGClose; LFnSeeDone (n 0); LFnHandler (n 0); LGJoined;
         LGLeaveCoord true; LGLeaveReq; LRCgWait; LRDone; LCloseStep (n 0); LCloseStep (n 0); LCall KCommit] in
    let allowed = ref [] in
    let add r = if not (List.mem r !allowed) then allowed := r :: !allowed in
    (* the only step of the new call is its non-blocking closed check *)
    (match step s0 (LCCheck (n 0)) with Some s -> add (call_res s 0) | None -> ());
    (match step s0 (LCEnq (n 0)) with Some _ -> add "enqueue" | None -> ());
    (match String.split_on_char ':' go_res with
     | [cp; cx; nl; ot] ->
       let v x = int_of_string ("0x" ^ x) in
       let ok = (v cp = 0 || List.mem "cp" !allowed) && (v cx = 0 || List.mem "ctx" !allowed)
                && (v nl = 0 || List.mem "nil" !allowed) && (v ot = 0 || List.mem "oth" !allowed) in
       if ok then go_res else "MODEL-IMPOSSIBLE:allowed=" ^ String.concat "/" (List.sort compare !allowed)
     | _ -> "MODEL:allowed=" ^ String.concat "/" (List.sort compare !allowed))
  | _ -> failwith "cac args"

(* failed re-join: join as member 0, the heartbeat fails (generation ends), the re-join carrying the
   member id is answered with an error, Close: how many LeaveGroup requests for member 1 (= id 0)? *)
let eval_nlv (_args : string list) : string =
  try
    let s = run_labels (init (cfg_g true (n 4)))
        [LGCoord GOk; LGJoin (JOk (n 0)); LGSync GOk; LGOfetch GOk; LRNextCall; LRNextGen; LRSub (n 0); LRStartC; LRStartU;
         LHbTick (n 0, false); LFnHandler (n 0); LGWaitDone; LGClose;
         LFnSeeDone (n 1); LFnHandler (n 1); LFnSeeDone (n 2); LUnCancel (n 2); LUnJoin (n 2); LFnHandler (n 2); LGJoined;
         LGCoord GOk; LGJoin (JErr GOther); LGLeaveCoord true; LGLeaveReq;
         LCloseCall; LCloseStep (n 0); LCloseStep (n 0); LCloseStep (n 0); LCloseStep (n 0);
         LRNextCall; LRNextCtx; LRCgClose; LGOfferAbort; LRCgWait; LRDone; LCloseStep (n 0); LCloseStep (n 0)] in
    let lv = List.length (List.filter (fun e -> match e with EReq (ALeave, m) -> int_of_nat m = 1 | _ -> false) s.hist) in
    if close_returned s then Printf.sprintf "lv=%x" lv else "MODEL:close-not-returned"
  with Stuck m -> "MODEL-STUCK"

(* a generation that ends on its own (failed heartbeat) while another accounted function still runs:
   gen.close() must wait for it, so no re-join and no return of Close before that function returned *)
let eval_gse (_args : string list) : string =
  try
    let s = run_labels (init (cfg_g true (n 4)))
        [LGCoord GOk; LGJoin (JOk (n 0)); LGSync GOk; LGOfetch GOk; LRNextCall; LRNextGen; LRSub (n 0); LRStartC; LRStartU;
         LHbTick (n 0, false); LFnHandler (n 0); LGWaitDone; LGClose;
         LCloseCall; LCloseStep (n 0); LCloseStep (n 0); LCloseStep (n 0); LCloseStep (n 0);
         LRNextCall; LRNextCtx; LRCgClose] in
    let waits = (match s.gph with GCloseWait _ -> true | _ -> false) in
    let joined_blocked = (step s LGJoined = None) in
    let no_join = (step s (LGCoord GOk) = None && step s (LGJoin (JOk (n 0))) = None) in
    let close_blocked = (step s LRCgWait = None && step s (LCloseStep (n 0)) = None) in
    Printf.sprintf "fnret_before_close=%d,join_before_fnret=%d"
      (if waits && joined_blocked && close_blocked then 1 else 0) (if no_join then 0 else 1)
  with Stuck m -> "MODEL-STUCK"

let () =
  try
    while true do
      let line = input_line stdin in
      if String.trim line <> "" then begin
        (* the check passes "<id> <op> <args> | <go result>" for cac (the model only judges consistency) *)
        let head, go_res =
          (let rec find i = if i + 3 > String.length line then -1
                            else if String.sub line i 3 = " | " then i else find (i + 1) in
           match find 0 with
           | -1 -> (line, "")
           | i -> (String.sub line 0 i, String.trim (String.sub line (i + 3) (String.length line - i - 3)))) in
        match String.split_on_char ' ' (String.trim head) with
        | id :: op :: args ->
          let res =
            try (match op with
                 | "e2e" -> eval_e2e args
                 | "det" -> eval_det args
                 | "cac" -> eval_cac args go_res
                 | "nlv" -> eval_nlv args
                 | "gse" -> eval_gse args
                 | _ -> "?")
            with Failure m -> "ERR:" ^ m | Not_found -> "ERR:notfound" in
          print_string (id ^ " " ^ res ^ "\n")
        | _ -> ()
      end
    done
  with End_of_file -> ()
