(* c14_driver: evaluate the extracted group-balancer model on the harness's cases.
   input  line: <id> <op> <members> <partitions> | <go result> | <features>
     members    = "-" or id:topics:userdata;...   (topics = "-" or hex,hex,...)
     partitions = "-" or topic:id:rack;...
   output line: <id> <model result>
     range / rr : canonical assignment   mid=thex:p,p+thex:p;mid=-;...   ("-" when no member key)
                  sorted by member id then topic (bytewise), empty (member,topic) lists dropped,
                  member keys kept
     rack       : per topic of findMembersByTopic, sorted:  thex=alt/alt/...;thex=~alt;...
                  alt = mid:p,p+mid:p...  (members with a non-empty list, sorted by id; "-" if none;
                  PANIC when the model says the code panics); the alternatives are the results for
                  every pair (order of the first, order of the second "range zonedPartitions");
                  "~" marks a topic whose zone orders were not enumerated (too many zones): only the
                  insertion-order result is given.
     lrange / lrr / lrack : the leader path; <partitions> is the CLUSTER.
                  "<as range / rr / rack, computed by leader_range / leader_rr / on leader_partitions>
                  req=<leader_requests: r1;r2;...  r = hex topics joined by ',', '-' = empty request>"
                  lrange / lrr also: " wire=<canonical form of wire_triples (sync_request assignment)>", what
                  the coordinator receives in the leader's SyncGroup request (lrack: the wire must be, per
                  topic, one of the same alternatives; checked by checks/c14.py)
     MODELINCONSISTENT when rack_assign / rack_assign_canonical / rack_assign_topic disagree, or
     leader_partitions / leader_rack disagree with read_partitions / rack_assign. *)
open C14_model
open C14_io

(* byte strings as int lists: OCaml's structural [compare] on them is Go's string order *)
let key (b : n list) : int list = List.map int_of_n b

let parse_members (s : string) : member list =
  if s = "-" then [] else
    List.map (fun e ->
        match String.split_on_char ':' e with
        | [i; ts; ud] ->
          { m_id = bytes_of_hex i;
            m_topics = (if ts = "-" then [] else List.map bytes_of_hex (String.split_on_char ',' ts));
            m_userdata = bytes_of_hex ud }
        | _ -> failwith "bad member") (String.split_on_char ';' s)

let parse_partitions (s : string) : partition list =
  if s = "-" then [] else
    List.map (fun e ->
        match String.split_on_char ':' e with
        | [t; i; r] -> { p_topic = bytes_of_hex t; p_id = z_of_hex i; p_rack = bytes_of_hex r }
        | _ -> failwith "bad partition") (String.split_on_char ';' s)

let sort_uniq_keys l = List.sort_uniq compare l

(* canonical form of a triple list (range / rr): member keys kept *)
let canon_triples (trs : ((n list * n list) * z list) list) : string =
  let ids = sort_uniq_keys (List.map (fun ((i, _), _) -> key i) trs) in
  if ids = [] then "-" else
    String.concat ";" (List.map (fun ik ->
        let mine = List.filter (fun ((i, _), _) -> key i = ik) trs in
        let id_bytes = (match mine with ((i, _), _) :: _ -> i | [] -> []) in
        let topics = sort_uniq_keys (List.map (fun ((_, t), _) -> key t) mine) in
        let ents = List.filter_map (fun tk ->
            let of_t = List.filter (fun ((_, t), _) -> key t = tk) mine in
            let parts = List.concat (List.map snd of_t) in
            let t_bytes = (match of_t with ((_, t), _) :: _ -> t | [] -> []) in
            if parts = [] then None
            else Some (hex_of_bytes t_bytes ^ ":" ^ csv_of_zlist parts)) topics in
        hex_of_bytes id_bytes ^ "=" ^ (if ents = [] then "-" else String.concat "+" ents)) ids)

(* canonical form of one topic's member -> partitions map (rack) *)
let canon_topic (r : (n list * z list) list) : string =
  let ids = sort_uniq_keys (List.map (fun (i, _) -> key i) r) in
  let ents = List.filter_map (fun ik ->
      let mine = List.filter (fun (i, _) -> key i = ik) r in
      let parts = List.concat (List.map snd mine) in
      let id_bytes = (match mine with (i, _) :: _ -> i | [] -> []) in
      if parts = [] then None else Some (hex_of_bytes id_bytes ^ ":" ^ csv_of_zlist parts)) ids in
  if ents = [] then "-" else String.concat "+" ents

let canon_topic_opt = function None -> "PANIC" | Some r -> canon_topic r

(* projection of a whole-run triple list on one topic *)
let project (trs : ((n list * n list) * z list) list) (t : n list) : (n list * z list) list =
  List.filter_map (fun ((i, t'), ps) -> if key t' = key t then Some (i, ps) else None) trs

let rec permutations (l : 'a list) : 'a list list =
  match l with
  | [] -> [[]]
  | _ ->
    List.concat (List.mapi (fun k x ->
        let rest = List.filteri (fun j _ -> j <> k) l in
        List.map (fun p -> x :: p) (permutations rest)) l)

let eval_rack (ms : member list) (ps : partition list) : string =
  let mbt = group_by_topic ms in
  let pbt = partitions_by_topic ps in
  let zones_t t = zones_of (aget t pbt) in
  let canonical = rack_assign_canonical ms ps in
  let reversed = rack_assign (fun t -> List.rev (zones_t t)) (fun t -> List.rev (zones_t t)) ms ps in
  let inconsistent = ref false in
  let any_canon_panic = ref false and any_rev_panic = ref false in
  let per_topic = List.map (fun (t, mems) ->
      let parts = aget t pbt in
      let zones = zones_t t in
      let k = List.length zones in
      let small = List.length mems <= 8 && List.length parts <= 24 in
      let c_t = canon_topic_opt (rack_assign_topic zones zones mems parts) in
      let r_t = canon_topic_opt (rack_assign_topic (List.rev zones) (List.rev zones) mems parts) in
      if c_t = "PANIC" then any_canon_panic := true;
      if r_t = "PANIC" then any_rev_panic := true;
      (match canonical with
       | Some trs -> if canon_topic (project trs t) <> c_t then inconsistent := true
       | None -> ());
      (match reversed with
       | Some trs -> if canon_topic (project trs t) <> r_t then inconsistent := true
       | None -> ());
      let enumerate = k <= 3 || (k <= 4 && small) in
      if enumerate then begin
        let perms = permutations zones in
        let alts = List.sort_uniq compare
            (List.concat (List.map (fun zo ->
                 List.map (fun ro -> canon_topic_opt (rack_assign_topic zo ro mems parts)) perms) perms)) in
        if not (List.mem c_t alts) || not (List.mem r_t alts) then inconsistent := true;
        (key t, hex_of_bytes t ^ "=" ^ String.concat "/" alts)
      end else
        (key t, hex_of_bytes t ^ "=~" ^ c_t)) mbt in
  (* a whole-run None must come from some topic's None and vice versa *)
  if (canonical = None) <> !any_canon_panic then inconsistent := true;
  if (reversed = None) <> !any_rev_panic then inconsistent := true;
  (* every triple of the whole run belongs to a topic of findMembersByTopic *)
  (match canonical with
   | Some trs ->
     List.iter (fun ((_, t), _) -> if not (List.exists (fun (t', _) -> key t' = key t) mbt) then inconsistent := true) trs
   | None -> ());
  if !inconsistent then "MODELINCONSISTENT"
  else if per_topic = [] then "-"
  else String.concat ";" (List.map snd (List.sort (fun (a, _) (b, _) -> compare a b) per_topic))

(* the journal of metadata requests: r1;r2;...  r = hex topics joined by ',' ("-" = empty request) *)
let req_of (ms : member list) (cluster : partition list) : string =
  String.concat ";" (List.map (fun r ->
      match r with
      | [] -> "-"
      | l -> String.concat "," (List.map hex_of_bytes l)) (leader_requests ms cluster))

(* leader_partitions against its parts: bulk read, else the per-topic fallback *)
let leader_partitions_ok (ms : member list) (cluster : partition list) : bool =
  let topics = extract_topics ms in
  leader_partitions ms cluster =
  (match broker_read cluster topics with
   | Some ps -> ps
   | None -> if List.length topics > 1 then read_each cluster topics else [])

let eval_lrack (ms : member list) (cluster : partition list) : string =
  let lp = leader_partitions ms cluster in
  let pbt = partitions_by_topic lp in
  let zo t = zones_of (aget t pbt) in
  if not (leader_partitions_ok ms cluster)
  || leader_rack zo zo ms cluster <> rack_assign zo zo ms lp
  || leader_rack zo zo ms cluster <> rack_assign_canonical ms lp
  then "MODELINCONSISTENT"
  else eval_rack ms lp

let eval (op : string) (a : string list) : string =
  match op, a with
  | "lrange", [m; p] ->
    let ms = parse_members m in
    let cl = parse_partitions p in
    if not (leader_partitions_ok ms cl) then "MODELINCONSISTENT" else
    let a = leader_range ms cl in
    canon_triples a ^ " req=" ^ req_of ms cl ^ " wire=" ^ canon_triples (wire_triples (sync_request a))
  | "lrr", [m; p] ->
    let ms = parse_members m in
    let cl = parse_partitions p in
    if not (leader_partitions_ok ms cl) then "MODELINCONSISTENT" else
    let a = leader_rr ms cl in
    canon_triples a ^ " req=" ^ req_of ms cl ^ " wire=" ^ canon_triples (wire_triples (sync_request a))
  | "lrack", [m; p] ->
    let ms = parse_members m in
    let cl = parse_partitions p in
    eval_lrack ms cl ^ " req=" ^ req_of ms cl
  | "range", [m; p] -> canon_triples (range_assign (parse_members m) (parse_partitions p))
  | "rr", [m; p] -> canon_triples (rr_assign (parse_members m) (parse_partitions p))
  | "rack", [m; p] -> eval_rack (parse_members m) (parse_partitions p)
  | _ -> "BADCASE"

let () =
  run_lines (fun line ->
    let case = (match String.index_opt line '|' with
        | Some i -> String.sub line 0 i | None -> line) in
    match words case with
    | id :: op :: args -> id ^ " " ^ (try eval op args with e -> "EXN:" ^ Printexc.to_string e)
    | _ -> "0 BADLINE")
