(* c15_driver: evaluate the extracted ConsumerGroup model on the harness's cases.
   input  line: <id> <op> <args...> | <go result> | <features>
   output line: <id> <model result>
   ops:  gen  <S | R<i> | C>...          step level on one Generation
         e2e[-x] <w> <labels...>          replay of the label sequence the driver executed
         wire                             expected journal counts of the F5 witness
         soak <events...>                 monitors on a recorded timeline *)
open C15_model
open C15_io

let nat_of_hex s = nat_of_int (int_of_string ("0x" ^ s))
let hex_of_nat n = Printf.sprintf "%x" (int_of_nat n)
let b01 b = if b then "1" else "0"

let cls_of = function "rb" -> ERebalance | "ka" -> EKafka | "dr" -> EDropped | s -> failwith ("class " ^ s)
let str_of_cls = function ERebalance -> "rb" | EKafka -> "ka" | EDropped -> "dr"
let ans_of = function "ok" -> AOk | s -> AErr (cls_of s)

let meta_of = function "ok" -> MOk | "un" -> MUnknown | s -> MErr (cls_of s)

(* number of metadata reads the model expects for each LJoin label, in order (0 = none) *)
let join_reads : int list ref = ref []

let rec label_of (tok : string) : label =
  let l = label_of_raw tok in
  (match l with
   | LJoin _ -> if List.length (String.split_on_char ':' tok) <> 6 then join_reads := 0 :: !join_reads
   | _ -> ());
  l
and label_of_raw (tok : string) : label =
  match String.split_on_char ':' tok with
  | ["Jo"; m; "L"; nt; first; per] ->
    let per = if per = "-" then [] else List.map meta_of (String.split_on_char '.' per) in
    let (ld, reads) = leader_assign (nat_of_hex nt) (meta_of first) per in
    join_reads := int_of_nat reads :: !join_reads;
    LJoin (JOk (nat_of_hex m, ld))
  | ["Co"; a] -> LCoord (ans_of a)
  | ["Jo"; m; "n"] -> LJoin (JOk (nat_of_hex m, NotLeader))
  | ["Jo"; m; "l"] -> LJoin (JOk (nat_of_hex m, LeaderOk))
  | ["Jo"; m; f] when String.length f = 3 && f.[0] = 'f' -> LJoin (JOk (nat_of_hex m, LeaderFail (cls_of (String.sub f 1 2))))
  | ["Je"; c] -> LJoin (JErr (cls_of c))
  | ["Sy"; a] -> LSync (ans_of a, [])
  | ["Sy"; "ok"; "e"] -> LSync (AOk, [])
  | ["Sy"; "ok"; asg] ->
    let entry e = (match String.split_on_char '=' e with
        | [t; ps] -> (nat_of_hex t, if ps = "" then [] else List.map nat_of_hex (String.split_on_char '.' ps))
        | _ -> failwith ("assignment " ^ e)) in
    LSync (AOk, List.map entry (String.split_on_char ',' asg))
  | ["Fe"; a] -> LFetch (ans_of a)
  | ["SH"] -> LStartHB | ["SW"] -> LStartWatch
  | ["PA"] -> LPublishAbort | ["WC"] -> LWaitClosed | ["WD"] -> LWaitGenDone
  | ["GL"] -> LGenCloseLock | ["GJ"] -> LGenCloseJoined
  | ["LC"; a] -> LLeaveCoord (ans_of a) | ["LR"; a] -> LLeaveReq (ans_of a)
  | ["OA"] -> LOfferAbort | ["BA"] -> LBackoffAbort | ["BF"] -> LBackoffFire
  | ["NC"; n] -> LNextCall (nat_of_hex n) | ["NG"; n] -> LNextGen (nat_of_hex n)
  | ["NE"; n] -> LNextErr (nat_of_hex n) | ["NX"; n] -> LNextClosed (nat_of_hex n)
  | ["NT"; n] -> LNextCtx (nat_of_hex n)
  | ["CC"; c] -> LCloseCall (nat_of_hex c) | ["CR"; c] -> LCloseRet (nat_of_hex c)
  | ["St"; k] -> LStart (nat_of_hex k)
  | ["FR"; i] -> LFnReturn (nat_of_hex i) | ["FD"; i] -> LFnSeeDone (nat_of_hex i)
  | ["FH"; i] -> LFnHandler (nat_of_hex i)
  | ["HB"; i; a] -> LHbTick (nat_of_hex i, ans_of a)
  | ["WI"; i; a] -> LWatchInit (nat_of_hex i, ans_of a)
  | ["WT"; i; r] -> LWatchTick (nat_of_hex i, (match r with "s" -> WSame | "c" -> WChanged | "k" -> WKafkaErr | "d" -> WDropped | _ -> failwith "wres"))
  | _ -> failwith ("label " ^ tok)

let monitors (h : event list) : string =
  let l = [ ("one_live", mon_one_live h); ("heartbeat", mon_heartbeat h);
            ("backoff", mon_backoff h); ("leave", mon_leave_full h) ] in
  match List.filter (fun (_, b) -> not b) l with
  | [] -> "ok"
  | bad -> String.concat "+" (List.map fst bad)

let gen_str (g : gen) =
  b01 g.g_closed ^ "," ^ Printf.sprintf "%x" (int_of_z g.g_routines) ^ "," ^ b01 g.g_done ^ "," ^ b01 g.g_joined

(* ---- step level ---- *)
let eval_gen (ops : string list) : string =
  let g0 = g_set_pub (new_gen (nat_of_int 1)) in
  let s = ref { gens = [g0]; fns = []; pc = PWait; mid = Some (nat_of_int 1); cg_done = false;
                nexts = []; closers = []; nwatch = O; panicked = false; hist = [] } in
  let stuck = ref false in
  let app l = match step !s l with Some s' -> s := s' | None -> stuck := true in
  let try_ l = match step !s l with Some s' -> s := s' | None -> () in
  let obs = List.map (fun op ->
      (match op.[0] with
       | 'S' -> app (LStart O)
       | 'R' ->
         let i = nat_of_hex (String.sub op 1 (String.length op - 1)) in
         let acc = (List.nth !s.fns (int_of_nat i)).f_acc in
         app (LFnReturn i);
         if acc then app (LFnHandler i)
       | 'C' -> app (LCloseCall O); app LWaitClosed; app LGenCloseLock
       | _ -> stuck := true);
      try_ LGenCloseJoined;
      let g = List.hd !s.gens in
      let ret = (match !s.pc with PWait | PCloseLock _ | PCloseWait _ -> false | _ -> true) in
      if !stuck then "STUCK" else gen_str g ^ "," ^ b01 ret) ops in
  String.concat ";" obs

(* ---- end to end ---- *)
let project (s : state) : string =
  let buf = ref [] in
  let add x = buf := x :: !buf in
  let backoff = ref false in
  let is_user f = (match List.nth_opt s.fns (int_of_nat f) with Some fn -> fn.f_kind = KUser | None -> false) in
  let reads = ref (List.rev !join_reads) in
  let rd () = (match !reads with n :: t -> reads := t; if n > 0 then Printf.sprintf "r%x" n else "" | [] -> "") in
  List.iter (fun e ->
      match e with
      | HBackoff -> backoff := true
      | HCoordReq -> add (if !backoff then "bc" else "c"); backoff := false
      | HJoinReq None -> add ("j-" ^ rd ())
      | HJoinReq (Some m) -> add ("j" ^ hex_of_nat m ^ rd ())
      | HSyncReq m -> add ("s" ^ hex_of_nat m)
      | HFetchReq -> add "f"
      | HHeartbeat (k, f, m) -> add ("h" ^ hex_of_nat k ^ "." ^ hex_of_nat f ^ "." ^ hex_of_nat m)
      | HLeaveReq m -> add ("l" ^ hex_of_nat m)
      | HLeaveUnreach m -> add ("u" ^ hex_of_nat m)
      | HNextRet (n, k) -> add ("N" ^ hex_of_nat n ^ "g" ^ hex_of_nat k)
      | HNextErr (n, c) -> add ("N" ^ hex_of_nat n ^ "e" ^ str_of_cls c)
      | HNextClosed n -> add ("N" ^ hex_of_nat n ^ "x")
      | HNextCtx n -> add ("N" ^ hex_of_nat n ^ "t")
      | HStart (k, f, a) -> if is_user f then add ("S" ^ hex_of_nat k ^ "." ^ hex_of_nat f ^ "." ^ b01 a)
      | HFnRet (k, f) -> if is_user f then add ("R" ^ hex_of_nat k ^ "." ^ hex_of_nat f)
      | HCloseCall _ -> add "CC"
      | HCloseRet _ -> add "CR"
      | _ -> ()) (List.rev s.hist);
  let gens = List.mapi (fun k g -> if g.g_pub then Some ("G" ^ Printf.sprintf "%x" k ^ ":" ^ gen_str g) else None) s.gens in
  let gens = List.filter_map (fun x -> x) gens in
  String.concat " " (List.rev !buf) ^ " # " ^ String.concat " " gens
  ^ " # exit=" ^ b01 (s.pc = PExited) ^ " leavefull=" ^ b01 (mon_leave_full s.hist)
  ^ " mon=" ^ monitors s.hist ^ (if mon_done s.hist then "" else "+done") ^ (if s.panicked then "+PANIC" else "")

let eval_e2e (w : string) (labels : string list) : string =
  join_reads := [];
  let s = ref (init (nat_of_hex w)) in
  let rec go i = function
    | [] -> project !s
    | t :: rest ->
      (match (try Some (label_of t) with _ -> None) with
       | None -> Printf.sprintf "BADLABEL@%d:%s" i t
       | Some l ->
         (match step !s l with
          | Some s' -> s := s'; go (i + 1) rest
          | None -> Printf.sprintf "STUCK@%d:%s" i t)) in
  go 0 labels

(* ---- recorded timelines ---- *)
let split3 s = (* "a.b.c" *) List.map (fun x -> x) (String.split_on_char '.' s)
let tl s = String.sub s 1 (String.length s - 1)
let optm = function "-" -> None | m -> Some (nat_of_hex m)
let event_of (t : string) : event =
  match t.[0] with
  | 'c' -> HCoordReq
  | 'b' -> HBackoff
  | 'j' -> HJoinReq (optm (tl t))
  | 's' -> HSyncReq (nat_of_hex (tl t))
  | 'f' -> HFetchReq
  | 'F' -> HFail (cls_of (tl t))
  | 'G' -> (match split3 (tl t) with [k; m] -> HGenNew (nat_of_hex k, nat_of_hex m) | _ -> failwith t)
  | 'S' -> (match split3 (tl t) with [k; f; a] -> HStart (nat_of_hex k, nat_of_hex f, a = "1") | _ -> failwith t)
  | 'R' -> (match split3 (tl t) with [k; f] -> HFnRet (nat_of_hex k, nat_of_hex f) | _ -> failwith t)
  | 'D' -> HDone (nat_of_hex (tl t))
  | 'h' -> (match split3 (tl t) with [k; f; m] -> HHeartbeat (nat_of_hex k, nat_of_hex f, nat_of_hex m) | _ -> failwith t)
  | 'l' -> HLeaveReq (nat_of_hex (tl t))
  | 'u' -> HLeaveUnreach (nat_of_hex (tl t))
  | 'N' ->
    let body = tl t in
    let cut c = match String.index_opt body c with
      | Some i -> Some (String.sub body 0 i, String.sub body (i + 1) (String.length body - i - 1)) | None -> None in
    (match cut 'g', cut 'e', cut 'x', cut 't' with
     | Some (n, k), _, _, _ -> HNextRet (nat_of_hex n, nat_of_hex k)
     | _, Some (n, c), _, _ -> HNextErr (nat_of_hex n, cls_of c)
     | _, _, Some (n, _), _ -> HNextClosed (nat_of_hex n)
     | _, _, _, Some (n, _) -> HNextCtx (nat_of_hex n)
     | _ -> failwith t)
  | 'C' -> if String.length t >= 2 && t.[1] = 'R' then HCloseRet O else HCloseCall O
  | _ -> failwith ("event " ^ t)

let eval_soak (toks : string list) : string =
  let h = List.rev (List.map event_of toks) in
  (* run's exit is not observable from outside: the leave monitor is not applicable here *)
  let l = [ ("one_live", mon_one_live h); ("heartbeat", mon_heartbeat h); ("backoff", mon_backoff h) ] in
  match List.filter (fun (_, b) -> not b) l with
  | [] -> "ok"
  | bad -> String.concat "+" (List.map fst bad)

let eval_standby () : string =
  match run (init O) standby_scenario with
  | None -> "STUCK"
  | Some s ->
    let count p = List.length (List.filter p s.hist) in
    Printf.sprintf "standby started=1 hb=%s rejoin=%s leave=%s closed=%d"
      (b01 (count (function HHeartbeat _ -> true | _ -> false) >= 2))
      (b01 (count (function HJoinReq _ -> true | _ -> false) >= 2))
      (b01 (count (function HLeaveReq m -> int_of_nat m = 1 | _ -> false) >= 1))
      (count (function HCloseRet _ -> true | _ -> false))

let eval_wire () : string =
  match run (init O) f5_scenario with
  | None -> "STUCK"
  | Some s ->
    let count p = List.length (List.filter p s.hist) in
    let left = List.fold_left (fun acc e -> match e with HLeaveReq m -> "member-" ^ string_of_int (int_of_nat m) | _ -> acc) "-" s.hist in
    Printf.sprintf "find=%d join=%d sync=%d leave=%d:%s closed=%d"
      (* FindCoordinator is sent by nextGeneration's coordinator() and by leaveGroup's *)
      (count (function HCoordReq | HLeaveReq _ | HLeaveUnreach _ -> true | _ -> false))
      (count (function HJoinReq _ -> true | _ -> false))
      (count (function HSyncReq _ -> true | _ -> false))
      (count (function HLeaveReq _ -> true | _ -> false)) left
      (count (function HCloseRet _ -> true | _ -> false))

let eval_conn (a : string list) : string =
  match a with
  | ["dl"; api] ->
    let c = (match api with
        | "findCoordinator" -> CFindCoordinator | "joinGroup" -> CJoinGroup | "syncGroup" -> CSyncGroup
        | "leaveGroup" -> CLeaveGroup | "heartbeat" -> CHeartbeat | "offsetFetch" -> COffsetFetch
        | "offsetCommit" -> COffsetCommit | "readPartitions" -> CReadPartitions | _ -> failwith api) in
    (match deadline_of_call c with DTimeout -> "T" | DTimeoutRebalance -> "TR" | DTimeoutSession -> "TS")
  | "boot" :: ups ->
    let up = List.map (fun s -> s = "1") ups in
    let first = (match connect up with Some i -> string_of_int (int_of_nat i) | None -> "-") in
    let ok = b01 (connect up <> None) in
    Printf.sprintf "first=%s tried=%d gen=%s leave=%s" first (int_of_nat (dial_attempts up)) ok ok
  | _ -> "BADCASE"

let eval (op : string) (a : string list) : string =
  match op, a with
  | "conn", a -> eval_conn a
  | "gen", ops -> eval_gen ops
  | ("e2e" | "e2e-f5" | "e2e-joinerr"), w :: labels -> eval_e2e w labels
  | "wire", ["standby"] -> eval_standby ()
  | "wire", _ -> eval_wire ()
  | "soak", toks -> eval_soak toks
  | _ -> "BADCASE"

let () =
  run_lines (fun line ->
    let case = (match String.index_opt line '|' with
        | Some i -> String.sub line 0 i | None -> line) in
    match words case with
    | id :: op :: args -> id ^ " " ^ (try eval op args with e -> "EXN:" ^ Printexc.to_string e)
    | _ -> "0 BADLINE")
