(* c12_driver: evaluate the extracted routing model on the harness's cases.
   input  line: <id> <op> <args...> | <go result> | <features>
   output line: <id> <model result> *)
open C12_model
open C12_io

let split c s = String.split_on_char c s
let name_of s : name = bytes_of_hex s
let enc_name (n : name) = hex_of_bytes n

let split2 c s =
  match String.index_opt s c with
  | Some i -> (String.sub s 0 i, String.sub s (i + 1) (String.length s - i - 1))
  | None -> failwith ("split2: no '" ^ String.make 1 c ^ "' in " ^ s)

(* ---- parsing ---- *)
let tps_of s : tps =
  if s = "." then []
  else List.map (fun t -> let (n, ps) = split2 ':' t in (name_of n, zlist_of_csv ps)) (split ';' s)

let enc_tps (ts : tps) =
  if ts = [] then "."
  else String.concat ";" (List.map (fun (n, ps) -> enc_name n ^ ":" ^ csv_of_zlist ps) ts)

let broker_of s : broker =
  let (i, a) = split2 '@' s in { b_id = z_of_hex i; b_addr = n_of_hex a }

let cluster_of s : cluster =
  match split '~' s with
  | [ctrl; bs; ts] ->
    let brokers = if bs = "." then [] else
        List.map (fun e -> let (k, b) = split2 '=' e in (z_of_hex k, broker_of b)) (split ',' bs) in
    let topics = if ts = "." then [] else
        List.map (fun e ->
            let (hd, ps) = split2 ':' e in
            let (k, rest) = split2 '=' hd in
            let (n, err) = split2 '/' rest in
            let parts = if ps = "." then [] else
                List.map (fun pe ->
                    let (pk, r) = split2 '=' pe in
                    match split '/' r with
                    | [pid; perr; ld] -> (z_of_hex pk, { p_id = z_of_hex pid; p_err = z_of_hex perr; p_leader = z_of_hex ld })
                    | _ -> failwith "partition") (split ',' ps) in
            (name_of k, { t_name = name_of n; t_err = z_of_hex err; t_parts = parts })) (split ';' ts) in
    { c_controller = z_of_hex ctrl; c_brokers = brokers; c_topics = topics }
  | _ -> failwith "cluster"

let md_of s : metadata =
  match split '~' s with
  | [ctrl; bs; ts] ->
    let brokers = if bs = "." then [] else
        List.map (fun e -> let (i, a) = split2 '@' e in { mb_id = z_of_hex i; mb_addr = n_of_hex a }) (split ',' bs) in
    let topics = if ts = "." then [] else
        List.map (fun e ->
            let (hd, ps) = split2 ':' e in
            match split '/' hd with
            | [n; err; internal] ->
              let parts = if ps = "." then [] else
                  List.map (fun pe ->
                      let ids x = if x = "." then [] else List.map z_of_hex (split '+' x) in
                      match split '/' pe with
                      | [idx; perr; ld] -> { mp_idx = z_of_hex idx; mp_err = z_of_hex perr; mp_leader = z_of_hex ld;
                                             mp_replicas = []; mp_isr = []; mp_offline = [] }
                      | [idx; perr; ld; rep; isr; off] ->
                        { mp_idx = z_of_hex idx; mp_err = z_of_hex perr; mp_leader = z_of_hex ld;
                          mp_replicas = ids rep; mp_isr = ids isr; mp_offline = ids off }
                      | _ -> failwith "md partition") (split ',' ps) in
              { mt_name = name_of n; mt_err = z_of_hex err; mt_internal = (internal = "1"); mt_parts = parts }
            | _ -> failwith "md topic") (split ';' ts) in
    { md_controller = z_of_hex ctrl; md_brokers = brokers; md_topics = topics }
  | _ -> failwith "metadata"

let names_of s : name list option =
  if s = "-" then None else if s = "[]" then Some [] else Some (List.map name_of (split ';' s))

(* ---- printing (canonical: maps sorted by key) ---- *)
let enc_broker (b : broker) = hex_of_z b.b_id ^ "@" ^ hex_of_n b.b_addr
let dot s = if s = "" then "." else s
let by_zkey l = List.sort (fun (a, _) (b, _) -> compare (int_of_z a) (int_of_z b)) l
(* Go sorts topic names as byte strings *)
let rec cmp_bytes (a : name) (b : name) = match a, b with
  | [], [] -> 0 | [], _ -> -1 | _, [] -> 1
  | x :: a', y :: b' -> let c = compare (int_of_n x) (int_of_n y) in if c <> 0 then c else cmp_bytes a' b'

let enc_cluster (c : cluster) =
  let bs = List.map (fun (k, b) -> hex_of_z k ^ "=" ^ enc_broker b) (by_zkey c.c_brokers) in
  let ts = List.map (fun (k, t) ->
      let ps = List.map (fun (pk, p) ->
          hex_of_z pk ^ "=" ^ hex_of_z p.p_id ^ "/" ^ hex_of_z p.p_err ^ "/" ^ hex_of_z p.p_leader) (by_zkey t.t_parts) in
      enc_name k ^ "=" ^ enc_name t.t_name ^ "/" ^ hex_of_z t.t_err ^ ":" ^ dot (String.concat "," ps))
      (List.sort (fun (a, _) (b, _) -> cmp_bytes a b) c.c_topics) in
  hex_of_z c.c_controller ^ "~" ^ dot (String.concat "," bs) ^ "~" ^ dot (String.concat ";" ts)

let enc_md (m : metadata) =
  let bs = List.map (fun b -> hex_of_z b.mb_id ^ "@" ^ hex_of_n b.mb_addr) m.md_brokers in
  let ts = List.map (fun t ->
      let ids l = if l = [] then "." else String.concat "+" (List.map hex_of_z l) in
      let ps = List.map (fun p -> hex_of_z p.mp_idx ^ "/" ^ hex_of_z p.mp_err ^ "/" ^ hex_of_z p.mp_leader
                                  ^ "/" ^ ids p.mp_replicas ^ "/" ^ ids p.mp_isr ^ "/" ^ ids p.mp_offline) t.mt_parts in
      enc_name t.mt_name ^ "/" ^ hex_of_z t.mt_err ^ "/" ^ (if t.mt_internal then "1" else "0") ^ ":" ^ dot (String.concat "," ps))
      m.md_topics in
  hex_of_z m.md_controller ^ "~" ^ dot (String.concat "," bs) ^ "~" ^ dot (String.concat ";" ts)

(* Client.Metadata's view *)
let enc_cm (r : cm_response) =
  let eb (b : md_broker) = hex_of_z b.mb_id ^ "@" ^ hex_of_n b.mb_addr in
  let ebs l = if l = [] then "." else String.concat "+" (List.map eb l) in
  let ts = List.map (fun t ->
      let ps = List.map (fun p -> hex_of_z p.cp_id ^ "/" ^ hex_of_z p.cp_err ^ "/" ^ eb p.cp_leader ^ "/"
                                  ^ ebs p.cp_replicas ^ "/" ^ ebs p.cp_isr) t.ct_parts in
      enc_name t.ct_name ^ "/" ^ (if t.ct_internal then "1" else "0") ^ "/" ^ hex_of_z t.ct_err ^ ":" ^ dot (String.concat "," ps))
      r.cm_topics in
  eb r.cm_controller ^ "~" ^ dot (String.concat "," (List.map eb r.cm_brokers)) ^ "~" ^ dot (String.concat ";" ts)

let enc_err = function
  | ENoTopic t -> "err:notopic:" ^ enc_name t
  | ENoPartition (t, p) -> "err:nopart:" ^ enc_name t ^ ":" ^ hex_of_z p
  | ENoLeader (t, p) -> "err:noleader:" ^ enc_name t ^ ":" ^ hex_of_z p
  | EMismatch (b, cur) -> "err:mismatch:" ^ hex_of_z b ^ ":" ^ hex_of_z cur

let enc_outcome = function
  | Ok b -> "ok:" ^ enc_broker b
  | Err e -> enc_err e
  | Panic -> "panic"

(* ---- requests ---- *)
let kreq api key = keyed_request (z_of_hex api) (name_of key)

(* one message, as given to sendRequest *)
let one_request s : request_kind =
  let (k, v) = split2 '=' s in
  match k with
  | "p" -> RProduce (tps_of v)
  | "f" -> RFetch (tps_of v)
  | "lo" -> RListOffsets (tps_of v)
  | "ctl" -> RController (z_of_hex v)
  | "lg" -> RListGroups (z_of_hex v)
  | "g" | "t" -> let (api, key) = split2 ':' v in kreq api key
  | "o" -> ROther (z_of_hex v)
  | _ -> failwith ("request " ^ s)

(* a request as given to roundTrip *)
let rt_request_of s : rt_request * bool =
  if s = "lgs" then (QListGroups, true) else
  let (k, v) = split2 '=' s in
  match k with
  | "los" -> (QListOffsets (tps_of v), true)
  | "dg" -> (QDescribeGroups (List.map name_of (split ';' v)), true)
  | "m" -> let i = String.rindex v ':' in
    (QMetadata (names_of (String.sub v 0 i), String.sub v (i + 1) (String.length v - i - 1) = "1"), false)
  | _ -> (QOne (one_request s), false)

(* how the fake answers find-coordinator for the request's key: "-" = no exchange expected /
   it fails; "<err>/<node>,<err>/<node>" = the answers for key type 0 (group) and 1 (transaction) *)
let fc_of s : coord_fn =
  if s = "-" then (fun _ _ -> None) else
  if String.length s > 2 && String.sub s 0 2 = "k:" then begin
    (* group coordinators by key: "k:<name>=<node>;..." *)
    let tbl = List.map (fun e -> let (k, n) = split2 '=' e in (k, z_of_hex n))
        (split ';' (String.sub s 2 (String.length s - 2))) in
    (fun kt key -> if int_of_z kt <> 0 then None else
        match List.assoc_opt (enc_name key) tbl with
        | Some n -> Some { fc_err = z_of_hex "0"; fc_node = n }
        | None -> None)
  end else
  match split ',' s with
  | [g; t] ->
    let ans x = let (e, n) = split2 '/' x in Some { fc_err = z_of_hex e; fc_node = z_of_hex n } in
    let ag = ans g and at = ans t in
    (fun kt _ -> if int_of_z kt = 0 then ag else at)
  | _ -> failwith "fc"

let no_coord : coord_fn = fun _ _ -> None

let pool_of_md (m : metadata) : pool = update pool_init (Some m) None

let ranges_of s : (z * (z * z)) list =
  if s = "" || s = "." then [] else
  List.map (fun e -> match split '/' e with
      | [k; lo; hi] -> (z_of_hex k, (z_of_hex lo, z_of_hex hi))
      | _ -> failwith "range") (split ',' s)

let vers_of s : (z * (z * (z * z)) list) list =
  List.map (fun e -> let (b, t) = split2 ':' e in (z_of_hex b, ranges_of t)) (split ';' s)

(* the journal the model predicts for a round trip on pool [p] *)
let trace_on (p : pool) boot vers client req (fc : coord_fn) : string =
  let (q, splitter) = rt_request_of req in
  let table b = try List.assoc b (List.map (fun (k, t) -> (hex_of_z k, t)) vers) with Not_found -> [] in
  let ver b api = conn_version (negotiate client (table b)) api in
  (* KeyType is not on the wire at find-coordinator v0: the broker sees a group lookup *)
  let fcver = ver boot k_FindCoordinator in
  let fc = coord_at_version fcver fc in
  let entry = function
    | WReq (t, api) ->
      let b = (match t with TBroker i -> hex_of_z i | TControl -> boot) in
      let v = ver b api in
      "b" ^ b ^ ":" ^ hex_of_z api ^ ":" ^ hex_of_z v
      ^ (if int_of_z api = 0 then ":" ^ hex_of_z (produce_record_version v) else "")
    | WFind (kt, _) ->
      "b" ^ boot ^ ":" ^ hex_of_z k_FindCoordinator ^ ":" ^ hex_of_z fcver ^ ":" ^ hex_of_z (ktype_at_version fcver kt) in
  match q with
  | QDescribeGroups gs ->
    (* one sub-request per part: the describe-groups entry names the part's groups; the merged
       answer has, per part that reached a broker, that broker's answer for each of its groups *)
    let parts = split_describegroups gs in
    let results = List.map (fun part ->
        match describegroups_request part with
        | None -> (part, SendPanic)
        | Some r -> (part, send_request p.ps_layout p.ps_conns r fc)) parts in
    let names part = String.concat "+" (List.map enc_name part) in
    let entries = List.concat_map (fun (part, sr) ->
        let tr = (match sr with Sent tr -> tr | Rejected (tr, _) -> tr | SendPanic -> []) in
        List.map (fun w -> match w with
            | WReq (_, api) when int_of_z api = 15 -> entry w ^ ":" ^ names part
            | _ -> entry w) tr) results in
    let merged =
      if List.exists (fun (_, sr) -> match sr with Sent _ -> false | _ -> true) results then "err"
      else String.concat ";" (List.concat_map (fun (part, sr) ->
          let node = (match sr with
              | Sent tr -> (match List.rev tr with WReq (TBroker i, _) :: _ -> hex_of_z i | _ -> boot)
              | _ -> "?") in
          List.map (fun g -> enc_name g ^ "=0@b" ^ node) part) results) in
    dot (String.concat "," (List.sort compare entries)) ^ "/" ^ merged
  | _ ->
  match round_trip p q fc with
  | RTBlocked -> "blocked"
  | RTCacheErr _ -> "err"
  | RTPanic -> "panic"
  | RTCache m -> "cache:" ^ enc_md m
  | RTSend l ->
    let entries = List.concat_map (function
        | Sent tr -> List.map entry tr
        | Rejected (tr, _) -> List.map entry tr
        | SendPanic -> ["panic"]) l in
    let status =
      if splitter then "-"
      else (match l with [Sent _] -> "ok" | _ -> "err") in
    let entries = if splitter then List.sort compare entries else entries in
    dot (String.concat "," entries) ^ "/" ^ status

let e2e_trace boot md vers client req fc : string = trace_on (pool_of_md md) boot vers client req fc

(* the refresh loop through a list of faults ("t" timed out, "i" i/o error, "d" no connection),
   then an answered refresh with [md1]; the request is routed on the pool that results *)
let recovery_trace boot md0 md1 faults vers client req fc : string =
  let s0 = { d_phase = DWaiting; d_pool = pool_of_md md0; d_ctx_err = None } in
  let turn f = refresh_turn false (match f with
      | "t" -> FFailed e_deadline
      | "i" -> FFailed (n_of_int 9)
      | "d" -> FNoConn (n_of_int 9)
      | _ -> failwith "fault") in
  let labels = List.concat_map turn (if faults = "." then [] else split ',' faults)
               @ refresh_turn false (FAnswered md1) in
  match discover_run s0 labels with
  | Some s when s.d_phase = DWaiting -> "live:" ^ trace_on s.d_pool boot vers client req fc
  | _ -> "frozen"

let enc_state (p : pool) =
  let md = (match p.ps_meta with None -> "-" | Some m -> enc_md m) in
  let err = (match p.ps_err with None -> "-" | Some e -> hex_of_n e) in
  let conns = List.map (fun (k, b) -> hex_of_z k ^ "=" ^ enc_broker b) (by_zkey p.ps_conns) in
  md ^ "^" ^ err ^ "^" ^ enc_cluster p.ps_layout ^ "^" ^ dot (String.concat "," conns) ^ "^" ^ (if p.ps_ready then "1" else "0")

let eval (op : string) (a : string list) : string =
  match op, a with
  | "sel", [_; cmin; cmax; bmin; bmax] ->
    hex_of_z (select_version (z_of_hex cmin) (z_of_hex cmax) (z_of_hex bmin) (z_of_hex bmax))
  | "cmeta", [names; m] ->
    enc_cm (client_metadata (filter_metadata (names_of names) (normalize (md_of m))))
  | "setup", [adv; client] ->
    String.concat "," (List.map (function
        | SReq (k, v) -> hex_of_z k ^ ":" ^ hex_of_z v
        | SRawToken -> "24:raw") (connection_setup true (negotiate (ranges_of client) (ranges_of adv))))
  | "prep", [v] -> hex_of_z (produce_record_version (z_of_hex v))
  | "class", [api] ->
    let api = z_of_hex api in
    (match message_class api with CBroker -> "broker" | CGroup -> "group" | CTxn -> "txn" | CPlain -> "plain")
    ^ (if is_splitter api then "+split" else "")
  | "route", [_; c; ts] -> enc_outcome (route_leader (cluster_of c) (tps_of ts))
  | "lo", [c; ts] -> enc_outcome (route_listoffsets (cluster_of c) (tps_of ts))
  | "losplit", [ts] -> dot (String.concat "+" (List.map enc_tps (split_listoffsets (tps_of ts))))
  | "ctl", [_; c] -> enc_outcome (route_controller (cluster_of c))
  | "lgsplit", [c] ->
    let c = cluster_of c in
    let ids = List.map (fun id -> match route_broker_id c id with Ok b -> int_of_z b.b_id | _ -> -999) (split_listgroups c) in
    dot (String.concat "," (List.map (fun i -> hex_of_z (z_of_int i)) (List.sort compare ids)))
  | "layout", [m] -> enc_cluster (make_layout (md_of m))
  | "filter", [names; m] -> enc_md (filter_metadata (names_of names) (md_of m))
  | "upd", steps ->
    let p = ref pool_init in
    let res = List.map (fun s ->
        let (m, e) =
          if s = "n" then (None, None)
          else (match s.[0] with
              | 'm' -> (Some (md_of (String.sub s 2 (String.length s - 2))), None)
              | 'e' -> (None, Some (n_of_hex (String.sub s 2 (String.length s - 2))))
              | _ -> failwith "upd step") in
        p := update !p m e;
        enc_state !p) steps in
    String.concat "#" res
  | "send", [m; req] ->
    let p = pool_of_md (md_of m) in
    (match send_request p.ps_layout p.ps_conns (one_request req) no_coord with
     | Sent [WReq (TBroker i, _)] -> "dial:b" ^ hex_of_z i
     | Sent [WReq (TControl, _)] -> "dial:c"
     | Sent _ -> "sent?"
     | Rejected (_, RejRoute e) -> "rej:" ^ enc_err e
     | Rejected (_, RejBrokerNotAvailable) -> "unavail"
     | Rejected (_, RejCoordinatorLookup) -> "dial:c"
     | Rejected (_, RejCoordinatorError e) -> "rej:coordinator:" ^ hex_of_z e
     | SendPanic -> "panic")
  | "e2e", [boot; m; vers; client; req; fc] ->
    e2e_trace boot (md_of m) (vers_of vers) (ranges_of client) req (fc_of fc)
  | "e2elag", [boot; m0; m1; vers; client; req; fc] ->
    e2e_trace boot (md_of m0) (vers_of vers) (ranges_of client) req (fc_of fc) ^ "#" ^
    e2e_trace boot (md_of m1) (vers_of vers) (ranges_of client) req (fc_of fc)
  | "e2erec", [boot; m0; m1; faults; vers; client; req; fc] ->
    recovery_trace boot (md_of m0) (md_of m1) faults (vers_of vers) (ranges_of client) req (fc_of fc)
  | "e2efu", [boot; m0; m1; vers; client; req; ntr; g] ->
    (* g goroutines make the first use of a fresh transport together: one creates the pool, the
       others find it by the re-check (or the fast path); all return; the pool must be alive *)
    let g = int_of_n (n_of_hex g) in
    let labels = RGrab GCreate :: (List.init (g - 1) (fun i -> RGrab (if i mod 2 = 0 then GRecheck else GFast)))
                 @ List.init g (fun _ -> RDone) in
    (match rp_run rpool_init labels with
     | Some s when s.rp_registered && not s.rp_cancelled ->
       ignore m0;
       "live=" ^ ntr ^ "/" ^ ntr ^ ":" ^ trace_on (pool_of_md (md_of m1)) boot (vers_of vers) (ranges_of client) req no_coord
     | _ -> "frozen")
  | "e2efail", _ -> "no-failure-expected"
  | _ -> "BADCASE"

let () =
  run_lines (fun line ->
    let case = (match String.index_opt line '|' with
        | Some i -> String.sub line 0 i | None -> line) in
    match words case with
    | id :: op :: args -> id ^ " " ^ (try eval op args with e -> "EXN:" ^ Printexc.to_string e)
    | _ -> "0 BADLINE")
