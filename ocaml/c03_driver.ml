(* c03_driver: evaluate the extracted GroupReader model on the harness's cases.
   input  line: <id> <op> <args...> | <go result> | <features>
   output line: <id> <model result> *)
open C03_model
open C03_io

let tp_of s = match String.split_on_char ':' s with
  | [t; p] -> (n_of_hex t, n_of_hex p) | _ -> failwith ("bad tp " ^ s)
let tpo_of s = match String.split_on_char ':' s with
  | [t; p; o] -> ((n_of_hex t, n_of_hex p), z_of_hex o) | _ -> failwith ("bad tpo " ^ s)
let list_of sep f s = if s = "." || s = "" then [] else List.map f (String.split_on_char sep s)
let tpos s = list_of ',' tpo_of s
let tps s = list_of ',' tp_of s
let key ((t, p), _) = (int_of_n t, int_of_n p)
let sort_amap l = List.sort (fun a b -> compare (key a) (key b)) l
let str_tpo ((t, p), o) = hex_of_n t ^ ":" ^ hex_of_n p ^ ":" ^ hex_of_z o
let str_tpos l = if l = [] then "." else String.concat "," (List.map str_tpo l)
let zi = z_of_int
let mk_cfg sync start = { cfg_sync = sync; cfg_start = start }

(* ---- loop scripts *)
let fault_of o = let i = int_of_z o in
  if i = 0 then NoFault else if i > 0 then FCode o else FDropBefore

let loop_state msgs =
  let x = { rd_init with rd_phase = PRunning (n_of_int 7, n_of_int 1); rd_loop = CLIdle;
                         rd_done = false; rd_unsub = false; rd_version = n_of_int 2 } in
  let c = { co_init with co_gen = n_of_int 7; co_members = [n_of_int 1]; co_next = n_of_int 2 } in
  { init with st_rd = (fun r -> if r = O then x else rd_init); st_co = c;
              st_hist = List.map (fun (t, o) -> EvDeliver (O, n_of_int 2, t, o)) msgs }

let run_loop sync toks =
  let cfg = mk_cfg sync (zi (-2)) in
  let parsed = List.map (fun tk ->
    match String.index_opt tk '=' with
    | Some i -> (String.sub tk 0 i, String.sub tk (i + 1) (String.length tk - i - 1))
    | None -> (tk, "")) toks in
  let allmsgs = List.concat_map (fun (k, v) -> if k = "c" then tpos v else []) parsed in
  let s = ref (loop_state allmsgs) in
  let base = List.length (!s).st_hist in
  let bad = ref false in
  let ap l = match step cfg !s l with Some s' -> s := s' | None -> bad := true in
  let x () = (!s).st_rd O in
  let settle () =  (* an attempt with an empty stash answers nil without a request *)
    match (x ()).rd_loop with
    | CLBusy _ when (x ()).rd_stash = [] -> ap (LLoopAttempt (O, NoFault))
    | _ -> () in
  List.iter (fun (k, v) ->
    match k with
    | "c" -> ap (LCommitCall (O, tpos v)); ap (LLoopRecv O); settle ()
    | "a" ->
      (match (x ()).rd_loop with CLIdle -> ap (LLoopTick O) | _ -> ());
      ap (LLoopAttempt (O, fault_of (z_of_hex v)))
    | "s" -> ap (LLoopGiveUp O)
    | "x" -> ap (LGenEnd O); ap (LLoopFinal O); settle ()
    | _ -> bad := true) parsed;
  settle ();
  (match (x ()).rd_loop with CLIdle -> ap (LGenEnd O); ap (LLoopFinal O); settle () | _ -> ());
  if !bad then "MODEL-STUCK" else begin
    let h = List.rev (!s).st_hist in
    let rec drop n l = if n = 0 then l else drop (n - 1) (List.tl l) in
    let evs = drop base h in
    let reqs = List.filter_map (function
      | EvOffsetCommit (_, _, _, offs, code, _) -> Some ("O" ^ str_tpos (sort_amap offs) ^ "=" ^ hex_of_z code)
      | _ -> None) evs in
    let ncalls = List.length (List.filter (fun (k, _) -> k = "c") parsed) in
    let rets = List.init ncalls (fun k ->
      match List.find_opt (function EvCommitRet (_, id, _) -> int_of_nat id = k | _ -> false) evs with
      | Some (EvCommitRet (_, _, RNil)) -> "nil"
      | Some _ -> "err"
      | None -> "none") in
    (if reqs = [] then "." else String.concat ";" reqs) ^ "|" ^ String.concat "," rets
  end

(* ---- requests queued when the generation ends: is there a schedule (k requests handled one
   by one before the loop notices ctx.Done, the rest drained into the final commit) of the
   model whose observable projection equals the observation? *)
let rec permutations = function
  | [] -> [[]]
  | l -> List.concat_map (fun x ->
      let rest = List.filter (fun y -> y != x) l in
      List.map (fun p -> x :: p) (permutations rest)) l

let run_loopend toks =
  let cfg = mk_cfg true (zi (-2)) in
  let kv tk = match String.index_opt tk '=' with
    | Some i -> (String.sub tk 0 i, String.sub tk (i + 1) (String.length tk - i - 1))
    | None -> (tk, "") in
  let parsed = List.map kv toks in
  let calls = List.filter_map (fun (k, v) -> if k = "c" then Some (tpos v) else None) parsed in
  let outcomes = List.concat_map (fun (k, v) -> if k = "a" then List.map z_of_hex (String.split_on_char ',' v) else []) parsed in
  let obs = (try List.assoc "obs" parsed with Not_found -> "") in
  let n = List.length calls in
  (* [order]: the order in which calls 1..n-1 ARRIVED in Reader.commits (an environment choice:
     the calling goroutines race); call ids are assigned in arrival order, [ids] maps back *)
  let simulate (order : int list) k =
    let s = ref (loop_state (List.concat calls)) in
    let base = List.length (!s).st_hist in
    let outs = ref outcomes in
    let bad = ref false in
    let ap l = match step cfg !s l with Some s' -> s := s' | None -> bad := true in
    let x () = (!s).st_rd O in
    let attempt () =
      if (x ()).rd_stash = [] then ap (LLoopAttempt (O, NoFault))
      else begin
        let o = (match !outs with o :: r -> outs := r; o | [] -> zi 0) in
        ap (LLoopAttempt (O, fault_of o))
      end in
    let rec drain fuel = match (x ()).rd_loop with
      | CLBusy _ when fuel > 0 && not !bad -> attempt (); drain (fuel - 1)
      | _ -> () in
    ap (LCommitCall (O, List.nth calls 0)); ap (LLoopRecv O); attempt ();
    List.iter (fun i -> ap (LCommitCall (O, List.nth calls i))) order;
    ap (LGenEnd O);
    drain 10;
    for _ = 1 to k do ap (LLoopRecv O); drain 10 done;
    ap (LLoopFinal O); drain 10;
    if !bad then None else begin
      let rec drop m l = if m = 0 then l else drop (m - 1) (List.tl l) in
      let evs = drop base (List.rev (!s).st_hist) in
      let reqs = List.filter_map (function
        | EvOffsetCommit (_, _, _, offs, code, _) -> Some ("O" ^ str_tpos (sort_amap offs) ^ "=" ^ hex_of_z code)
        | _ -> None) evs in
      let ids = Array.of_list (0 :: order) in   (* model call id -> harness call index *)
      let rets = Array.make n "none" in
      List.iter (function
        | EvCommitRet (_, id, res) ->
          let i = int_of_nat id in
          if i < n then rets.(ids.(i)) <- (match res with RNil -> "nil" | _ -> "err")
        | _ -> ()) evs;
      Some (String.concat ";" reqs ^ "~" ^ String.concat "," (Array.to_list rets))
    end in
  if obs = "skip" || n = 0 then "ok" else begin
    let orders = permutations (List.init (n - 1) (fun i -> i + 1)) in
    let found = List.exists (fun order ->
      let rec ks k = k < n && ((match simulate order k with Some p -> p = obs | None -> false) || ks (k + 1)) in
      ks 0) orders in
    if found then "ok" else "NOSCHED"
  end

(* ---- recorded histories *)
let event_of cfg tk =
  let i = String.index tk '=' in
  let k = String.sub tk 0 i and v = String.sub tk (i + 1) (String.length tk - i - 1) in
  let f = Array.of_list (String.split_on_char ':' v) in
  let nat j = nat_of_int (int_of_n (n_of_hex f.(j))) in
  let tp j = (n_of_hex f.(j), n_of_hex f.(j + 1)) in
  let plus g s = list_of '+' g s in
  match k with
  | "A" -> EvAppend (tp 0)
  | "G" -> EvAssign (nat 0, n_of_hex f.(1), n_of_hex f.(2),
                     (if f.(3) = "." then [] else
                        (* t:p+t:p... was split on ':' — re-join *)
                        plus tp_of (String.concat ":" (Array.to_list (Array.sub f 3 (Array.length f - 3))))))
  | "F" -> let raw = z_of_hex f.(4) in
    let start = if f.(5) = "?" then start_of_raw cfg.cfg_start raw else z_of_hex f.(5) in
    EvOffsetFetch (nat 0, n_of_hex f.(1), tp 2, raw, start)
  | "I" -> EvReaderInit (nat 0, n_of_hex f.(1), tp 2, z_of_hex f.(4), z_of_hex f.(5))
  | "D" -> EvDeliver (nat 0, n_of_hex f.(1), tp 2, z_of_hex f.(4))
  | "C" -> EvCommitCall (nat 0, nat 1,
                         plus tpo_of (String.concat ":" (Array.to_list (Array.sub f 2 (Array.length f - 2)))))
  | "R" -> EvCommitRet (nat 0, nat 1, if f.(2) = "0" then RNil else RErr (zi 1))
  | "O" ->
    let n = Array.length f in
    let offs = plus tpo_of (String.concat ":" (Array.to_list (Array.sub f 3 (n - 5)))) in
    EvOffsetCommit (nat 0, n_of_hex f.(1), n_of_hex f.(2), offs, z_of_hex f.(n - 2), f.(n - 1) = "1")
  | _ -> failwith ("bad event " ^ tk)

let kind = function
  | EvOffsetCommit _ -> "commit-bound-or-covered" | EvCommitRet _ -> "sync-commit-recorded"
  | EvOffsetFetch _ -> "assignment-start" | EvReaderInit _ -> "reader-init"
  | EvDeliver _ -> "delivery-gap" | _ -> "other"

let check_history cfg (h : event list) =
  let first0 = (int_of_z cfg.cfg_start = -2) in
  let rec go h pos = match h with
    | [] -> None
    | e :: rest ->
      (match go rest (pos - 1) with
       | Some r -> Some r
       | None -> if check_event cfg first0 e rest then None else Some (kind e ^ "@" ^ string_of_int pos)) in
  match go h (List.length h) with
  | Some r -> "VIOL:" ^ r
  | None -> if lost_b h then "LOST" else if c03_holds cfg h then "ok" else "VIOL:predicate"

(* ---- random model runs *)
let run_model_labels cfg toks =
  let s = ref init in
  let ap l = match step cfg !s l with Some s' -> s := s' | None -> () in
  List.iter (fun tk ->
    let i = try String.index tk '=' with Not_found -> String.length tk in
    let k = String.sub tk 0 i in
    let v = if i < String.length tk then String.sub tk (i + 1) (String.length tk - i - 1) else "" in
    let f = Array.of_list (String.split_on_char ':' v) in
    let nat j = nat_of_int (int_of_n (n_of_hex f.(j))) in
    let tp j = (n_of_hex f.(j), n_of_hex f.(j + 1)) in
    match k with
    | "ap" -> ap (LAppend (tp 0))
    | "bump" -> ap LCoBump
    | "evict" -> ap (LCoEvict (n_of_hex f.(0)))
    | "compl" -> ap (LCoCompleting (f.(0) = "1"))
    | "js" ->
      let asg = if f.(2) = "." then [] else
          list_of '+' tp_of (String.concat ":" (Array.to_list (Array.sub f 2 (Array.length f - 2)))) in
      ap (LJoinSync (nat 0, f.(1) = "1", asg))
    | "jf" -> ap (LJoinFail (nat 0, f.(1) = "1"))
    | "of" -> ap (LOffsetFetch (nat 0))
    | "sub" -> ap (LSubscribe (nat 0))
    | "end" -> ap (LGenEnd (nat 0))
    | "unsub" -> ap (LUnsubscribe (nat 0))
    | "close" -> ap (LGenClose (nat 0))
    | "init" -> ap (LReaderInit (nat 0, tp 1))
    | "emit" -> ap (LReaderEmit (nat 0, tp 1))
    | "snap" -> ap (LFetchSnap (nat 0))
    | "recv" -> ap (LFetchRecv (nat 0))
    | "cc" ->
      let r = nat 0 in
      let ds = List.filter_map (function EvDeliver (r', _, t, o) when r' = r -> Some (t, o) | _ -> None) (!s).st_hist in
      let n = int_of_n (n_of_hex f.(1)) in
      if List.length ds > n then ap (LCommitCall (r, [List.nth ds n; List.hd ds]))
    | "lrecv" -> ap (LLoopRecv (nat 0))
    | "tick" -> ap (LLoopTick (nat 0))
    | "final" -> ap (LLoopFinal (nat 0))
    | "att" ->
      let fl = (match f.(1) with
          | "n" -> NoFault | "b" -> FDropBefore | "a" -> FDropAfter
          | c -> FCode (z_of_hex (String.sub c 1 (String.length c - 1)))) in
      ap (LLoopAttempt (nat 0, fl))
    | "giveup" -> ap (LLoopGiveUp (nat 0))
    | "cancel" ->
      (match ((!s).st_rd (nat 0)).rd_waiting with id :: _ -> ap (LCommitCancel (nat 0, id)) | [] -> ())
    | _ -> failwith ("bad label " ^ tk)) toks;
  check_history cfg (!s).st_hist

let eval (op : string) (a : string list) : string =
  match op, a with
  | "mkc", [m] -> str_tpos (makeCommits (tpos m))
  | "merge", [reset; st; cs] ->
    let st = if reset = "1" then [] else tpos st in
    str_tpos (sort_amap (merge st (tpos cs)))
  | "fo", [start; asg; committed; omit] ->
    let start = z_of_hex start and committed = tpos committed and omit = tps omit in
    let cm = List.filter (fun (t, _) -> not (List.exists (fun t' -> tp_eqb t t') omit)) committed in
    str_tpos (sort_amap (List.map (fun t -> (t, start_of_raw start (fetch_raw cm t))) (tps asg)))
  | "loop", mode :: toks -> run_loop (mode = "s") toks
  | "loopend", _ :: toks -> run_loopend toks
  | "hist", sync :: start :: toks ->
    let cfg = mk_cfg (sync = "1") (z_of_hex start) in
    let evs = if toks = ["."] then [] else List.map (event_of cfg) toks in
    check_history cfg (List.rev evs)
  | "quiet", sync :: start :: existing :: toks ->
    (* a multi-topic history run to quiescence: Q=<g> marks the settled generation *)
    let cfg = mk_cfg (sync = "1") (z_of_hex start) in
    let existing = tps existing in
    let g = ref None in
    let evs = List.filter_map (fun tk ->
      if tk = "." then None
      else if String.length tk > 2 && String.sub tk 0 2 = "Q=" then
        (g := Some (n_of_hex (String.sub tk 2 (String.length tk - 2))); None)
      else Some (event_of cfg tk)) toks in
    let h = List.rev evs in
    (match check_history cfg h, !g with
     | "ok", Some g ->
       if not (assignment_covers_existing_b existing g h) then "VIOL:assignment-covers-existing"
       else if not (all_delivered_b existing h) then "VIOL:not-all-delivered"
       else "ok"
     | "ok", None -> "VIOL:never-settled"
     | r, _ -> r)
  | "mrun", sync :: start :: toks -> run_model_labels (mk_cfg (sync = "1") (z_of_hex start)) toks
  | _ -> "BADCASE"

let () = run_lines (fun line ->
  let head = (match String.index_opt line '|' with Some i -> String.sub line 0 i | None -> line) in
  match words head with
  | id :: op :: args -> id ^ " " ^ (try eval op args with e -> "EXC:" ^ Printexc.to_string e)
  | _ -> "? BADLINE")
