(* c19_driver: evaluate the extracted model of the offset / metadata queries on the
   harness's cases.
   input  line: <id> <op> <args...> | <go result> | <features>
   output line: <id> <model result>
   Formats: see harness/cmd/c19/main.go (numbers hex, strings hex bytes, "." empty). *)
open C19_model
open C19_io

let sp c s = String.split_on_char c s
let plist sep f s = if s = "." || s = "" then [] else List.map f (sp sep s)
let cat sep l = if l = [] then "." else String.concat sep l
let zs = hex_of_z
let zp = z_of_hex
let str_of s : str = bytes_of_hex s
let s_of (s : str) = hex_of_bytes s
let zcmp a b = if Z.eqb a b then 0 else if Z.ltb a b then -1 else 1
let scmp a b = if str_eqb a b then 0 else if str_ltb a b then -1 else 1
let bool_s b = if b then "1" else "0"

(* name:items *)
let ptopic sep f s =
  match sp ':' s with
  | [name; items] -> (str_of name, if items = "" || items = "." then [] else List.map f (sp sep items))
  | _ -> failwith ("bad topic " ^ s)

(* ---- list offsets ---- *)
let preq_part s = match sp '/' s with
  | [p; e; ts] -> { qp_partition = zp p; qp_epoch = zp e; qp_ts = zp ts }
  | _ -> failwith "bad req part"
let preq_topics s = plist ';' (ptopic ',' preq_part) s
let preq rep iso topics = { q_replica = zp rep; q_isolation = zp iso; q_topics = preq_topics topics }
let preq_at s = match sp '@' s with [r; i; t] -> preq r i t | _ -> failwith "bad req"

let presp_part s = match sp '/' s with
  | [p; e; ts; o; ep] -> { rp_partition = zp p; rp_error = zp e; rp_ts = zp ts; rp_offset = zp o; rp_epoch = zp ep }
  | _ -> failwith "bad resp part"
let presp_topics s = plist ';' (ptopic ',' presp_part) s
let presult s =
  if s.[0] = 'E' then SubErr (zp (String.sub s 1 (String.length s - 1)))
  else match sp '@' (String.sub s 1 (String.length s - 1)) with
    | [th; ts] -> SubOk { r_throttle = zp th; r_topics = presp_topics ts }
    | _ -> failwith "bad result"

let freq_topics ts =
  cat ";" (List.map (fun (name, ps) ->
      s_of name ^ ":" ^ String.concat "," (List.map (fun p -> zs p.qp_partition ^ "/" ^ zs p.qp_epoch ^ "/" ^ zs p.qp_ts) ps)) ts)
let freq sep q = zs q.q_replica ^ sep ^ zs q.q_isolation ^ sep ^ freq_topics q.q_topics
let fresp_part p = zs p.rp_partition ^ "/" ^ zs p.rp_error ^ "/" ^ zs p.rp_ts ^ "/" ^ zs p.rp_offset ^ "/" ^ zs p.rp_epoch
let fresp_topics ts =
  cat ";" (List.map (fun (name, ps) -> s_of name ^ ":" ^ String.concat "," (List.map fresp_part ps)) ts)

let part_cmp a b =
  let c = zcmp a.rp_partition b.rp_partition in if c <> 0 then c else
  let c = zcmp a.rp_offset b.rp_offset in if c <> 0 then c else
  let c = zcmp a.rp_ts b.rp_ts in if c <> 0 then c else
  let c = zcmp a.rp_error b.rp_error in if c <> 0 then c else zcmp a.rp_epoch b.rp_epoch

let fmerged (r : lo_response) =
  let sorted = ref true in
  let rec chk_topics = function
    | (a, _) :: ((b, _) :: _ as rest) -> if not (str_ltb a b) then sorted := false; chk_topics rest
    | _ -> () in
  chk_topics r.r_topics;
  let rec chk_parts = function
    | a :: (b :: _ as rest) -> if not (part_le a b) then sorted := false; chk_parts rest
    | _ -> () in
  let ts = List.map (fun (name, ps) -> chk_parts ps; (name, List.stable_sort part_cmp ps)) r.r_topics in
  "R" ^ zs r.r_throttle ^ "@" ^ fresp_topics ts ^ "@s" ^ bool_s !sorted

let fmerge_result = function
  | MergePanic -> "PANIC"
  | MergeErr e -> "E" ^ zs e
  | MergeOk r -> fmerged r

(* ---- metadata ---- *)
let pids s = plist '+' zp s
let pmd_broker s = match sp '/' s with
  | [i; h; p; r] -> { mb_node = zp i; mb_host = str_of h; mb_port = zp p; mb_rack = str_of r }
  | _ -> failwith "bad broker"
let pmd_part s = match sp '/' s with
  | [e; i; l; rs; isr; off] -> { mp_error = zp e; mp_index = zp i; mp_leader = zp l; mp_replicas = pids rs; mp_isr = pids isr; mp_offline = pids off }
  | _ -> failwith "bad md part"
let pmd_topic s = match sp ':' s with
  | [hd; parts] ->
    (match sp '/' hd with
     | [e; n; i] -> { mt_error = zp e; mt_name = str_of n; mt_internal = (i = "1");
                      mt_parts = if parts = "" then [] else List.map pmd_part (sp ',' parts) }
     | _ -> failwith "bad md topic head")
  | _ -> failwith "bad md topic"
let pmd th cl ctrl bs ts =
  { md_throttle = zp th; md_cluster = str_of cl; md_controller = zp ctrl;
    md_brokers = plist ',' pmd_broker bs; md_topics = plist ';' pmd_topic ts }

let fbroker b = zs b.b_id ^ "_" ^ s_of b.b_host ^ "_" ^ zs b.b_port ^ "_" ^ s_of b.b_rack
let fbrokers l = cat "+" (List.map fbroker l)
let fpartition p =
  s_of p.pt_topic ^ "/" ^ zs p.pt_id ^ "/" ^ zs p.pt_error ^ "/" ^ fbroker p.pt_leader ^ "/" ^
  fbrokers p.pt_replicas ^ "/" ^ fbrokers p.pt_isr ^ "/" ^ fbrokers p.pt_offline
let fpartitions l = String.concat "," (List.map fpartition l)

(* ---- offset fetch / commit ---- *)
let pof_part s = match sp '/' s with
  | [p; o; m; e] -> { ofp_partition = zp p; ofp_offset = zp o; ofp_metadata = str_of m; ofp_error = zp e }
  | _ -> failwith "bad of part"
let pof th err ts = { ofr_throttle = zp th; ofr_error = zp err; ofr_topics = plist ';' (ptopic ',' pof_part) ts }
let sort_topics l = List.stable_sort (fun (a, _) (b, _) -> scmp a b) l
let fof_api (a : of_api) =
  "R" ^ zs a.oa_throttle ^ "/" ^ zs a.oa_err ^ "@" ^
  cat ";" (List.map (fun (name, ps) ->
      s_of name ^ ":" ^ String.concat "," (List.map (fun p ->
          zs p.oa_partition ^ "/" ^ zs p.oa_offset ^ "/" ^ s_of p.oa_metadata ^ "/" ^ zs p.oa_error) ps))
      (sort_topics a.oa_topics))

let eval (op : string) (a : string list) : string =
  match op, a with
  | "split", [rep; iso; topics] ->
    cat "~" (List.map (freq "@") (listoffsets_split (preq rep iso topics)))
  | "merge", [reqs; results] ->
    fmerge_result (listoffsets_merge (plist '~' preq_at reqs) (plist '~' presult results))
  | "lo", [iso; ulist; outcomes] ->
    let u : lo_user_request =
      plist ';' (ptopic ',' (fun s -> match sp '/' s with [p; ts] -> (zp p, zp ts) | _ -> failwith "bad user part")) ulist in
    let q = listoffsets_request (zp iso) u in
    let subs = listoffsets_split q in
    let outs = plist '~' (fun s -> sp '/' s) outcomes in
    if List.length outs <> List.length subs then "Q" ^ freq "@" q ^ " OUTCOMES-MISMATCH" else
    let results = List.map2 (fun sub o ->
        match sub.q_topics, o with
        | [(t, [p])], ["A"; e; ts; off; ep; th] ->
          SubOk { r_throttle = zp th;
                  r_topics = [(t, [{ rp_partition = p.qp_partition; rp_error = zp e; rp_ts = zp ts; rp_offset = zp off; rp_epoch = zp ep }])] }
        | _, ["F"; e] -> SubErr (zp e)
        | _ -> failwith "bad outcome") subs outs in
    let qs = "Q" ^ freq "@" q in
    (* the Transport's split round trip (join / await) with send = the outcome of each
       message: must be Merge over the aligned results whenever the outcomes are a function
       of the message (the same question asked twice got the same outcome) *)
    let table = List.combine subs results in
    let functional = List.for_all (fun (s1, r1) -> List.for_all (fun (s2, r2) -> s1 <> s2 || r1 = r2) table) table in
    let send m = (try List.assoc m table with Not_found -> SubErr Z0) in
    if functional && split_round_trip send q <> listoffsets_merge subs results then qs ^ " SPECDIFF" else
    (match listoffsets_merge subs results with
     | MergePanic -> qs ^ " PANIC"
     | MergeErr e -> qs ^ " E" ^ zs e
     | MergeOk resp ->
       (match listoffsets_client u resp with
        | None -> qs ^ " PANIC"
        | Some (th, m) ->
          (* (topic, partition, offset) answered for two different times: the map keeps one *)
          let times t p o =
            List.sort_uniq compare
              (List.concat_map (fun (t', ps) ->
                   if str_eqb t' t then
                     List.filter_map (fun e ->
                         if Z.eqb e.rp_partition p && Z.eqb e.rp_offset o
                            && not (Z.eqb e.rp_ts firstOffset) && not (Z.eqb e.rp_ts lastOffset)
                         then Some (zs (make_time e.rp_ts)) else None) ps
                   else []) resp.r_topics) in
          let m = List.stable_sort (fun ((t1, p1), _) ((t2, p2), _) ->
              let c = scmp t1 t2 in if c <> 0 then c else zcmp p1 p2) m in
          let entries = List.map (fun ((t, p), po) ->
              let offs = List.stable_sort (fun (a, _) (b, _) -> zcmp a b) po.po_offsets in
              s_of t ^ "/" ^ zs po.po_partition ^ "/" ^ zs po.po_first ^ "/" ^ zs po.po_last ^ "/" ^ zs po.po_error ^ "/" ^
              cat "+" (List.map (fun (o, tm) ->
                  if List.length (times t p o) > 1 then zs o ^ "=*" else zs o ^ "=" ^ zs tm) offs)) m in
          qs ^ " R" ^ zs th ^ "@" ^ cat "," entries))
  | "md", [th; cl; ctrl; bs; ts] ->
    let a = metadata_map (pmd th cl ctrl bs ts) in
    zs a.ma_throttle ^ " " ^ s_of a.ma_cluster ^ " " ^ fbroker a.ma_controller ^ " " ^
    cat "," (List.map fbroker a.ma_brokers) ^ " " ^
    cat ";" (List.map (fun t ->
        s_of t.at_name ^ "/" ^ bool_s t.at_internal ^ "/" ^ zs t.at_error ^ ":" ^ fpartitions t.at_parts) a.ma_topics)
  | "rp", [v6; ct; th; cl; ctrl; bs; ts] ->
    (match read_partitions (v6 = "1") (str_of ct) (pmd th cl ctrl bs ts) with
     | PartsErr c -> "err:" ^ zs c
     | PartsOk [] -> "ok:."
     | PartsOk l -> "ok:" ^ fpartitions l)
  | "rpq", [v6; ct; arg; th; cl; ctrl; bs; ts] ->
    (* arg: "-" no argument / nil slice, "." empty non-nil slice, else the names *)
    let arg = if arg = "-" then None else if arg = "." then Some [] else Some (List.map str_of (sp ',' arg)) in
    let ct = str_of ct in
    let wire = (match read_partitions_request ct arg with
        | None -> "-"
        | Some [] -> "."
        | Some l -> String.concat "," (List.map s_of l)) in
    "Q" ^ wire ^ " " ^
    (match read_partitions_call (v6 = "1") ct arg (pmd th cl ctrl bs ts) with
     | PartsErr c -> "err:" ^ zs c
     | PartsOk [] -> "ok:."
     | PartsOk l -> "ok:" ^ fpartitions l)
  | "addr", [api; req; cl] ->
    (* the clusters are "a" and "b"; "-" = no address.  The transport of the model answers
       with the name of the cluster asked; APIs the fake clusters implement report whose
       state they returned, the others only who was asked. *)
    let o s = if s = "-" then None else Some s in
    let stateful = List.mem api ["ListOffsets"; "Metadata"; "OffsetFetch"; "OffsetCommit"; "ConsumerOffsets"] in
    (match client_round_trip (fun a () -> a) (o req) (o cl) () with
     | None -> "err"
     | Some a ->
       if effective_addr (o req) (o cl) <> Some a then "SPECDIFF"
       else a ^ "/" ^ (if stateful then a else "-"))
  | "fan", [api; parts] ->
    (* parts: label:F (the sub-response was lost) or label:item+item (what its broker answered) *)
    let parse p = match sp ':' p with
      | [label; "F"] -> (label, PartErr (z_of_int 1))
      | [label; items] -> (label, PartOk (plist '+' (fun x -> x) items))
      | _ -> failwith "bad part" in
    let ps = List.map parse (sp ',' parts) in
    let fmt_ok l = "OK:" ^ cat "+" (List.sort compare l) in
    if api = "ListGroups" then begin
      (* labels are b<id>; the items are group@broker: the model attributes the groups of result i to broker i *)
      let brokers = List.map (fun (label, _) -> z_of_int (int_of_string (String.sub label 1 (String.length label - 1)))) ps in
      let strip = function
        | PartOk l -> PartOk (List.map (fun it -> List.hd (sp '@' it)) l)
        | PartErr e -> PartErr e in
      match listgroups_merge brokers (List.map (fun (_, r) -> strip r) ps) with
      | FanErr _ -> "ERR"
      | FanOk l -> fmt_ok (List.map (fun (g, b) -> g ^ "@" ^ zs b) l)
    end else
      (match concat_merge (List.map snd ps) with
       | FanErr _ -> "ERR"
       | FanOk l -> fmt_ok l)
  | "of", [ulist; th; err; ts] ->
    let u = plist ';' (ptopic '+' zp) ulist in
    let q = (match offsetfetch_request u with
        | None -> "-"
        | Some l -> cat ";" (List.map (fun (n, ps) -> s_of n ^ ":" ^ cat "+" (List.map zs ps)) l)) in
    "Q" ^ q ^ " " ^ fof_api (offsetfetch_map (pof th err ts))
  | "oc", [gen; ulist; th; rl] ->
    let u = plist ';' (ptopic ',' (fun s -> match sp '/' s with
        | [p; o; m] -> { occ_partition = zp p; occ_offset = zp o; occ_metadata = str_of m }
        | _ -> failwith "bad commit")) ulist in
    let q = offsetcommit_request (zp gen) u in
    let r = { ocr_throttle = zp th;
              ocr_topics = plist ';' (ptopic ',' (fun s -> match sp '/' s with [p; e] -> (zp p, zp e) | _ -> failwith "bad oc part")) rl } in
    let a = offsetcommit_map r in
    "Q" ^ zs q.ocq_generation ^ "/" ^ zs q.ocq_retention ^ "@" ^
    cat ";" (List.map (fun (n, cs) ->
        s_of n ^ ":" ^ String.concat "," (List.map (fun c -> zs c.occ_partition ^ "/" ^ zs c.occ_offset ^ "/" ^ s_of c.occ_metadata) cs)) q.ocq_topics) ^
    " R" ^ zs a.oca_throttle ^ "@" ^
    cat ";" (List.map (fun (n, ps) -> s_of n ^ ":" ^ String.concat "," (List.map (fun (p, e) -> zs p ^ "/" ^ zs e) ps))
               (sort_topics a.oca_topics))
  | "co", [asked; th; cl; ctrl; bs; ts; oth; oerr; ots] ->
    let md = metadata_map (pmd th cl ctrl bs ts) in
    (match consumer_offsets_request (str_of asked) md with
     | None -> "NOTOPIC"
     | Some (t, ids) ->
       (match consumer_offsets_result md (offsetfetch_map (pof oth oerr ots)) with
        | None -> "PANIC"
        | Some m ->
          let m = List.stable_sort (fun (a, _) (b, _) -> zcmp a b) m in
          "Q" ^ s_of t ^ ":" ^ cat "+" (List.map zs ids) ^ " R" ^ cat "," (List.map (fun (p, o) -> zs p ^ "/" ^ zs o) m)))
  | "seek", steps ->
    let cur = ref firstOffset in
    cat "," (List.map (fun s ->
        match sp '/' s with
        | [off; whence; ans] ->
          let b = (match sp ':' ans with
              | ["K"; f; l] -> OffsOk (zp f, zp l)
              | ["F"; c] -> OffsErrFirst (zp c)
              | ["L"; f; c] -> OffsErrLast (zp f, zp c)
              | _ -> failwith "bad answer") in
          let o = seek !cur (zp off) (zp whence) b in
          cur := o.so_offset;
          (match o.so_res with
           | SeekOk x -> "ok:" ^ zs x
           | SeekBadWhence -> "bw"
           | SeekErr c -> "err:" ^ zs c) ^ "/" ^ zs o.so_offset ^ "/" ^ hex_of_n o.so_requests
        | _ -> failwith "bad step") steps)
  | "roff", [topics] ->
    (match read_offset_resp (presp_topics topics) with
     | ZOk v -> "ok:" ^ zs v
     | ZErr c -> "err:" ^ zs c)
  | _ -> "BADCASE"

let () =
  run_lines (fun line ->
    let case = (match String.index_opt line '|' with
        | Some i -> String.sub line 0 i | None -> line) in
    match words case with
    | id :: op :: args -> id ^ " " ^ (try eval op args with e -> "EXN:" ^ Printexc.to_string e)
    | _ -> "0 BADLINE")
