(* c05_driver: evaluate the extracted record-set model (writers, readers) and the
   reference codec of Spec/RecordFormat.v on the harness's cases.
   input  line: <id> <op> <args...> | <go result> | <features>
   output line: <id> <model result> *)
open C05_model
open C05_io

(* byte strings of several hundred KB: table-driven conversions (same results as kvio's) *)
let byte_tab : n array = Array.init 256 n_of_int
let hexdig = "0123456789abcdef"
let bytes_of_hex (s : string) : n list =
  if s = "." || s = "-" then [] else begin
    let l = ref [] in
    for i = String.length s / 2 - 1 downto 0 do
      l := byte_tab.(hexval s.[2*i] * 16 + hexval s.[2*i+1]) :: !l
    done; !l
  end
let hex_of_bytes (l : n list) : string =
  if l = [] then "." else begin
    let buf = Buffer.create 4096 in
    List.iter (fun b -> let v = int_of_n b in
                Buffer.add_char buf hexdig.[(v lsr 4) land 15]; Buffer.add_char buf hexdig.[v land 15]) l;
    Buffer.contents buf
  end
let optbytes_of_hex (s : string) : n list option = if s = "-" then None else Some (bytes_of_hex s)
let hex_of_optbytes = function None -> "-" | Some l -> hex_of_bytes l

(* ---- the compression oracle shipped with each case: comp(codec, plain) = compressed *)
let oracle : (int * n list * n list) list ref = ref []
let missing = ref false
let parse_oracle (s : string) =
  oracle := [];
  if s <> "." then
    List.iter (fun e ->
      match String.split_on_char ':' e with
      | [c; p; z] -> oracle := (int_of_n (n_of_hex c), bytes_of_hex p, bytes_of_hex z) :: !oracle
      | _ -> failwith "bad oracle entry") (String.split_on_char ';' s)
let comp (c : n) (b : n list) : n list =
  let c = int_of_n c in
  match List.find_opt (fun (c', p, _) -> c' = c && p = b) !oracle with
  | Some (_, _, z) -> z
  | None -> missing := true; []
let decomp (c : n) (z : n list) : n list =
  let c = int_of_n c in
  match List.find_opt (fun (c', _, z') -> c' = c && z' = z) !oracle with
  | Some (_, p, _) -> p
  | None -> []

(* ---- records *)
let parse_hdrs (s : string) : (n list * n list option) list =
  if s = "." then [] else
    List.map (fun h ->
      match String.split_on_char '=' h with
      | [k; v] -> (bytes_of_hex k, optbytes_of_hex v)
      | _ -> failwith "bad header") (String.split_on_char ';' s)
let parse_irec (s : string) : irec =
  match String.split_on_char ':' s with
  | [off; ns; k; v; h] ->
    { i_off = z_of_hex off; i_ns = z_of_hex ns; i_key = optbytes_of_hex k; i_val = optbytes_of_hex v;
      i_hdrs = parse_hdrs h }
  | _ -> failwith ("bad record " ^ s)
let parse_irecs (s : string) : irec list =
  if s = "." then [] else List.map parse_irec (String.split_on_char ',' s)

let show_hdrs hs =
  if hs = [] then "." else
    String.concat ";" (List.map (fun (k, v) -> hex_of_bytes k ^ "=" ^ hex_of_optbytes v) hs)
let show_orec (r : orec) : string =
  String.concat ":" [hex_of_z r.o_off; hex_of_z r.o_ts; hex_of_optbytes r.o_key; hex_of_optbytes r.o_val;
                     show_hdrs r.o_hdrs]
let show_orecs rs = if rs = [] then "." else String.concat "," (List.map show_orec rs)

let show_written (bs : n list) : string =
  if !missing then "NOORACLE" else
  let d = match dec_set decomp bs with
    | Some its -> show_orecs (raw_records its)
    | None -> "REJECT:spec" in
  "OK " ^ hex_of_bytes bs ^ " D " ^ d

let rec nat_of_int_fast i = nat_of_int i

let eval (op : string) (a : string list) : string =
  missing := false;
  match op, a with
  | ("wp" | "ww"), [ver; attrs; now; orc; recs] ->
    parse_oracle orc;
    let rs = parse_irecs recs in
    let attrs = z_of_hex attrs and now = z_of_hex now in
    if ver = "2" then
      (match proto_v2 comp attrs now rs with
       | None -> "ERR norecord"
       | Some bs -> show_written bs)
    else show_written (proto_v1 comp attrs now rs)
  | "wv", [pv; attrs; now; orc; recs] ->
    (* Client.Produce / Writer at a negotiated Produce version: the model picks the format *)
    parse_oracle orc;
    let rs = parse_irecs recs in
    (match proto_produce comp (z_of_hex pv) (z_of_hex attrs) (z_of_hex now) rs with
     | None -> "ERR norecord"
     | Some bs -> show_written bs)
  | ("wl" | "wc"), [ver; codec; orc; recs] ->
    parse_oracle orc;
    let rs = parse_irecs recs in
    let codec = n_of_hex codec in
    if ver = "2" then
      (match legacy_v2 comp codec rs with
       | None -> "PANIC"
       | Some bs -> show_written bs)
    else show_written (legacy_v1 comp codec rs)
  | "rd", [min; orc; hex] ->
    parse_oracle orc;
    let bs = bytes_of_hex hex in
    let min = z_of_hex min in
    let p = match proto_read decomp bs with
      | POut (recs, e) -> show_orecs recs ^ (if e then "!err" else "!ok")
      | PPanic -> ".!panic"
      | PUnmodelled -> ".!unmodelled" in
    let body = (match bs with _ :: _ :: _ :: _ :: t -> t | _ -> []) in
    let plain_total = List.fold_left (fun acc (_, p, _) -> acc + List.length p) 0 !oracle in
    let fuel = nat_of_int (2 * (List.length body + plain_total) + 64) in
    let (mrecs, e) = msr_read decomp fuel min body in
    let m = show_orecs mrecs ^ (match e with
        | MEof -> "!eof" | MErr -> "!err" | MPanic -> "!panic" | MUnmodelled -> "!unmodelled") in
    let (its, _) = dec_prefix decomp (nat_of_int (List.length body)) body in
    "P " ^ p ^ " M " ^ m ^ " E " ^ show_orecs (records its)
  | ("pg" | "pgr"), [ops] ->
    (* page transition system: run the ops; pg prints the final refcounts and what every ref
       reads; pgr additionally prints a digest of the whole state at every "ck" *)
    let ni s = nat_of_int (int_of_n (n_of_hex s)) in
    let fuel = nat_of_int 400 in
    let pages_arr s = Array.of_list s.s_pages in
    let fnv h l = List.fold_left (fun h b -> ((h lxor (int_of_n b)) * 16777619) land 0xffffffff) h l in
    let digest s =
      let pa = pages_arr s in
      let bufs = List.map (fun bf ->
          if not bf.b_live then "x" else begin
            let off = ref 0 and h = ref 2166136261 in
            let ps = List.map (fun p ->
                let pg = pa.(int_of_nat p) in
                let len = List.length pg.p_data in
                let s = Printf.sprintf "%x.%x.%x" (int_of_nat p) !off len in
                off := !off + len; h := fnv !h pg.p_data; s) bf.b_pages in
            (if ps = [] then "-" else String.concat "_" ps) ^ "#" ^ Printf.sprintf "%x" !h
          end) s.s_bufs in
      let refcs = if s.s_pages = [] then "." else
          String.concat "," (List.map (fun pg -> Printf.sprintf "%x" (int_of_nat pg.p_refc)) s.s_pages) in
      String.concat "," bufs ^ "/" ^ refcs in
    let trace = ref [] and suffix = ref "" in
    let exec (s : pstate) (o : string) : pstate option =
      match String.split_on_char ':' o with
      | ["ck"] -> trace := (digest s ^ !suffix) :: !trace; suffix := ""; Some s
      | ["nb"] -> step s ONewBuf
      | ["np"; b; "f"] -> step s (ONewPage (ni b, None))
      | ["np"; b; p] -> step s (ONewPage (ni b, Some (ni p)))
      | ["ap"; b; d] -> step s (OAppend (ni b, bytes_of_hex d))
      | ["rf"; b; segs] ->
        let segs = if segs = "." || segs = "" then [] else
            List.map (fun sg -> match String.split_on_char '.' sg with
                | [p; lo; hi] -> (ni p, (ni lo, ni hi))
                | _ -> failwith "bad seg") (String.split_on_char ',' segs) in
        step s (ORef (ni b, segs))
      | ["ub"; b] -> step s (OUnrefBuf (ni b))
      | ["ur"; r] -> step s (OUnrefRef (ni r))
      | ["wat"; b; off; d] -> pb_write_at s (ni b) (ni off) (bytes_of_hex d)
      | ["rdf"; b; d; src; ret] ->
        let data = bytes_of_hex d in
        let src = if src = "." then [] else
            List.map (fun x -> if x = "f" then None else Some (ni x)) (String.split_on_char ',' src) in
        let cls = (match String.split_on_char '.' ret with [_; c] -> c | _ -> "?") in
        suffix := Printf.sprintf "=%x.%s" (List.length data) cls;
        pb_read_from fuel s (ni b) data src
      | _ -> failwith ("bad page op " ^ o) in
    let rec go s i = function
      | [] -> Ok s
      | o :: t -> (match exec s o with Some s' -> go s' (i + 1) t | None -> Error i) in
    (match go s0 0 (String.split_on_char ';' ops) with
     | Error i -> Printf.sprintf "DISABLED:%x" i
     | Ok s ->
       let refcs = if s.s_pages = [] then "." else
           String.concat "," (List.map (fun pg -> Printf.sprintf "%x" (int_of_nat pg.p_refc)) s.s_pages) in
       let reads = if s.s_refs = [] then "." else
           String.concat "," (List.mapi (fun i _ ->
               match read_ref s (nat_of_int i) with
               | None -> "x"
               | Some bs -> hex_of_bytes bs) s.s_refs) in
       let fin = refcs ^ " R " ^ reads in
       if op = "pgr" then String.concat ";" (List.rev !trace) ^ " " ^ fin else fin)
  | "pgc", [_; _] -> "ok"
  | "wf", [_; _; _] -> "ok"
  | "wa", [_; _; _] -> "res=nil reqs=1 log=once"
  | _ -> "BADCASE"

let () =
  ignore nat_of_int_fast;
  run_lines (fun line ->
    let case = (match String.index_opt line '|' with
        | Some i -> String.trim (String.sub line 0 i) | None -> String.trim line) in
    match words case with
    | id :: op :: args -> (try id ^ " " ^ eval op args with Failure m -> id ^ " DRIVERFAIL:" ^ m | Not_found -> id ^ " DRIVERFAIL:notfound" | Stack_overflow -> id ^ " DRIVERFAIL:stack")
    | _ -> "? BADLINE")
