(* c04_driver: schema codec model on the harness's cases (C04, C17, C20).
   ops:
     enc <schema idx> <corr> <client id> <value>   -> <frame hex> <decoded value>
     dec <schema idx> <frame hex>                  -> ok <corr> <value> | err eof | err malformed | panic | oom | hang
   value text: comma separated pre-order tokens (see harness/schemawalk). *)
open C04_model
open C04_io

let schema_arr = Array.of_list schemas

(* the pinned schema with the same (api, direction, version) as the generated one *)
let golden_of (m : msg_schema) : msg_schema option =
  List.find_opt (fun g -> g.ms_api = m.ms_api && g.ms_response = m.ms_response && g.ms_version = m.ms_version) golden_schemas

(* ---- parse a value ---- *)
let parse_value (s : string) : value =
  let toks = ref (String.split_on_char ',' s) in
  let next () = match !toks with t :: r -> toks := r; t | [] -> failwith "value: out of tokens" in
  let rest t = String.sub t 1 (String.length t - 1) in
  let rec go () : value =
    let t = next () in
    match t.[0] with
    | 'T' -> VBool true
    | 'F' -> VBool false
    | 'I' -> VInt (z_of_hex (rest t))
    | 'D' -> VFloat (n_of_hex (rest t))
    | 'S' -> VString (bytes_of_hex (rest t))
    | 'B' -> VBytes (optbytes_of_hex (rest t))
    | 'U' -> VUnit
    | 'O' -> VRecords (bytes_of_hex (rest t))
    | 'A' ->
      if t = "A-" then VArray (None, N0)
      else (match String.split_on_char ':' (rest t) with
          | [n; k] ->
            let n = int_of_string ("0x" ^ n) and k = int_of_string ("0x" ^ k) in
            let es = List.init k (fun _ -> go ()) in
            VArray (Some es, n_of_int (n - k))
          | _ -> failwith "bad array token")
    | 'R' ->
      (match String.split_on_char ':' (rest t) with
       | [n; m] ->
         let n = int_of_string ("0x" ^ n) and m = int_of_string ("0x" ^ m) in
         let fs = List.init n (fun _ -> go ()) in
         let ts = List.init m (fun _ -> go ()) in
         VStruct (fs, ts)
       | _ -> failwith "bad struct token")
    | _ -> failwith ("bad token " ^ t)
  in
  go ()

(* materialise pad as explicit zero elements (needed before encoding) *)
let rec expand (t : ty) (v : value) : value =
  match t, v with
  | TArray (_, _, et), VArray (Some es, pad) ->
    let es = List.map (expand et) es in
    VArray (Some (es @ List.init (int_of_n pad) (fun _ -> zero et)), N0)
  | TStruct (fts, tts), VStruct (fs, ts) ->
    VStruct (List.map2 expand fts fs, List.map2 (fun (_, t) v -> expand t v) tts ts)
  | _, _ -> v

(* ---- print a value (canonical: trailing zero elements of arrays are not listed) ---- *)
let rec print (t : ty) (v : value) (buf : Buffer.t) (first : bool ref) : unit =
  let tok s = (if !first then first := false else Buffer.add_char buf ','); Buffer.add_string buf s in
  match t, v with
  | _, VBool b -> tok (if b then "T" else "F")
  | _, VInt z -> tok ("I" ^ hex_of_z z)
  | _, VFloat n -> tok ("D" ^ hex_of_n n)
  | _, VString s -> tok ("S" ^ hex_of_bytes s)
  | _, VBytes b -> tok ("B" ^ hex_of_optbytes b)
  | _, VUnit -> tok "U"
  | _, VRecords raw -> tok (if List.length raw <= 4 then "O." else "O" ^ hex_of_bytes raw)
  | TArray (_, _, et), VArray (None, _) -> tok "A-"
  | TArray (_, _, et), VArray (Some es, pad) ->
    let z = zero et in
    let n = List.length es + int_of_n pad in
    let rec strip l = match l with x :: r when x = z -> strip r | _ -> l in
    let kept = List.rev (strip (List.rev es)) in
    tok (Printf.sprintf "A%x:%x" n (List.length kept));
    List.iter (fun e -> print et e buf first) kept
  | TStruct (fts, tts), VStruct (fs, ts) ->
    tok (Printf.sprintf "R%x:%x" (List.length fs) (List.length ts));
    List.iter2 (fun t v -> print t v buf first) fts fs;
    List.iter2 (fun (_, t) v -> print t v buf first) tts ts
  | _, _ -> tok "?"

let show t v = let b = Buffer.create 256 in print t v b (ref true); Buffer.contents b

(* the harness limit: 1 GiB memory budget *)
let cfg = n_of_hex "40000000"   (* budget; a one-field record extracts to its field *)

let class_of (r : 'a res) (ok : 'a -> string) : string =
  match r with
  | Ok (a, _) -> ok a
  | Err (EEof, _, _) -> "err eof"
  | Err (EMalformed, _, _) -> "err malformed"
  | Panic -> "panic"
  | Oom -> "oom"
  | OutOfFuel -> "OUTOFFUEL"

let eval (op : string) (a : string list) : string =
  match op, a with
  | "enc", [idx; corr; cid; v] ->
    let m = schema_arr.(int_of_string idx) in
    let v = expand m.ms_ty (parse_value v) in
    let corr = z_of_hex corr in
    let frame =
      if m.ms_response then write_response m.ms_flex m.ms_ty corr v
      else write_request m.ms_flex m.ms_ty m.ms_api m.ms_version corr (bytes_of_hex cid) v in
    (match frame with
     | None -> "ENCODE-ILLTYPED"
     | Some f ->
       let back =
         if m.ms_response then
           class_of (read_response cfg m.ms_flex m.ms_ty f)
             (fun (c, v') -> if c <> corr then "CORR-MISMATCH" else show m.ms_ty v')
         else
           class_of (read_request cfg (lookup_schema schemas false) f)
             (fun ((((k, ver), c), cid'), v') ->
                if k <> m.ms_api || ver <> m.ms_version || c <> corr then "HEADER-MISMATCH"
                else hex_of_bytes cid' ^ ":" ^ show m.ms_ty v') in
       hex_of_bytes f ^ " " ^ back)
  | ("dec" | "decnd"), [idx; f] ->
    let m = schema_arr.(int_of_string idx) in
    let f = bytes_of_hex f in
    class_of (read_response cfg m.ms_flex m.ms_ty f)
      (fun (c, v') -> "ok " ^ hex_of_z c ^ " " ^ show m.ms_ty v')
  | "encg", [idx; corr; cid; v] ->
    (* the canonical frame according to the PINNED schema; "same" when the generated schema equals it *)
    let m = schema_arr.(int_of_string idx) in
    (match golden_of m with
     | None -> "no-golden-schema"
     | Some g ->
       if g = m then "same" else
       (try
          let v = expand g.ms_ty (parse_value v) in
          let corr = z_of_hex corr in
          let frame =
            if g.ms_response then write_response g.ms_flex g.ms_ty corr v
            else write_request g.ms_flex g.ms_ty g.ms_api g.ms_version corr (bytes_of_hex cid) v in
          (match frame with None -> "golden-illtyped" | Some f -> hex_of_bytes f)
        with _ -> "golden-shape-differs"))
  | "decrec", _ -> "impl-only"
  | "nschemas", [] -> string_of_int (Array.length schema_arr)
  | _ -> "BADCASE"

let () =
  run_lines (fun line ->
    let case = (match String.index_opt line '|' with
        | Some i -> String.sub line 0 i | None -> line) in
    match words case with
    | id :: op :: args -> id ^ " " ^ (try eval op args with e -> "EXN:" ^ Printexc.to_string e)
    | _ -> "0 BADLINE")
