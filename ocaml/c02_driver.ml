(* c02_driver: evaluate the extracted C02 model on the harness's cases.
   input  line: <id> <op> <name=value ...>
   output line: <id> <model result>
   ops: l1 (one fetch response through new_batch/batch_run), enc (spec encoder),
        e2e / e2ef1 (the Reader LTS replayed on the journal of the real run). *)
open C02_model
open C02_io

let big_fuel = nat_of_int 200000
let kall = nat_of_int 20000

(* ---- fields ---- *)
let fields (ws : string list) : (string * string) list =
  List.map (fun w ->
    match String.index_opt w '=' with
    | Some i -> (String.sub w 0 i, String.sub w (i + 1) (String.length w - i - 1))
    | None -> (w, "")) ws
let get fs k = try List.assoc k fs with Not_found -> failwith ("missing field " ^ k)

(* ---- decompression / compression oracle ---- *)
let parse_blobs (s : string) : (int * string * string) list =
  if s = "." || s = "" then [] else
  List.map (fun b ->
    match String.split_on_char ':' b with
    | [c; comp; plain] -> (int_of_z (z_of_hex c), comp, plain)
    | _ -> failwith "bad blob") (split_on ',' s)

let decomp_of blobs : z -> n list -> n list option =
  fun code bs ->
    let c = int_of_z code in
    let h = hex_of_bytes bs in
    let rec find = function
      | [] -> None
      | (c', comp, plain) :: t -> if c' = c && comp = h then Some (bytes_of_hex plain) else find t in
    find blobs
let comp_of blobs : z -> n list -> n list =
  fun code bs ->
    let c = int_of_z code in
    let h = hex_of_bytes bs in
    let rec find = function
      | [] -> failwith "compress oracle: unknown plain text"
      | (c', comp, plain) :: t -> if c' = c && plain = h then bytes_of_hex comp else find t in
    find blobs

(* ---- records / layouts ---- *)
let parse_hdrs s =
  if s = "." then [] else
  List.map (fun kv ->
    match String.split_on_char '=' kv with
    | [k; v] -> (bytes_of_hex k, bytes_of_hex v)
    | _ -> failwith "bad header") (split_on '&' s)
let parse_record s =
  match String.split_on_char '~' s with
  | [o; ts; k; v; h] ->
    { r_off = z_of_hex o; r_ts = z_of_hex ts; r_key = optbytes_of_hex k; r_val = optbytes_of_hex v;
      r_hdrs = parse_hdrs h }
  | _ -> failwith ("bad record " ^ s)
let parse_records s = if s = "." then [] else List.map parse_record (split_on '+' s)
let parse_batch s =
  match String.split_on_char '/' s with
  | [f; c; b; l; ts; rs] ->
    { pb_fmt = z_of_hex f; pb_codec = z_of_hex c; pb_base = z_of_hex b; pb_lod = z_of_hex l;
      pb_ts = z_of_hex ts; pb_recs = parse_records rs }
  | _ -> failwith ("bad batch " ^ s)
let parse_layout s = if s = "." then [] else List.map parse_batch (split_on ';' s)

(* ---- messages ---- *)
let str_hdrs hs =
  if hs = [] then "." else
  String.concat "&" (List.map (fun (k, v) -> hex_of_bytes k ^ "=" ^ hex_of_bytes v) hs)
let ts_ms (t : z) = match t with Zneg _ -> Z0 | _ -> t      (* makeTime: t <= 0 is the zero Time *)
let str_msg (g : msg) =
  Printf.sprintf "%s/%s/%s/%s/%s" (hex_of_z g.g_off) (hex_of_z (ts_ms g.g_ts))
    (hex_of_bytes g.g_key) (hex_of_bytes g.g_val) (str_hdrs g.g_hdrs)
let str_msgs ms = if ms = [] then "." else String.concat "," (List.map str_msg ms)
let parse_msg s : msg =
  match String.split_on_char '/' s with
  | [o; ts; k; v; h] ->
    { g_off = z_of_hex o; g_ts = z_of_hex ts; g_key = bytes_of_hex k; g_val = bytes_of_hex v;
      g_hdrs = parse_hdrs h }
  | _ -> failwith ("bad msg " ^ s)

let str_err = function
  | EEOF -> "eof"
  | ERawEOF -> "eof"
  | ETimedOut -> "timeout"
  | EKafka c -> "k" ^ hex_of_z c
  | EFuel -> "FUEL"
  | EShort -> "short"
  | _ -> "fail"

let str_off (o : z) =
  match int_of_z o with
  | -1 -> "end" | -2 -> "start" | _ -> hex_of_z o

(* ---- l1 ---- *)
(* the property on one fetch, evaluated on the REAL code's result
   "<msgs>;<err>;<final>;<Close result>;<connection closed>":
   - the delivered messages are exactly the stored records in [fetch offset, Conn.offset after
     Close) (so Conn.offset never passes a record that was not delivered), on EVERY case;
   - when the connection was cut inside the announced message set (physcut): Batch.Close
     returns an error and the library closes the connection (the cut is never presented as a
     batch read to its end, the connection is not used again) *)
let l1_prop fs (go : string) (physcut : bool) : string =
  match List.assoc_opt "log" fs with
  | None -> "na"
  | Some l ->
    (match String.split_on_char ';' go with
     | [ms; _e; final; close; closed] when final <> "start" && final <> "end" ->
       let log = parse_records l in
       let ms = if ms = "." then [] else List.map parse_msg (split_on ',' ms) in
       let off = z_of_hex (get fs "off") and fin = z_of_hex final in
       if not (fetch_okb log off ms fin) then
         (* delivered in order from the fetch offset, the connection closed with an error, but
            Conn.offset is past a stored record that was not delivered *)
         (if physcut && close <> "nil" && closed = "1" && delivery_okb log off ms && int_of_z fin >= int_of_z off
          then "OFFSET-PASSES" else "VIOLATED")
       else if int_of_z fin < int_of_z off then "REGRESS"
       else if physcut && (close = "nil" || closed <> "1") then "UNREPORTED-CUT"
       else "ok"
     | _ -> "VIOLATED")

let str_close = function
  | None -> "nil"
  | Some EEOF -> "nil"
  | Some e -> (match e with ERawEOF -> "fail" | _ -> str_err e)

let eval_l1 fs =
  let blobs = parse_blobs (get fs "blobs") in
  let off = z_of_hex (get fs "off") and hwm = z_of_hex (get fs "hwm") in
  let declared = z_of_hex (get fs "declared") in
  let late = get fs "late" = "1" in
  let bytes = bytes_of_hex (get fs "bytes") in
  (* the partition header of the response: only its high_watermark field reaches the Batch *)
  let fld k d = (match List.assoc_opt k fs with Some v -> v | None -> d) in
  let ab = fld "ab" "." in
  let hdr = { fh_hwm = hwm; fh_lso = z_of_hex (fld "lso" (get fs "hwm")); fh_log_start = z_of_hex (fld "ls" "0");
              fh_aborted = (if ab = "." then [] else
                              List.map (fun a -> match String.split_on_char ':' a with
                                                 | [p; f] -> (z_of_hex p, z_of_hex f)
                                                 | _ -> failwith "bad aborted") (split_on '+' ab)) } in
  let version = z_of_int (int_of_string (get fs "v")) in
  match fetch_close_hdr (decomp_of blobs) big_fuel version off hdr bytes declared late with
  | None -> "panic"
  | Some ((((ms, e), final), cerr), closed) ->
    Printf.sprintf "%s;%s;%s;%s;%s" (str_msgs ms) (str_err e) (str_off final) (str_close cerr) (if closed then "1" else "0")

(* ---- rd: Conn.Read / Batch.Read with short buffers ---- *)
let str_rd connread = function
  | RVal v -> "v" ^ hex_of_bytes v
  | RShort -> "short"
  | REnd EEOF when connread -> "v" ^ hex_of_bytes []      (* Conn.Read: (0, nil) at the end of a batch *)
  | REnd e -> "end-" ^ str_err e
let str_ccls = function
  | CNil -> "nil" | CShortBuf -> "shortbuf"
  | CErr e -> (match e with ERawEOF -> "fail" | EEOF -> "nil" | _ -> str_err e)

let parse_calls s =
  if s = "" then [] else
  List.map (fun c -> match String.split_on_char ':' c with
    | [o; bytes; bufs] -> (z_of_hex o, bytes_of_hex bytes, List.map z_of_hex (split_on '+' bufs))
    | _ -> failwith "bad call") (split_on ',' s)

let eval_rd fs =
  let blobs = parse_blobs (get fs "blobs") in
  let hwm = z_of_hex (get fs "hwm") in
  let connread = get fs "mode" = "connread" in
  let one (off, bytes, bufs) =
    let b0 = new_batch off hwm bytes (z_of_int (List.length bytes)) false in
    let ((rs, b), short) = batch_reads (decomp_of blobs) big_fuel b0 bufs in
    let ((coff, cc), closed) = reads_close b short in
    Printf.sprintf "%s;%s;%s;%s;%s" (String.concat "+" (List.map (str_rd connread) rs))
      (if connread then "-" else str_off b.b_off) (str_off coff) (if connread then "-" else str_ccls cc)
      (if closed then "1" else "0") in
  String.concat "," (List.map one (parse_calls (get fs "calls")))

(* the property on the REAL code's output: the values obtained by "Read; on io.ErrShortBuffer
   grow the buffer and Read again" are the values of the stored records from the position, in
   order; after io.ErrShortBuffer the offsets are still at the record that was not handed out *)
let rd_prop fs (go : string) : string =
  let log = parse_records (get fs "log") in
  let pos = int_of_z (z_of_hex (get fs "pos")) in
  let expected = List.filter (fun r -> int_of_z r.r_off >= pos) log in
  let exp = ref expected and last = ref (pos - 1) and verdict = ref "ok" in
  let bad v = if !verdict = "ok" then verdict := v in
  (try
    List.iter (fun batch ->
      match String.split_on_char ';' batch with
      | [rs; boff; coff; _cc; _closed] ->
        List.iter (fun r ->
          if r = "short" then begin
            (match !exp with
             | [] -> bad "VALUES"
             | nxt :: _ ->
               let chk o = if o <> "-" && o <> "start" && o <> "end" then
                   (let o = int_of_z (z_of_hex o) in
                    if not (!last < o && o <= int_of_z nxt.r_off) then bad "SHORT-OFFSET") in
               chk boff; chk coff)
          end else if String.length r >= 1 && r.[0] = 'v' then begin
            let v = String.sub r 1 (String.length r - 1) in
            (match !exp with
             | nxt :: t when hex_of_bytes (opt_bytes nxt.r_val) = v -> exp := t; last := int_of_z nxt.r_off
             | _ -> bad "VALUES")
          end) (if rs = "" then [] else split_on '+' rs)
      | _ -> bad "VALUES") (if go = "" then [] else split_on ',' go)
  with _ -> bad "VALUES");
  !verdict

(* ---- enc ---- *)
let eval_enc fs =
  let blobs = parse_blobs (get fs "blobs") in
  let l = parse_layout (get fs "layout") in
  let off = z_of_hex (get fs "off") in
  hex_of_bytes (fetch_bytes (comp_of blobs) l off)

(* ---- e2e: replay the journal on the Reader LTS ---- *)
let eval_e2e fs =
  let blobs = parse_blobs (get fs "blobs") in
  let v = get fs "v" in
  let log = parse_records (get fs "log") in
  let _ = v in
  let cfg = { c_max_attempts = z_of_int 3; c_oor_error = false } in
  let run = fetch_run (decomp_of blobs) big_fuel in
  let st = ref r_init in
  let delivered = ref [] in          (* model's returns, newest first *)
  let problems = ref [] in
  let note s = problems := s :: !problems in
  let panicked = ref false in
  let step l =
    if !panicked then None else
    match r_step run cfg !st l with
    | RState (s, ret) -> st := s; Some ret
    | RPanic -> panicked := true; note "PANIC"; None
    | RStuck -> None in
  (* FetchMessage that returned something: begin, then take until an item passes the filter *)
  (* a FetchMessage call of the real run that gave up (context expired) before this point *)
  let abort_call () = (match (!st).r_call with Some _ -> ignore (step LAbort) | None -> ()) in
  let fetch_message () =
    abort_call ();
    ignore (step LBegin);
    let rec loop n =
      if n = 0 then None else
      match step LTake with
      | Some (Some item) -> Some item
      | Some None -> loop (n - 1)
      | None -> None in
    loop 100000 in
  let gen_of g = z_of_hex g in
  let conn_off gv =
    let rec find = function
      | [] -> None
      | (v', g) :: t -> if v' = gv then Some g else find t in
    find (!st).r_gens in
  (* the stretches of the real run, for the property predicate *)
  (* cur_res: the absolute offset the placeholder (FirstOffset / LastOffset) of the current stretch was
     FIRST resolved to: the ListOffsets answers of the first initialised connection of its generation *)
  let stretches = ref [] and cur = ref [] and cur_start = ref (z_of_int (-2)) and cur_res = ref None in
  let toks = let e = get fs "ev" in if e = "." || e = "" then [] else split_on ',' e in
  List.iter (fun tok ->
    match String.split_on_char ':' tok with
    | ["P"; off; lag] ->
      (* Reader.Offset() / Reader.Lag() as the user saw them *)
      if hex_of_z (!st).r_offset <> off then
        note (Printf.sprintf "OFFSET model %s real %s" (hex_of_z (!st).r_offset) off);
      if hex_of_z (!st).r_lag <> lag then
        note (Printf.sprintf "LAG model %s real %s" (hex_of_z (!st).r_lag) lag)
    | "S" :: o :: _ ->
      abort_call ();
      let o = z_of_hex o in
      let restarted = ((!st).r_offset <> o) in
      ignore (step (LSetOffset o));
      if restarted then begin
        stretches := (!cur_start, !cur_res, List.rev !cur) :: !stretches; cur := []; cur_start := o; cur_res := None
      end
    | ["D"; m] ->
      let gm = parse_msg m in
      cur := gm :: !cur;
      (match fetch_message () with
       | Some (OMsg (g, _)) -> delivered := str_msg g :: !delivered
       | Some (OErr e) -> delivered := ("E" ^ str_err e) :: !delivered
       | None -> delivered := "NONE" :: !delivered)
    | ["E"; cls] ->
      (match fetch_message () with
       | Some (OMsg (g, _)) -> delivered := str_msg g :: !delivered
       | Some (OErr e) -> delivered := ("E" ^ str_err e) :: !delivered
       | None -> delivered := "NONE" :: !delivered)
    | ["I"; g; _conn; f1; l1; f2; l2] ->
      abort_call ();
      ignore (step LBegin);
      if !cur_res = None && gen_of g = (!st).r_version then
        cur_res := Some (match int_of_z !cur_start with -2 -> z_of_hex f1 | -1 -> z_of_hex l1 | _ -> !cur_start);
      ignore (step (LGen (gen_of g, GInit (z_of_hex f1, z_of_hex l1, z_of_hex f2, z_of_hex l2), kall)))
    | ["X"; g] ->
      ignore (step (LGen (gen_of g, GDialFail, kall)))
    | "F" :: g :: _conn :: reqoff :: kind ->
      let gv = gen_of g in
      (match conn_off gv with
       | Some gs ->
         if hex_of_z gs.g_conn <> reqoff then
           note (Printf.sprintf "REQOFF gen %s model %s real %s" g (hex_of_z gs.g_conn) reqoff)
       | None -> note ("NOGEN " ^ g));
      let r = (match kind with
        | ["d"; hwm; declared; late; bytes] ->
          FData (z_of_hex hwm, bytes_of_hex bytes, z_of_hex declared, late = "1")
        | ["e"; code] -> FErr (z_of_hex code)
        | ["t"] -> FTransport
        | ["n"] -> FNoProgress
        | _ -> failwith ("bad F token " ^ tok)) in
      ignore (step (LGen (gv, GFetch r, kall)))
    | ["N"; g; _conn; reqoff] ->
      (* the fetch pending at the end: issued at the model's Conn.offset *)
      (match conn_off (gen_of g) with
       | Some gs ->
         if gs.g_phase = PRead && hex_of_z gs.g_conn <> reqoff then
           note (Printf.sprintf "REQOFF gen %s model %s real %s (pending at the end)" g (hex_of_z gs.g_conn) reqoff)
       | None -> note ("NOGEN " ^ g))
    | ["O"; g; _conn; "-"] ->
      ignore (step (LGen (gen_of g, GOffsets None, kall)))
    | ["O"; g; _conn; f; l] ->
      ignore (step (LGen (gen_of g, GOffsets (Some (z_of_hex f, z_of_hex l)), kall)))
    | _ -> failwith ("bad token " ^ tok)) toks;
  stretches := (!cur_start, !cur_res, List.rev !cur) :: !stretches;
  (* the property predicate on what the REAL reader returned *)
  let first = z_of_hex (get fs "first") and last = z_of_hex (get fs "last") in
  let resolve o =
    match int_of_z o with
    | -2 -> first | -1 -> last
    | _ -> o in
  let prop_ok = List.for_all (fun (s, res, ms) ->
      delivery_okb log (match res with Some a when int_of_z s < 0 -> a | _ -> resolve s) ms) !stretches in
  let d = List.rev !delivered in
  Printf.sprintf "%s;%s;%s"
    (if d = [] then "." else String.concat "," d)
    (if prop_ok then "prop-ok" else "PROP-VIOLATED")
    (if !problems = [] then "ok" else String.concat "+" (List.rev !problems))

let eval (op : string) (ws : string list) : string =
  let fs = fields ws in
  match op with
  | "l1" -> eval_l1 fs
  | "enc" -> eval_enc fs
  | "rd" -> eval_rd fs
  | "e2e" | "e2ef1" -> eval_e2e fs
  | _ -> "BADOP"

let () =
  run_lines (fun line ->
    let parts = String.split_on_char '|' line in
    let head = String.trim (List.hd parts) in
    let go = (match parts with _ :: g :: _ -> String.trim g | _ -> "") in
    let feats = (match parts with _ :: _ :: f :: _ -> "," ^ String.trim f ^ "," | _ -> "") in
    let has_feat f =
      let f = "," ^ f ^ "," in
      let n = String.length f and m = String.length feats in
      let rec go i = i + n <= m && (String.sub feats i n = f || go (i + 1)) in go 0 in
    match words head with
    | id :: op :: rest ->
      (try
         let r = id ^ " " ^ eval op rest in
         if op = "l1" && go <> "" then r ^ "\n" ^ id ^ ".prop " ^ l1_prop (fields rest) go (has_feat "physcut")
         else if op = "rd" then r ^ "\n" ^ id ^ ".prop " ^ rd_prop (fields rest) go
         else r
       with
       | Failure m -> id ^ " DRIVER-ERROR " ^ m
       | Not_found -> id ^ " DRIVER-ERROR not_found"
       | Stack_overflow -> id ^ " DRIVER-ERROR stack_overflow")
    | _ -> "? BADLINE")
