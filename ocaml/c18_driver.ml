(* c18_driver: evaluate the extracted connection set-up model (Model/Sasl.v, run_case) on the
   harness's cases.
   input  line: <id> addr <api> <mech> <addrclass> <hsmax> | ...
                <id> conc <path> <mech> <hsmax> <pattern of r/w/n> | ...
                <id> run <path> <mech> <hsmax> <authmax> <cred> <fstep> <fkind> <credidx> | ...
                <id> rawread <path> <mech> <cred> <fstep> <prefix> <npayload> <close|silent> | ...
   output line: <id> J=<journal> E=<0|1> C=<0|1>   |   <id> MECHERR

   The journal is the model's trace as the scripted broker of harness/saslfake would
   journal it: one token per client write ("<key>.<ver>" in hex, "raw"), "V" when the
   broker's genuine final success response completed the mechanism; after the broker has
   sent a rejection or an injected fault every further client write is marked "!" and no
   "V" is journalled.  E: dialling (or the first use) returned an error.  C: the client
   had closed the connection when dialling returned. *)
open C18_model
open C18_io

let t_junk = z_of_int 99

let opt_ver s = if s = "-" then None else Some (z_of_hex s)

let reaction_of_kind = function
  | "unsup" -> RErr (z_of_int 33)
  | "authfail" -> RErr (z_of_int 58)
  | "trunc" | "short" | "corrid" -> RMalformed
  | "neglen" -> RNegLen
  | "junk" -> ROk [t_junk]
  | "close" -> RClose
  | k -> failwith ("unknown fault kind " ^ k)

let is_fault_reaction = function
  | ROk [t] when t = t_junk -> true
  | ROk _ -> false
  | _ -> true

(* [fault_at]: the index (among the broker's reactions) of an injected raw response, which
   the broker journals as a fault whatever its content *)
let render ?(fault_at = -1) (s : nat state) : string =
  begin
    let failed = ref false in
    let nrecv = ref 0 in
    let toks = ref [] in
    let add t = toks := (if !failed then t ^ "!" else t) :: !toks in
    List.iter (fun e ->
      match e with
      | ESend (MReq (k, v)) -> add (hex_of_z k ^ "." ^ hex_of_z v)
      | ESend MRaw -> add "raw"
      | ERecv r ->
        if is_fault_reaction r || !nrecv = fault_at then failed := true;
        incr nrecv
      | EVerdict -> if not !failed then toks := "V" :: !toks
      | EHandOut | EClose | ERefused -> ()) (trace s);
    let j = if !toks = [] then "." else String.concat "," (List.rev !toks) in
    let e = if handed_out s then "0" else "1" in
    let c = (match s.ph with PFailed -> "1" | _ -> "0") in
    Printf.sprintf "J=%s E=%s C=%s" j e c
  end

let eval (op : string) (a : string list) : string =
  match op, a with
  | "run", [path; mech; hs; au; cred; fstep; fkind; _credidx] ->
    if cred = "prohib" then "MECHERR" else begin
      let p = (match path with "d" -> Dialer | "t" -> Transport | _ -> failwith "path") in
      let k = (match mech with "plain" -> MPlain | "s256" | "s512" -> MScram | _ -> failwith "mech") in
      let c = (match cred with
          | "right" -> CredRight | "wrongpw" -> CredWrongPassword | "nouser" -> CredUnknownUser
          | _ -> failwith "cred") in
      let adv = { hs_max = opt_ver hs; auth_max = opt_ver au; dial_addr = AddrNumericPort } in
      let fault = if fstep = "-" then None
        else if String.length fkind > 4 && String.sub fkind 0 4 = "err:" then begin
          (* "err:<code>:<null|empty|text|->": the response of that step as the broker encodes
             it; the model decides on the error code alone (fault_of_response) *)
          match String.split_on_char ':' fkind with
          | [_; code; mode] ->
            let msg = (match mode with
                | "null" | "-" -> None | "empty" -> Some [] | "text" -> Some [z_of_int 65]
                | _ -> failwith "message mode") in
            fault_of_response (nat_of_int (int_of_z (z_of_hex fstep)))
              { error_code = z_of_hex code; error_message = msg; resp_payload = [] }
          | _ -> failwith "err kind"
        end
        else Some (nat_of_int (int_of_z (z_of_hex fstep)), reaction_of_kind fkind) in
      render (run_case p adv k c fault)
    end
  | "addr", [api; mech; addr; hs] ->
    (* the dial address class; api: d DialContext, dl Dial, lp LookupPartition, ld DialLeader
       (a second connection, to the leader's numeric address: X=), t Transport, tr Transport
       with a BrokerResolver (grabConnOrConnect looks at the address BEFORE dialling: a
       refused address makes no connection at all, which is outside the one-connection model) *)
    let p = (match api with "d" | "dl" | "lp" | "ld" -> Dialer | "t" | "tr" -> Transport | _ -> failwith "api") in
    let k = (match mech with "plain" -> MPlain | "s256" | "s512" -> MScram | _ -> failwith "mech") in
    let ac = (match addr with
        | "num" -> AddrNumericPort | "noport" -> AddrNoPort | "svc" -> AddrServiceName | "ipv6" -> AddrIPv6
        | "zero" -> AddrPortZero | "huge" -> AddrPortHuge | "empty" -> AddrEmpty | _ -> failwith "addr") in
    let hsv = opt_ver hs in
    let au = (match hsv with Some v when int_of_z v >= 1 -> Some (z_of_int 1) | _ -> None) in
    if api = "tr" && addr = "svc" then "NOCONN E=1" else begin
      let s = run_case p { hs_max = hsv; auth_max = au; dial_addr = ac } k CredRight None in
      let base = render s in
      if api = "ld" then begin
        if handed_out s then
          base ^ " X=" ^ (let s2 = run_case p { hs_max = hsv; auth_max = au; dial_addr = AddrNumericPort } k CredRight None in
                          let r = render s2 in
                          (* J=<journal> E=.. C=.. -> the journal *)
                          String.sub r 2 (String.index r ' ' - 2))
        else base ^ " X=-"
      end else base
    end
  | "conc", [path; mech; hs; pattern] ->
    (* overlapping set-ups over one Mechanism value: sessions are independent, each connection is
       the single-connection model of its own script *)
    let p = (match path with "d" -> Dialer | "t" -> Transport | _ -> failwith "path") in
    let k = (match mech with "plain" -> MPlain | "s256" | "s512" -> MScram | _ -> failwith "mech") in
    let hsv = opt_ver hs in
    let au = (match hsv with Some v when int_of_z v >= 1 -> Some (z_of_int 1) | _ -> None) in
    let one ch =
      let c = (match ch with 'r' -> CredRight | 'w' -> CredWrongPassword | 'n' -> CredUnknownUser | _ -> failwith "pattern") in
      render (run_case p { hs_max = hsv; auth_max = au; dial_addr = AddrNumericPort } k c None) in
    String.concat " / " (List.map one (List.init (String.length pattern) (String.get pattern)))
  | "rawread", [path; mech; cred; fstep; prefix; npayload; ending] ->
    let p = (match path with "d" -> Dialer | "t" -> Transport | _ -> failwith "path") in
    let k = (match mech with "plain" -> MPlain | "s256" | "s512" -> MScram | _ -> failwith "mech") in
    let c = (match cred with
        | "right" -> CredRight | "wrongpw" -> CredWrongPassword | "nouser" -> CredUnknownUser
        | _ -> failwith "cred") in
    let step = int_of_z (z_of_hex fstep) in
    let avail = List.init (int_of_z (z_of_hex npayload)) (fun _ -> z_of_int 106) in
    let e = (match ending with "close" -> EndClose | "silent" -> EndSilence | _ -> failwith "ending") in
    let (s, r) = run_raw_case p k c (nat_of_int step) (z_of_hex prefix) avail e in
    let cls = (match r.rr_out with
        | RROk _ -> if handed_out s then "ok" else "mech"
        | RREof -> "eof" | RRUnexpectedEof -> "ueof" | RRProtocol -> "proto" | RRTimeout -> "timeout") in
    (* the model's allocation and received-payload counters travel after " ; " (not compared) *)
    render ~fault_at:step s ^ " K=" ^ cls ^ " ; malloc=" ^ hex_of_n r.rr_alloc ^ " mrecv=" ^ hex_of_n r.rr_received
  | _ -> "BADCASE"

let () = run_lines (fun line ->
    let head = (match String.index_opt line '|' with
        | Some i -> String.sub line 0 i | None -> line) in
    match words head with
    | id :: op :: args -> id ^ " " ^ (try eval op args with Failure m -> "DRIVERFAIL " ^ m)
    | _ -> "? BADLINE")
