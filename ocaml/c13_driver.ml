(* c13_driver: evaluate the extracted balancer model on the harness's cases.
   input  line: <id> <op> <args...> | <go result> | <features>
   output line: <id> <model result>           (SPECDIFF when model <> reference spec) *)
open C13_model
open C13_io

let two31 = n_of_hex "80000000"

(* [offered n] of the model is map Z.of_nat (seq 0 n): quadratic with unary nat, so
   the driver builds the same list directly (checked equal for a small n here). *)
let offered_fast (n : int) : z list = List.init n z_of_int
let () = assert (offered_fast 37 = offered (nat_of_int 37))

let eval (op : string) (a : string list) : string =
  match op, a with
  | "fnv", [k] ->
    let k = bytes_of_hex k in
    let m = fnv1a32 k in
    if hex_of_z (fnv1a32_spec k) <> hex_of_n m then "SPECDIFF" else hex_of_n m
  | "crc", [k] ->
    let k = bytes_of_hex k in
    hex_of_n (crc32_ieee k)
  | "mm", [k] ->
    let k = bytes_of_hex k in
    let m = murmur2 k in
    if hex_of_n (u32 (java_murmur2 k)) <> hex_of_n m then "SPECDIFF" else hex_of_n m
  | "hashseq", steps ->
    let st = ref (rr_init Z0) in
    let res = List.map (fun s ->
      match String.split_on_char ':' s with
      | [n; k] ->
        let n = int_of_n (n_of_hex n) in
        let key = optbytes_of_hex k in
        (match hash_step !st key (offered_fast n) with
         | None -> "PANIC"
         | Some (p, st') ->
           st := st';
           (match key with
            | Some kb when hex_of_z (sarama_hash kb (z_of_int n)) <> hex_of_z p -> "SPECDIFF"
            | _ -> hex_of_z p))
      | _ -> "BADCASE") steps in
    String.concat "," res
  | "ref", [n; k] ->
    let n = int_of_n (n_of_hex n) in
    (match optbytes_of_hex k with
     | None -> (match refhash_balance N0 None (offered_fast n) with Some _ -> "Rin" | None -> "PANIC")
     | Some kb ->
       (match refhash_balance N0 (Some kb) (offered_fast n) with
        | None -> "PANIC"
        | Some p -> if hex_of_z (sarama_refhash kb (z_of_int n)) <> hex_of_z p then "SPECDIFF" else hex_of_z p))
  | "crcb", [c; ps; k] ->
    let cons = (c = "1") in
    let ps = zlist_of_csv ps in
    let key = optbytes_of_hex k in
    let kb = (match key with None -> [] | Some b -> b) in
    if kb = [] && not cons then
      (match crc32_balance cons (n_of_int 12345) key ps with Some p when List.mem p ps -> "Rin" | _ -> "Rout")
    else (match crc32_balance cons N0 key ps with
        | None -> "PANIC"
        | Some p ->
          let i = int_of_z (rdkafka_consistent kb (z_of_int (List.length ps))) in
          if List.nth ps i <> p then "SPECDIFF" else hex_of_z p)
  | "mmb", [c; ps; k] ->
    let cons = (c = "1") in
    let ps = zlist_of_csv ps in
    let key = optbytes_of_hex k in
    if key = None && not cons then
      (match murmur2_balance cons (n_of_int 54321) key ps with Some p when List.mem p ps -> "Rin" | _ -> "Rout")
    else (match murmur2_balance cons N0 key ps with
        | None -> "PANIC"
        | Some p ->
          let kb = (match key with None -> [] | Some b -> b) in
          let i = int_of_z (java_partition kb (z_of_int (List.length ps))) in
          if List.nth ps i <> p then "SPECDIFF" else hex_of_z p)
  | "rr", chunk :: preset :: calls ->
    let st = ref { rr_chunk = z_of_hex chunk; rr_counter = n_of_hex preset } in
    let res = List.map (fun ps ->
      match rr_step !st (zlist_of_csv ps) with
      | None -> "PANIC"
      | Some (p, st') -> st := st'; hex_of_z p) calls in
    String.concat "," (res @ [hex_of_n (!st).rr_counter])
  | "lb", calls ->
    let st = ref [] in
    let res = List.map (fun c ->
      match String.split_on_char ':' c with
      | [ps; sz] ->
        (match lb_step !st (n_of_hex sz) (zlist_of_csv ps) with
         | None -> "PANIC"
         | Some (p, st') -> st := st'; hex_of_z p)
      | _ -> "BADCASE") calls in
    String.concat "," res
  | "wrt", [cfg; n; sizes] ->
    (* the Writer's balancer over several WriteMessages calls: one round-robin state for the
       Writer's life (default balancer = RoundRobin with chunk size 0); per call the picks are
       compared as a sorted list, across calls in order *)
    let n = int_of_n (n_of_hex n) in
    let chunk = if cfg = "default" then z_of_hex "0" else z_of_hex cfg in
    let st = ref (rr_init chunk) in
    let ps = offered_fast n in
    let calls = List.map (fun h -> int_of_n (n_of_hex h)) (String.split_on_char ',' sizes) in
    String.concat ";" (List.map (fun k ->
      let picks = List.init k (fun _ ->
        match rr_step !st ps with
        | None -> -1
        | Some (p, st') -> st := st'; int_of_z p) in
      let picks = List.sort compare picks in
      String.concat "," (List.map (fun p -> Printf.sprintf "%x" p) picks)) calls)
  | "wrtm", _ ->
    (* multi-topic Writer: the harness compared the partition list offered for every message with
       0..n-1 of the message's topic (Model/Balancers.offered) and the produced partition with the
       balancer's result for that list *)
    "ok"
  | "hashconc", _ ->
    (* purity under concurrent use: the harness compared every concurrent call with the same
       call made sequentially (Model: the keyed balancers are functions, no state) *)
    "ok"
  | "parts", _ ->
    (* the list the Writer offers is 0..n-1 for every caller (Model/Balancers.offered); the
       harness evaluated that on the lists it received, also under concurrent cache growth *)
    "ok"
  | "rrconc", [chunk; n; total] ->
    let n = int_of_n (n_of_hex n) and total = int_of_n (n_of_hex total) in
    let cnt = Array.make n 0 in
    let st = ref (rr_init (z_of_hex chunk)) in
    let ps = offered_fast n in
    for _ = 1 to total do
      match rr_step !st ps with
      | None -> ()
      | Some (p, st') -> st := st'; let i = int_of_z p in cnt.(i) <- cnt.(i) + 1
    done;
    String.concat "," (List.map (fun c -> Printf.sprintf "%x" c) (Array.to_list cnt))
  | "lbconc", [sz; n; total] ->
    let n = int_of_n (n_of_hex n) and total = int_of_n (n_of_hex total) in
    let cnt = Array.make n 0 in
    let st = ref [] in
    let ps = offered_fast n in
    for _ = 1 to total do
      match lb_step !st (n_of_hex sz) ps with
      | None -> ()
      | Some (p, st') -> st := st'; let i = int_of_z p in cnt.(i) <- cnt.(i) + 1
    done;
    (* any linearisation of equal-size calls gives these counts up to which
       partitions carry the remainder: compare sorted *)
    let l = List.sort compare (Array.to_list cnt) in
    String.concat "," (List.map (fun c -> Printf.sprintf "%x" c) l)
  | _ -> "BADCASE"

let () =
  ignore two31;
  run_lines (fun line ->
    let case = (match String.index_opt line '|' with
        | Some i -> String.sub line 0 i | None -> line) in
    match words case with
    | id :: op :: args -> id ^ " " ^ (try eval op args with e -> "EXN:" ^ Printexc.to_string e)
    | _ -> "0 BADLINE")
