(* c16_driver: evaluate the extracted xerial / codec-pool model on the harness's cases.
   input  line: <id> <op> <args...>
   output line: <id> <model result>
   ops:
     xw <table> <obj> <stream>...     stream = framed:room:op;op;...   op = W<hex> | R<hex>/<limits> | F
     xr <table> <obj> <stream>...     stream = srchex:R<count>x<sizes> | srchex:T
     pool <kind> <action>...          action = N<fail>:<pick|-> | U<w> | C<w>
     rt / hist / conc / mix / proto   implementation-only predicates, echoed as "ok"
   <table> = block:chunk,...  ("!" for a chunk the decoder rejects): the snappy block
   codec as the Go side observed it; it answers the model's enc / dec / declen calls.
   A call outside the table means the model asked for a block the implementation
   never produced: ORACLE-MISS. *)
open C16_model
open C16_io

exception Miss of string

let hexs (l : n list) : string = hex_of_bytes l

(* table: (block hex, chunk hex) list *)
let parse_table (s : string) : (string * string) list =
  if s = "." then [] else
    List.map (fun e ->
        match String.index_opt e ':' with
        | Some i -> (String.sub e 0 i, String.sub e (i + 1) (String.length e - i - 1))
        | None -> failwith "bad table entry") (split_on ',' s)

let oracles (tab : (string * string) list) =
  let by_block = Hashtbl.create 16 and by_chunk = Hashtbl.create 16 in
  List.iter (fun (b, c) ->
      if b <> "!" then Hashtbl.replace by_block b c;
      Hashtbl.replace by_chunk c b) tab;
  let enc (b : n list) : n list =
    match Hashtbl.find_opt by_block (hexs b) with
    | Some c -> bytes_of_hex c
    | None -> raise (Miss "enc") in
  let dec (c : n list) : n list option =
    match Hashtbl.find_opt by_chunk (hexs c) with
    | Some "!" -> None
    | Some b -> Some (bytes_of_hex b)
    | None -> raise (Miss "dec") in
  let declen (c : n list) : n option =
    match Hashtbl.find_opt by_chunk (hexs c) with
    | Some "!" -> None
    | Some b -> Some (n_of_int (if b = "." then 0 else String.length b / 2))
    | None -> raise (Miss "declen") in
  (enc, dec, declen)

let err_name = function
  | EEOF -> "EOF" | EUnexpectedEOF -> "UEOF" | ECorrupt -> "CORRUPT" | EShortWrite -> "SHORT" | EIO -> "IO"

let split3 (s : string) : string * string * string =
  match String.index_opt s ':' with
  | None -> failwith "bad stream"
  | Some i ->
    let rest = String.sub s (i + 1) (String.length s - i - 1) in
    (match String.index_opt rest ':' with
     | None -> failwith "bad stream"
     | Some j -> (String.sub s 0 i, String.sub rest 0 j, String.sub rest (j + 1) (String.length rest - j - 1)))

let parse_wop (s : string) : wop =
  match s.[0] with
  | 'W' -> OWrite (bytes_of_hex (String.sub s 1 (String.length s - 1)))
  | 'F' -> OFlush
  | 'R' ->
    let body = String.sub s 1 (String.length s - 1) in
    (match String.split_on_char '/' body with
     | [d; steps; eofd; fails] ->
       OReadFrom { src_data = bytes_of_hex d; src_steps = nlist_of_csv steps;
                   src_eof_with_data = (eofd = "1"); src_fails = (fails = "1") }
     | _ -> failwith "bad ReadFrom")
  | _ -> failwith "bad op"

let wres_str = function
  | WOk n -> hex_of_n n ^ ":-"
  | WErr (n, e) -> hex_of_n n ^ ":" ^ err_name e
  | WStuck -> "STUCK"

(* every block the writer produced must be a snappy block for the decoder of
   Spec/SnappyBlock.v (run when cheap: small chunks, or chunks that are mostly literals) *)
let not_snappy (tab : (string * string) list) : bool =
  List.exists (fun (b, c) ->
      b <> "!" && (String.length c <= 16384 || String.length c >= String.length b)
      && snappy_block_decode (bytes_of_hex c) <> Some (bytes_of_hex b)) tab

let eval_xw (tab : string) (obj : string) (streams : string list) : string =
  let ptab = parse_table tab in
  if not_snappy ptab then "NOT-SNAPPY" else
  let (enc, dec, _) = oracles ptab in
  let pooled = ref (
      if obj = "-" then None else
        match String.split_on_char ':' obj with
        | [c; inp; nb; fr] ->
          Some { w_input = bytes_of_hex inp; w_cap = n_of_hex c; w_nbytes = n_of_hex nb; w_framed = (fr = "1") }
        | _ -> failwith "bad writer object") in
  let specdiff = ref false in
  let res = List.map (fun st ->
      let (fr, room, opss) = split3 st in
      let framed = (fr = "1") in
      let room = if room = "-" then None else Some (n_of_hex room) in
      let ops = if opss = "." then [] else List.map parse_wop (String.split_on_char ';' opss) in
      let (((x, data), rs), ok) = xw_stream enc !pooled framed room ops in
      pooled := Some x;
      (* the theorem, at run time: a stream written without error is read by the
         reference decoder of Spec/Xerial.v as the payload *)
      let all_ok = ok && List.for_all (function WOk _ -> true | _ -> false) rs in
      let explicit_flush = List.exists (function OFlush -> true | _ -> false) ops in
      let payload = List.concat (List.map (function OWrite b -> b | OReadFrom r -> r.src_data | OFlush -> []) ops) in
      if all_ok then begin
        if payload = [] then (if data <> [] then specdiff := true)
        else if framed then (if ref_decode dec data <> Some payload then specdiff := true)
        else if not explicit_flush then (if dec data <> Some payload then specdiff := true)
      end;
      Printf.sprintf "%s;%s;%s;%s,%s,%s" (hexs data)
        (if rs = [] then "." else String.concat "," (List.map wres_str rs))
        (if ok then "-" else "SHORT")
        (hex_of_n x.w_cap) (hex_of_n (n_of_int (List.length x.w_input))) (hex_of_n x.w_nbytes)) streams in
  if !specdiff then "SPECDIFF" else String.concat "/" res ^ " ref=ok"

let expand_sizes (count : int) (sizes : n list) : n list =
  let a = Array.of_list sizes in
  List.init count (fun i -> a.(i mod Array.length a))

let eval_xr (tab : string) (obj : string) (streams : string list) : string =
  let (_, dec, declen) = oracles (parse_table tab) in
  let pooled = ref (
      if obj = "-" then None else
        match String.split_on_char ':' obj with
        | [h; o; off; nb] ->
          Some { r_src = []; r_header = bytes_of_hex h; r_output = bytes_of_hex o;
                 r_offset = n_of_hex off; r_nbytes = n_of_hex nb }
        | _ -> failwith "bad reader object") in
  let res = List.map (fun st ->
      let (src, mode) =
        match String.index_opt st ':' with
        | Some i -> (String.sub st 0 i, String.sub st (i + 1) (String.length st - i - 1))
        | None -> failwith "bad reader stream" in
      let x = xr_open !pooled (bytes_of_hex src) in
      let (x', data, lens, final) =
        if mode = "T" then begin
          let ((x', acc), st) = xr_write_to dec declen x in
          (x', acc, [], (match st with Some None -> "EOF" | Some (Some e) -> err_name e | None -> "STUCK"))
        end else begin
          let then_copy = String.length mode > 2 && String.sub mode (String.length mode - 2) 2 = "+T" in
          let mode = if then_copy then String.sub mode 0 (String.length mode - 2) else mode in
          let body = String.sub mode 1 (String.length mode - 1) in
          let (count, sizes) =
            match String.index_opt body 'x' with
            | Some i -> (int_of_n (n_of_hex (String.sub body 0 i)),
                         nlist_of_csv (String.sub body (i + 1) (String.length body - i - 1)))
            | None -> failwith "bad read mode" in
          let (x', rs) = xr_reads dec declen x (expand_sizes count sizes) in
          let data = List.concat (List.map (function RData b -> b | _ -> []) rs) in
          let lens = List.filter_map (function RData b -> Some (hex_of_n (n_of_int (List.length b))) | _ -> None) rs in
          let final = List.fold_left (fun acc r ->
              match r with RErr e -> err_name e | RStuck -> "STUCK" | RData _ -> acc) "-" rs in
          if then_copy && final = "-" then begin
            let ((x'', acc), st) = xr_write_to dec declen x' in
            (x'', data @ acc, lens, (match st with Some None -> "EOF" | Some (Some e) -> err_name e | None -> "STUCK"))
          end else (x', data, lens, final)
        end in
      let released = xr_close x' in
      pooled := Some released;
      Printf.sprintf "%s;%s;%s;%s" (hexs data)
        (if lens = [] then "." else String.concat "," lens) final
        (if released = xr_new [] then "1" else "0")) streams in
  String.concat "/" res ^ " ref=ok"

let kind_of_name = function
  | "snappy-reader" -> kind_snappy_reader | "snappy-writer" -> kind_snappy_writer
  | "lz4-reader" -> kind_lz4_reader | "lz4-writer" -> kind_lz4_writer
  | "gzip-reader" -> kind_gzip_reader | "gzip-writer" -> kind_gzip_writer
  | "zstd-reader" -> kind_zstd_reader | "zstd-writer" -> kind_zstd_writer
  | s -> failwith ("unknown pool kind " ^ s)

let eval_pool (kind : string) (acts : string list) : string =
  let k = kind_of_name kind in
  let st = ref p_init in
  let bad = ref false in
  let taken = ref [] in
  let obs = List.map (fun a ->
      let arg = String.sub a 1 (String.length a - 1) in
      let act =
        match a.[0] with
        | 'N' ->
          (match String.split_on_char ':' arg with
           | [f; p] ->
             let pick =
               if p = "-" then !st.p_next   (* never pooled: sync.Pool.Get returned nil *)
               else begin
                 let o = nat_of_int (int_of_n (n_of_hex p)) in
                 (* the implementation handed out object o: it must be in the pool *)
                 if not (!st.p_inpool o) then bad := true;
                 o
               end in
             ANew (pick, f = "1")
           | _ -> failwith "bad New")
        | 'U' -> AUse (nat_of_int (int_of_n (n_of_hex arg)))
        | 'C' -> AClose (nat_of_int (int_of_n (n_of_hex arg)))
        | _ -> failwith "bad action" in
      taken := act :: !taken;
      let (s', o) = p_observe k !st act in
      st := s';
      match o with
      | ObsNew (Some o, _) -> "N" ^ hex_of_n (n_of_int (int_of_nat o))
      | ObsNew (None, _) -> "NE"
      | ObsUse b -> if b then "U1" else "U0"
      | ObsClose b -> if b then "C1" else "C0") acts in
  let (_, trace) = p_run k p_init (List.rev !taken) in
  if !bad then "BADPICK"
  else if not (disciplined trace) then "UNDISCIPLINED"
  else String.concat "," obs

let eval (op : string) (a : string list) : string =
  match op, a with
  | "xw", tab :: obj :: streams -> eval_xw tab obj streams
  | "xr", tab :: obj :: streams -> eval_xr tab obj streams
  | "pool", kind :: acts -> eval_pool kind acts
  | "sb", [c] -> (match snappy_block_decode (bytes_of_hex c) with Some b -> hexs b | None -> "!")
  | ("rt" | "hist" | "conc" | "mix" | "proto" | "bigx"), _ -> "ok"
  | _ -> "BADCASE"

let () =
  run_lines (fun line ->
      match words line with
      | id :: op :: args ->
        let r = (try eval op args with
            | Miss w -> "ORACLE-MISS:" ^ w
            | Stack_overflow -> "MODEL-STACK-OVERFLOW"
            | Failure m -> "BADCASE:" ^ m) in
        id ^ " " ^ r
      | _ -> "? BADLINE")
