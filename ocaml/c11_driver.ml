(* c11_driver: evaluate the extracted Conn model (Model/ConnOps.v conn_do) on the harness's cases.
   input  line: <id> run <topic> <ops> <frames> <cut> [| <go result> | <features>]
   output line: <id> <class~closed> ...   one token per operation *)
open C11_model
open C11_io

let api_of_name = function
  | "produce" -> AProduce | "fetch" -> AFetch | "listoffsets" -> AListOffsets
  | "metadata" -> AMetadata | "brokers" -> ABrokers | "controller" -> AController
  | "findcoordinator" -> AFindCoordinator | "joingroup" -> AJoinGroup | "syncgroup" -> ASyncGroup
  | "heartbeat" -> AHeartbeat | "leavegroup" -> ALeaveGroup | "offsetcommit" -> AOffsetCommit
  | "offsetfetch" -> AOffsetFetch | "listgroups" -> AListGroups | "createtopics" -> ACreateTopics
  | "deletetopics" -> ADeleteTopics | "apiversions" -> AApiVersions
  | "saslhandshake" -> ASaslHandshake | "saslauthenticate" -> ASaslAuthenticate
  | s -> failwith ("unknown api " ^ s)

(* name + optional action list ("a1/a2/..."): the batch-reading operations *)
let api_of_spec (name : string) (acts : string option) : api =
  let zs = match acts with None | Some "" -> [] | Some a -> List.map z_of_hex (String.split_on_char '/' a) in
  match name with
  | "fetchread" -> AFetchRead zs
  | "connread" -> AFetchRead zs
  | "connreadmsg" -> AFetchRead [z_of_int (-1)]
  | "fetchnoseek" -> AFetch
  | "connoffset" -> AHeartbeat   (* placeholder: handled before conn_do, sends nothing *)
  | _ -> api_of_name name

let rec pr_val (v : val0) : string =
  match v with
  | VZ z -> hex_of_z z
  | VB b -> hex_of_bytes b
  | VL l -> "[" ^ String.concat ";" (List.map pr_val l) ^ "]"
  | VP (a, b) -> pr_val a ^ "," ^ pr_val b
  | VU -> "_"

let fld i v = field (nat_of_int i) v
let lof = function VL l -> l | _ -> []

(* what Conn.ReadPartitions derives from a metadata response *)
let pr_partitions (ver : int) (r : val0) : string =
  let brokers = lof (fld (if ver = 6 then 1 else 0) r) in
  let ids = List.map (fun b -> fld 0 b) brokers in
  let topics = lof (fld (if ver = 6 then 4 else 2) r) in
  let parts = List.concat_map (fun t ->
    let name = fld 1 t in
    List.map (fun p ->
      let leader = fld 2 p in
      let lid = if List.mem leader ids then leader else VZ Z0 in
      String.concat "," [pr_val name; pr_val (fld 1 p); pr_val lid; pr_val (fld 3 p); pr_val (fld 4 p);
                         (if ver = 6 then pr_val (fld 5 p) else "[]"); pr_val (fld 0 p)])
      (lof (fld 3 t))) topics in
  "[" ^ String.concat ";" parts ^ "]"

let pr_err = function
  | EShort -> "short" | EEOF -> "eof" | EUnexpEOF -> "ueof"
  | EKafka c -> "kafka:" ^ hex_of_z c
  | EUnread n -> "unread:" ^ hex_of_z n
  | EFmt t -> "fmt:" ^ hex_of_n t
  | ENegCount -> "negcount" | EPanic -> "panic" | ENoProgress -> "noprogress"
  | EClosed -> "closed" | EUnmodelled -> "unmodelled"

(* Conn.Read / Conn.ReadMessage return silentEOF(err): at the end of a (truncated) batch they give a
   zero result with a nil error, where Batch.Read / ReadMessage give io.EOF *)
let conn_style = ref ""
let pr_reads (v : val0) : string =
  let cls c = match int_of_z c with 0 -> "ok" | 1 -> "shortbuf" | 2 -> "eof" | _ -> "?" in
  match v with
  | VL [VZ flag; VZ boff; VL outs] ->
    let act = function
      | VL [VZ kind; VZ n; VB k; VB b; VZ c] ->
        if int_of_z c = 2 && !conn_style = "connread" then "r,0,.,ok"
        else if int_of_z c = 2 && !conn_style = "connreadmsg" then "m,0,.,.,ok"
        else if int_of_z kind = 0 then String.concat "," ["r"; hex_of_z n; hex_of_bytes b; cls c]
        else if int_of_z c = 0 then String.concat "," ["m"; hex_of_z n; hex_of_bytes k; hex_of_bytes b; "ok"]
        else "m," ^ cls c
      | _ -> "?" in
    "reads:" ^ (if int_of_z flag = 1 then "shortbuf" else "ok") ^ ":" ^ hex_of_z boff ^ ":["
    ^ String.concat ";" (List.map act outs) ^ "]"
  | _ -> "reads:?"

let pr_result (a : api) (ver : int) (r : result) : string =
  match r with
  | RErr e -> pr_err e
  | ROk v ->
    (match a with AFetchRead _ -> pr_reads v | _ ->
    "ok=" ^ (match a with
      | AMetadata -> pr_partitions ver v
      | ASaslHandshake -> "-"
      | ASaslAuthenticate -> pr_val (fld 2 v)
      | _ -> pr_val v))

(* the versions Conn offers to apiVersionMap.negotiate per API (conn.go); the broker's max is
   pinned to the case's version by the harness, and its fake checks the version actually sent *)
let supported = function
  | AProduce -> [2; 3; 7] | AFetch | AFetchRead _ -> [2; 5; 10] | AMetadata -> [1; 6] | AJoinGroup -> [1; 2]
  | ACreateTopics -> [0; 1; 2] | ADeleteTopics -> [0; 1] | ASaslHandshake -> [0; 1] | _ -> []
let negotiate_ok api ver =
  match supported api with
  | [] -> true
  | l -> int_of_z (negotiate (z_of_int ver) (List.map z_of_int l)) = ver

let rec take k l = if k <= 0 then [] else match l with [] -> [] | x :: t -> x :: take (k - 1) t

let names : string list ref = ref []
let eval (a : string list) : string =
  names := [];
  match a with
  | [topic; ops; frames; cut] ->
    let topic = bytes_of_hex topic in
    let ops = List.map (fun s ->
      match String.split_on_char ':' s with
      | name :: ver :: off :: rest ->
        let a = api_of_spec name (match rest with [x] -> Some x | _ -> None) in
        let ver = if ver = "-" then "0" else ver in
        names := !names @ [name];
        (a, int_of_n (n_of_hex ver), { op_api = a; op_ver = n_of_hex ver; op_off = z_of_hex off })
      | _ -> failwith "bad op") (split_on ',' ops) in
    let stream = if frames = "." then [] else List.concat_map bytes_of_hex (split_on ',' frames) in
    (* "s<k>" / "es<k>": split delivery (the peer writes frame 1 in two pieces / with the later frames
       already queued): the same byte stream for the model *)
    let stream = if cut = "-" || cut.[0] = 's' || (String.length cut > 1 && cut.[0] = 'e' && cut.[1] = 's')
                 then stream else take (int_of_n (n_of_hex cut)) stream in
    let st = ref { closed = false; corr = z_of_int 1; cfg_topic = topic; offset = z_of_int (-1) } in
    let s = ref stream in
    let inflight = ref (z_of_int 0) in
    let spun = ref false in
    let idx = ref (-1) in
    let toks = List.map (fun (api, ver, o) ->
      incr idx; conn_style := (try List.nth !names !idx with _ -> "");
      if !spun then "spin~0" else
      if !conn_style = "connoffset" then begin
        (* Conn.Offset(): FirstOffset (-1) -> (0, SeekStart), LastOffset (-2) -> (0, SeekEnd), else (o, SeekAbsolute) *)
        let o = int_of_z (!st).offset in
        "ok=" ^ (if o = -1 then "0,0" else if o = -2 then "0,2" else hex_of_z (!st).offset ^ ",1")
        ^ "~" ^ (if (!st).closed then "1" else "0") end else
      (* fetchnoseek: ReadBatchWith at the Conn's current offset; the peer reports the requested offset *)
      let o = if !conn_style = "fetchnoseek" then { o with op_off = (!st).offset } else o in
      let reqoff = (!st).offset in
      (* conn_do_i threads Conn.inflight; with a balanced counter it is conn_do (theorem
         C11_inflight_zero_detector_enabled) and never spins *)
      let (((st', n'), out), s') = conn_do_i (!st, !inflight) o !s in
      st := st'; s := s'; inflight := n';
      if not (negotiate_ok api ver) then "NEGOTIATE-MISMATCH" else
      match out with
      | Spins -> spun := true; "spin~" ^ (if st'.closed then "1" else "0")
      | Returns r ->
        let r = (match r with
            | ROk (VL [a; b]) when !conn_style = "fetchnoseek" -> ROk (VL [a; b; VZ reqoff])
            | _ -> r) in
        pr_result api ver r ^ "~" ^ (if st'.closed then "1" else "0")) ops in
    String.concat " " toks
  | _ -> "BADCASE"

(* nrun: the Conn is not primed; versions are negotiated by conn_nop (loadVersions as a step) *)
let eval_n (a : string list) : string =
  match a with
  | [topic; ops; frames; cut] ->
    let topic = bytes_of_hex topic in
    let ops = List.map (fun s ->
      match String.split_on_char ':' s with
      | name :: ver :: off :: rest ->
        let a = api_of_spec name (match rest with [x] -> Some x | _ -> None) in
        (a, (if ver = "-" then 0 else int_of_n (n_of_hex ver)), z_of_hex off)
      | _ -> failwith "bad op") (split_on ',' ops) in
    let stream = if frames = "." then [] else List.concat_map bytes_of_hex (split_on ',' frames) in
    (* "s<k>" / "es<k>": split delivery (the peer writes frame 1 in two pieces / with the later frames
       already queued): the same byte stream for the model *)
    let stream = if cut = "-" || cut.[0] = 's' || (String.length cut > 1 && cut.[0] = 'e' && cut.[1] = 's')
                 then stream else take (int_of_n (n_of_hex cut)) stream in
    let c = ref ({ closed = false; corr = z_of_int 0; cfg_topic = topic; offset = z_of_int (-1) }, None) in
    let s = ref stream in
    let toks = List.map (fun (api, ver, off) ->
      let ((c', r), s') = conn_nop !c api off !s in
      c := c'; s := s';
      pr_result api ver r ^ "~" ^ (if (fst c').closed then "1" else "0")) ops in
    String.concat " " toks
  | _ -> "BADCASE"

(* stall cases: cut column "st<cfg>.<k>": the peer goes silent after k bytes; cfg a = SetDeadline,
   r = SetReadDeadline only, w = SetWriteDeadline only.  The model's verdict is deadline_of on the
   exchange in which the silence is met: bounded -> the call returns a timeout error and the Conn
   is closed (later calls: closed); unbounded -> the call never returns *)
let is_stall cut = String.length cut > 3 && String.sub cut 0 2 = "st"
let eval_stall (primed : bool) (a : string list) : string =
  match a with
  | [_; ops; _; cut] ->
    let cfg = cut.[2] in
    let rset = (cfg = 'a' || cfg = 'r') and wset = (cfg = 'a' || cfg = 'w') in
    let specs = split_on ',' ops in
    let first = List.hd specs in
    let name = List.hd (String.split_on_char ':' first) in
    let api = api_of_spec name None in
    let ex = stalled_exchange primed api in
    (match deadline_of rset wset ex with
     | Some _ -> String.concat " " ("timeout~1" :: List.map (fun _ -> "closed~1") (List.tl specs))
     | None -> String.concat " " (List.map (fun _ -> "hang~0") specs))
  | _ -> "BADCASE"

let () =
  run_lines (fun line ->
    let case = (match String.index_opt line '|' with
        | Some i -> String.sub line 0 i | None -> line) in
    match words case with
    | id :: "run" :: ([_; _; _; cut] as rest) when is_stall cut -> id ^ " " ^ (try eval_stall true rest with Failure m -> "BADCASE:" ^ m)
    | id :: "nrun" :: ([_; _; _; cut] as rest) when is_stall cut -> id ^ " " ^ (try eval_stall false rest with Failure m -> "BADCASE:" ^ m)
    | id :: "run" :: rest -> id ^ " " ^ (try eval rest with Failure m -> "BADCASE:" ^ m)
    | id :: "nrun" :: rest -> id ^ " " ^ (try eval_n rest with Failure m -> "BADCASE:" ^ m)
    | id :: _ -> id ^ " BADCASE"
    | [] -> "")
