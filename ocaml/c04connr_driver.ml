(* c04connr_driver: the Conn response readers (Model/ConnReaders.v over Model/Legacy.v and
   Model/ConnOps.v) on the cresp cases of harness/cmd/c04conn.
     cresp <reader> <ver> <body hex> <wire value>  ->  <decoded value> <remaining size> | ERR
   The wire value is parsed following the reader's grammar [reader_ty]; its reference encoding
   [Legacy.enc] must be the body the harness fed to the real reader (else ENC-DIFF); the decoded
   value is [reader_run] on that body with the body's length as remaining size. *)
open C04connr_model
open C04connr_io

let toks = ref []
let next () = match !toks with t :: r -> toks := r; t | [] -> failwith "out of tokens"
let rest t = String.sub t 1 (String.length t - 1)
let expect c = let t = next () in if t = "" || t.[0] <> c then failwith ("expected " ^ String.make 1 c ^ " got " ^ t); rest t

let rec parse (t : ty) : wval =
  match t with
  | TI8 | TI16 | TI32 | TI64 | TBool -> WZ (z_of_hex (expect 'Z'))
  | TStr | TByt -> let s = expect 'S' in WS (if s = "-" then None else Some (bytes_of_hex s))
  | TArr e ->
    let s = expect 'L' in
    if s = "-" then WL None
    else begin
      let n = int_of_string ("0x" ^ s) in
      let acc = ref [] in
      for _ = 1 to n do acc := parse e :: !acc done;
      WL (Some (List.rev !acc))
    end
  | TPair (a, b) -> let x = parse a in let y = parse b in WP (x, y)
  | TUnit -> WU

let rec render (v : val0) (buf : Buffer.t) : unit =
  let tok s = (if Buffer.length buf > 0 then Buffer.add_char buf ','); Buffer.add_string buf s in
  match v with
  | VZ z -> tok ("I" ^ hex_of_z z)
  | VB b -> tok ("S" ^ hex_of_bytes b)
  | VL l -> tok (Printf.sprintf "L%x" (List.length l)); List.iter (fun x -> render x buf) l
  | VP (a, b) -> render a buf; render b buf
  | VU -> ()

let reader_of (name : string) (ver : int) : reader =
  let v = n_of_int ver in
  match name with
  | "metadata" -> RStruct (AMetadata, v)
  | "findcoordinator" -> RStruct (AFindCoordinator, v)
  | "joingroup" -> RStruct (AJoinGroup, v)
  | "syncgroup" -> RStruct (ASyncGroup, v)
  | "heartbeat" -> RStruct (AHeartbeat, v)
  | "leavegroup" -> RStruct (ALeaveGroup, v)
  | "offsetcommit" -> RStruct (AOffsetCommit, v)
  | "offsetfetch" -> RStruct (AOffsetFetch, v)
  | "listgroups" -> RStruct (AListGroups, v)
  | "createtopics" -> RStruct (ACreateTopics, v)
  | "deletetopics" -> RStruct (ADeleteTopics, v)
  | "saslhandshake" -> RStruct (ASaslHandshake, v)
  | "saslauthenticate" -> RStruct (ASaslAuthenticate, v)
  | "producepartition" -> RProducePartition v
  | "listoffsetspartition" -> RListOffsetsPartition
  | "fetchheader" -> RFetchHeader v
  | "apiversions" -> RApiVersions
  | "groupmetadata" -> RGroupMetadata
  | "groupassignment" -> RGroupAssignment
  | _ -> failwith ("unknown reader " ^ name)

(* the Go map is rendered in key order *)
let sort_assignment (v : val0) : val0 =
  match v with
  | VP (ver, VP (VL es, u)) ->
    let key e = (match e with VP (VB k, _) -> hex_of_bytes k | _ -> "") in
    let k' e = let k = key e in if k = "." then "" else k in
    VP (ver, VP (VL (List.stable_sort (fun a b -> compare (k' a) (k' b)) es), u))
  | _ -> v

let eval (op : string) (a : string list) : string =
  match op, a with
  | "cresp", [name; ver; body; w] ->
    let r = reader_of name (int_of_z (z_of_hex ver)) in
    let t = reader_ty r in
    toks := String.split_on_char ',' w;
    let wv = parse t in
    if !toks <> [] then failwith "tokens left over";
    let body = bytes_of_hex body in
    if enc t wv <> body then "ENC-DIFF:" ^ hex_of_bytes (enc t wv)
    else begin
      match reader_run r (z_of_int (List.length body)) body with
      | ((Inl v, sz), _) ->
        let v = (match r with RGroupAssignment -> sort_assignment v | _ -> v) in
        let buf = Buffer.create 256 in
        render v buf;
        (if Buffer.length buf = 0 then "-" else Buffer.contents buf) ^ " " ^ hex_of_z sz
      | ((Inr _, _), _) -> "ERR"
    end
  | _ -> "BADCASE"

let () =
  run_lines (fun line ->
    let case = (match String.index_opt line '|' with
        | Some i -> String.sub line 0 i | None -> line) in
    match words case with
    | id :: op :: args -> id ^ " " ^ (try eval op args with e -> "EXN:" ^ Printexc.to_string e)
    | _ -> "0 BADLINE")
